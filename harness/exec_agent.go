package main

import (
	"errors"
	"fmt"
	"sort"
	"strings"
	"time"

	"github.com/pion/stun/v3"
)

type agentExec struct {
	a      *stun.Agent
	gen    int
	evs    []string
	procN  int
	stopN  int
	custom bool
}

var errCustomStop = errors.New("harness: caller's own stop error")

// the message handed to Agent.Process: only its transaction id may matter, so everything else varies from call to
// call (all four classes incl. indications, many methods, with and without attributes / raw bytes)
func procMessage(id [stun.TransactionIDSize]byte, n int) *stun.Message {
	m := &stun.Message{TransactionID: id}
	m.Type = stun.MessageType{Method: stun.Method((n * 37) % 4096), Class: stun.MessageClass(n % 4)}
	if n%3 == 1 {
		m.Length = uint32(8 * (n % 5))
		m.Raw = make([]byte, 20+int(m.Length))
		m.Attributes = stun.Attributes{{Type: stun.AttrSoftware, Length: 4, Value: []byte("abcd")}}
	}
	return m
}

func (x *agentExec) handler(gen int) stun.Handler {
	return func(e stun.Event) {
		kind := "?"
		switch {
		case e.Message != nil:
			kind = "msg"
		case x.custom && errors.Is(e.Error, errCustomStop):
			kind = "stopped"
		case x.custom && errors.Is(e.Error, stun.ErrTransactionStopped):
			kind = "stopped-but-the-callers-error-was-lost"
		case errors.Is(e.Error, stun.ErrTransactionStopped):
			kind = "stopped"
		case errors.Is(e.Error, stun.ErrTransactionTimeOut):
			kind = "timeout"
		case errors.Is(e.Error, stun.ErrAgentClosed):
			kind = "closed"
		}
		x.evs = append(x.evs, fmt.Sprintf("h%d:%s:%s", gen, showHex(e.TransactionID[:]), kind))
	}
}

func agentErr(err error) string {
	switch {
	case err == nil:
		return "ok"
	case errors.Is(err, stun.ErrAgentClosed):
		return "closed"
	case errors.Is(err, stun.ErrTransactionNotExists):
		return "notexists"
	case errors.Is(err, stun.ErrTransactionExists):
		return "exists"
	}
	return "other:" + err.Error()
}

func tid(s string) (id [stun.TransactionIDSize]byte) {
	copy(id[:], unhex(s))
	return id
}

func (x *agentExec) result(err error) string {
	ev := "-"
	if len(x.evs) > 0 {
		sort.Strings(x.evs)
		ev = strings.Join(x.evs, ",")
	}
	x.evs = x.evs[:0]
	return "ret=" + agentErr(err) + " ev=" + ev
}

func (e *executor) agentOp(t []string) (string, bool) {
	if t[0] != "AG" || len(t) < 2 {
		return "", false
	}
	x := e.ag
	switch {
	case t[1] == "new" && len(t) == 2:
		x = &agentExec{}
		x.a = stun.NewAgent(x.handler(0))
		e.ag = x
		return "ok", true
	case x == nil:
		return "bad-op", true
	case t[1] == "start" && len(t) == 4:
		return x.result(x.a.Start(tid(t[2]), time.Unix(0, int64(atoi(t[3]))))), true
	case t[1] == "stop" && len(t) == 3:
		// Stop(id) is StopWithError(id, ErrTransactionStopped); all three ways of saying it are driven in turn
		x.stopN++
		switch x.stopN % 3 {
		case 1:
			return x.result(x.a.StopWithError(tid(t[2]), stun.ErrTransactionStopped)), true
		case 2:
			// a caller's own error must reach the handler as it is
			x.custom = true
			r := x.result(x.a.StopWithError(tid(t[2]), errCustomStop))
			x.custom = false
			return r, true
		}
		return x.result(x.a.Stop(tid(t[2]))), true
	case t[1] == "process" && len(t) == 3:
		x.procN++
		return x.result(x.a.Process(procMessage(tid(t[2]), x.procN))), true
	case t[1] == "collect" && len(t) == 3:
		return x.result(x.a.Collect(time.Unix(0, int64(atoi(t[2]))))), true
	case t[1] == "sethandler" && len(t) == 2:
		err := x.a.SetHandler(x.handler(x.gen + 1))
		if err == nil {
			x.gen++
		}
		return x.result(err), true
	case t[1] == "close" && len(t) == 2:
		return x.result(x.a.Close()), true
	}
	return "", false
}
