package main

func (g *gen) stream7(name string, n int) bool { return false }
