package main

import "fmt"

func (g *gen) stream7(name string, n int) bool {
	switch name {
	case "uri-exh":
		g.uriExhaustive(n)
	case "uri-grammar":
		g.uriGrammar(n)
	case "uri-std":
		g.uriStd(n)
	case "uri-dial":
		g.uriDial()
	default:
		return g.stream8(name, n)
	}
	return true
}

var uriAlphabet = []byte("a1:[]?=&/%.+-#;@ tu\x00")
var schemes = []string{"stun", "stuns", "turn", "turns"}

// every string over the 20-symbol alphabet up to length n after each scheme prefix (and a few non-scheme prefixes)
func (g *gen) uriExhaustive(n int) {
	al := []byte("a1:[]?=&/%.+-#;@ tu")
	al = append(al, 0x00)
	cnt := 0
	prefixes := []string{"stun:", "stuns:", "turn:", "turns:", "STUN:", "", "http:", "stun", ":"}
	var rec func(cur []byte, depth int)
	emit := func(s []byte) {
		for _, p := range prefixes {
			if p != "stun:" && p != "turns:" && len(s) > n-1 && len(s) > 2 {
				continue // the long tail only after two representative prefixes
			}
			g.caseMark("uri-exh", cnt)
			cnt++
			full := append([]byte(p), s...)
			g.emit("URI parse %s", showHex(full))
			g.emit("URI roundtrip %s", showHex(full))
		}
	}
	rec = func(cur []byte, depth int) {
		emit(cur)
		if depth == n {
			return
		}
		for _, c := range al {
			rec(append(append([]byte{}, cur...), c), depth+1)
		}
	}
	rec(nil, 0)
}

func (g *gen) uriHost() string {
	switch g.r.intn(8) {
	case 0:
		return "example.org"
	case 1:
		return fmt.Sprintf("%d.%d.%d.%d", g.r.intn(256), g.r.intn(256), g.r.intn(256), g.r.intn(256))
	case 2:
		return "[::1]"
	case 3:
		return "[2001:db8::" + fmt.Sprintf("%x", g.r.intn(65536)) + "]"
	case 4:
		return "[fe80::1%25eth0]"
	case 5:
		return "[" + string(g.randFrom("a1:./%", 1+g.r.intn(5))) + "]"
	case 6:
		return string(g.randFrom("ab1.-_~%/", 1+g.r.intn(8)))
	default:
		return ""
	}
}

func (g *gen) randFrom(al string, n int) []byte {
	b := make([]byte, n)
	for i := range b {
		b[i] = al[g.r.intn(len(al))]
	}
	return b
}

func (g *gen) uriPort() string {
	switch g.r.intn(12) {
	case 0:
		return ""
	case 1:
		return ":"
	case 2:
		return ":0"
	case 3:
		return ":65535"
	case 4:
		return ":65536"
	case 5:
		return ":99999"
	case 6:
		return ":-1"
	case 7:
		return ":+5"
	case 8:
		return ":00080"
	case 9:
		return ":9223372036854775808"
	case 10:
		return ":3x"
	default:
		return fmt.Sprintf(":%d", g.r.intn(65536))
	}
}

func (g *gen) uriQuery() string {
	switch g.r.intn(14) {
	case 0, 1, 2:
		return ""
	case 3:
		return "?transport=udp"
	case 4:
		return "?transport=tcp"
	case 5:
		return "?transport=sctp"
	case 6:
		return "?transport=udp&transport=tcp"
	case 7:
		return "?transport=tcp&x=1"
	case 8:
		return "?x=1"
	case 9:
		return "?"
	case 10:
		return "?transport="
	case 11:
		return "?%74ransport=%75dp"
	case 12:
		return "?transport=udp;x"
	default:
		return "?transport=TCP"
	}
}

// grammar-generated URIs and their mutations
func (g *gen) uriGrammar(n int) {
	for i := 0; i < n; i++ {
		g.caseMark("uri-grammar", i)
		s := schemes[g.r.intn(4)] + ":" + g.uriHost() + g.uriPort() + g.uriQuery()
		b := []byte(s)
		switch g.r.intn(6) {
		case 0: // mutate one byte
			if len(b) > 0 {
				b[g.r.intn(len(b))] = uriAlphabet[g.r.intn(len(uriAlphabet))]
			}
		case 1: // insert
			p := g.r.intn(len(b) + 1)
			b = append(b[:p], append([]byte{uriAlphabet[g.r.intn(len(uriAlphabet))]}, b[p:]...)...)
		case 2: // non-ASCII / very long
			if g.r.chance(1, 2) {
				b = append(b, 0xc3, 0xa9, 0xff)
			} else {
				b = append(b, g.randFrom("a:[]?%", 2000+g.r.intn(3000))...)
			}
		case 3: // fragment
			b = append(b, []byte("#"+string(g.randFrom("a%2g", g.r.intn(4))))...)
		}
		g.emit("URI parse %s", showHex(b))
		g.emit("URI roundtrip %s", showHex(b))
	}
}

// all 5x3 scheme/transport combinations of hand-made URI values, IPv4 / IPv6 / name hosts (a name cannot be used with
// DTLS offline: DialURI resolves it with the system resolver before dialling)
func (g *gen) uriDial() {
	// secure schemes over TCP to IP-literal hosts with certificate verification on (the server's certificate names
	// only that address)
	for i, h := range []string{"127.0.0.1", "192.0.2.7", "::1", "2001:db8::7"} {
		for j, sp := range [][2]int{{2, 2}, {4, 2}} {
			g.caseMark("uri-dialverify", 2*i+j)
			g.emit("URI dialverify %d %d %s %d", sp[0], sp[1], showHex([]byte(h)), 5349)
		}
	}
	hosts := []struct{ h, hint string }{{"127.0.0.1", "ip"}, {"::1", "ip"}, {"stun.example.org", "host"},
		{"turn.other.example", "host"}, {"third.example.net", "host"}}
	cnt := 0
	for _, h := range hosts {
		for s := 0; s <= 4; s++ {
			for p := 0; p <= 2; p++ {
				if s == 4 && p == 1 && h.hint == "host" {
					continue
				}
				g.caseMark("uri-dial", cnt)
				cnt++
				g.emit("URI dial %d %d %s %d %s", s, p, showHex([]byte(h.h)), []int{3478, 5349, 0, 65535}[g.r.intn(4)], h.hint)
			}
		}
	}
}

// the standard-library fragments, function by function
func (g *gen) uriStd(n int) {
	for i := 0; i < n; i++ {
		g.caseMark("uri-std", i)
		s := g.randFrom("a1:[]?=&/%.+-#;@ tu", g.r.intn(9))
		g.emit("URI split %s", showHex(s))
		g.emit("URI urlparse %s", showHex(append([]byte(schemes[g.r.intn(4)]+":"), s...)))
		g.emit("URI urlparse %s", showHex(s))
		g.emit("URI query %s", showHex(g.randFrom("transport=udpc&;%2+5x", g.r.intn(20))))
		g.emit("URI atoi %s", showHex(g.randFrom("0123456789+-x", g.r.intn(22))))
		g.emit("URI join %s %s", showHex(g.randFrom("a:[]%.", g.r.intn(6))), showHex(g.randFrom("0123", g.r.intn(4))))
	}
}
