package main

import (
	"bufio"
	"flag"
	"fmt"
	"os"
	"strings"
	"runtime/debug"
)

func usage() {
	fmt.Fprintln(os.Stderr, "usage: harness exec < ops > results | harness gen -stream S -seed N -n N -tier T > ops")
	os.Exit(2)
}

func main() {
	if len(os.Args) < 2 {
		usage()
	}
	switch os.Args[1] {
	case "exec":
		debug.SetMaxStack(64 << 20) // unbounded recursion of the library ends the worker quickly
		fs := flag.NewFlagSet("exec", flag.ExitOnError)
		fs.Parse(os.Args[2:])
		in := bufio.NewReaderSize(os.Stdin, 1<<20)
		out := bufio.NewWriterSize(os.Stdout, 1<<20)
		defer out.Flush()
		ex := newExecutor()
		sc := bufio.NewScanner(in)
		sc.Buffer(make([]byte, 1<<20), 1<<26)
		for sc.Scan() {
			if strings.HasPrefix(sc.Text(), "URI ") || strings.HasPrefix(sc.Text(), "CL ") {
				out.Flush() // the library may take the whole process down: keep what was answered so far
			}
			res := ex.run(sc.Text())
			out.WriteString(res)
			out.WriteByte('\n')
			if f0 := strings.Fields(res + " x")[0]; strings.HasSuffix(f0, "-hang") || strings.HasSuffix(f0, "-stuck") {
				// a call into the library did not return within its deadline: goroutines of the library are stuck;
				// end the worker here (the orchestrator reports this line as the failing input)
				out.Flush()
				os.Exit(3)
			}
		}
	case "gen":
		fs := flag.NewFlagSet("gen", flag.ExitOnError)
		stream := fs.String("stream", "", "stream name")
		seed := fs.Uint64("seed", 1, "seed")
		n := fs.Int("n", 100, "number of cases")
		tier := fs.String("tier", "quick", "quick|thorough")
		fs.Parse(os.Args[2:])
		out := bufio.NewWriterSize(os.Stdout, 1<<20)
		defer out.Flush()
		g := &gen{r: newRng(*seed), w: out, tier: *tier}
		if !g.stream(*stream, *n) {
			fmt.Fprintln(os.Stderr, "unknown stream", *stream)
			os.Exit(2)
		}
	default:
		usage()
	}
}
