package main

import (
	"errors"
	"fmt"
	"net"
	"net/url"
	"strconv"
	"strings"

	"github.com/pion/stun/v3"
)

func uriErrKind(err error) string {
	var ae *net.AddrError
	switch {
	case errors.Is(err, stun.ErrSchemeType), errors.Is(err, stun.ErrHost):
		// url.Parse errors, unknown schemes and empty hosts are one class: for the path / authority form the
		// model only claims "rejected" (see Model/URI.lean)
		return "early"
	case errors.Is(err, stun.ErrPort):
		return "port"
	case errors.Is(err, stun.ErrSTUNQuery):
		return "stun-query"
	case errors.Is(err, stun.ErrInvalidQuery):
		return "invalid-query"
	case errors.Is(err, stun.ErrProtoType):
		return "proto"
	case errors.As(err, &ae):
		return "split:" + splitErrKind(ae.Err)
	}
	var ue *url.Error
	if errors.As(err, &ue) {
		return "early"
	}
	return "other:" + err.Error()
}

func splitErrKind(s string) string {
	switch s {
	case "missing port in address":
		return "missing-port"
	case "too many colons in address":
		return "too-many-colons"
	case "missing ']' in address":
		return "missing-bracket"
	case "unexpected '[' in address":
		return "unexpected-open"
	case "unexpected ']' in address":
		return "unexpected-close"
	}
	return "other:" + s
}

func showURI(u *stun.URI) string {
	// the exported helpers must agree with the parsed value: IsSecure = stuns/turns, and the scheme / transport names
	// parse back to themselves
	extra := ""
	if u.IsSecure() != (u.Scheme == stun.SchemeTypeSTUNS || u.Scheme == stun.SchemeTypeTURNS) {
		extra += " IsSecure-disagrees-with-scheme"
	}
	if stun.NewSchemeType(u.Scheme.String()) != u.Scheme || stun.NewProtoType(u.Proto.String()) != u.Proto {
		extra += " scheme-or-proto-name-does-not-parse-back"
	}
	return fmt.Sprintf("scheme=%s host=%s port=%d proto=%s", u.Scheme.String(), showHex([]byte(u.Host)), u.Port, u.Proto.String()) + extra
}

func (e *executor) uriOp(t []string) (string, bool) {
	if t[0] != "URI" || len(t) < 3 {
		return "", false
	}
	switch {
	case t[1] == "parse" && len(t) == 3:
		u, err := stun.ParseURI(string(unhex(t[2])))
		if err != nil {
			// url-level and host-level rejections of the path form are not distinguished (see model)
			return "err || " + uriErrKind(err), true
		}
		return "ok " + showURI(u) + " || -", true
	case t[1] == "roundtrip" && len(t) == 3:
		u, err := stun.ParseURI(string(unhex(t[2])))
		if err != nil {
			return "err", true
		}
		s := u.String()
		u2, err2 := stun.ParseURI(s)
		same := err2 == nil && *u2 == *u
		return fmt.Sprintf("ok same=%v str=%s", same, showHex([]byte(s))), true
	case t[1] == "split" && len(t) == 3:
		h, p, err := net.SplitHostPort(string(unhex(t[2])))
		if err != nil {
			var ae *net.AddrError
			if errors.As(err, &ae) {
				return "err " + splitErrKind(ae.Err), true
			}
			return "err other", true
		}
		return "ok " + showHex([]byte(h)) + " " + showHex([]byte(p)), true
	case t[1] == "urlparse" && len(t) == 3:
		raw := string(unhex(t[2]))
		u, err := url.Parse(raw)
		if err != nil || u.Scheme == "" {
			return "reject", true
		}
		noFrag, _, _ := strings.Cut(raw, "#")
		rest := noFrag[len(u.Scheme)+1:]
		if strings.HasPrefix(rest, "/") { // path / authority form: Opaque is empty
			return "reject", true
		}
		return "ok " + showHex([]byte(u.Scheme)) + " " + showHex([]byte(u.Opaque)) + " " + showHex([]byte(u.RawQuery)), true
	case t[1] == "atoi" && len(t) == 3:
		n, err := strconv.Atoi(string(unhex(t[2])))
		if err != nil {
			return "err", true
		}
		return "ok " + strconv.Itoa(n), true
	case t[1] == "query" && len(t) == 3:
		q, err := url.ParseQuery(string(unhex(t[2])))
		return fmt.Sprintf("err=%v n=%d transport=%s", err != nil, len(q), showHex([]byte(q.Get("transport")))), true
	case t[1] == "join" && len(t) == 4:
		return showHex([]byte(net.JoinHostPort(string(unhex(t[2])), string(unhex(t[3]))))), true
	}
	return "", false
}
