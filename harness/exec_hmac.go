package main

import (
	"bytes"
	chmac "crypto/hmac"
	"crypto/sha1"
	"crypto/sha256"
	"fmt"
	"hash"
	"runtime"
	"sync"

	"github.com/pion/stun/v3"
)

type hmSlot struct {
	h      hash.Hash
	sha256 bool
	pooled bool
}

// many goroutines use the pool at once; every digest is compared with crypto/hmac
func hmacConcurrent(workers, iters int, seed uint64) string {
	var wg sync.WaitGroup
	bad := make(chan string, workers)
	for w := 0; w < workers; w++ {
		wg.Add(1)
		go func(w int) {
			defer wg.Done()
			r := newRng(seed + uint64(w)*7919)
			for i := 0; i < iters; i++ {
				key := r.bytes(r.intn(130))
				msg := r.bytes(r.intn(300))
				s256 := r.chance(1, 2)
				var h hash.Hash
				var ref hash.Hash
				if s256 {
					h, ref = stun.VerifAcquireSHA256(key), chmac.New(sha256.New, key)
				} else {
					h, ref = stun.VerifAcquireSHA1(key), chmac.New(sha1.New, key)
				}
				cut := r.intn(len(msg) + 1)
				h.Write(msg[:cut])
				if r.chance(1, 3) {
					runtime.Gosched()
				}
				h.Write(msg[cut:])
				ref.Write(msg)
				got, want := h.Sum(nil), ref.Sum(nil)
				if s256 {
					stun.VerifPutSHA256(h)
				} else {
					stun.VerifPutSHA1(h)
				}
				if !bytes.Equal(got, want) {
					select {
					case bad <- fmt.Sprintf("mismatch key=%x msg=%x", key, msg):
					default:
					}
					return
				}
			}
		}(w)
	}
	wg.Wait()
	select {
	case b := <-bad:
		return b
	default:
		return "ok"
	}
}

func (e *executor) hmacOp(t []string) (string, bool) {
	if t[0] == "HMCONC" && len(t) == 4 {
		return hmacConcurrent(atoi(t[1]), atoi(t[2]), uint64(atoi(t[3]))), true
	}
	if t[0] != "HM" || len(t) < 3 {
		return "", false
	}
	switch {
	case t[1] == "acquire" && len(t) == 5:
		i := atoi(t[3])
		s256 := t[2] == "sha256"
		// the caller reuses ONE key buffer for all acquisitions (a library that keeps a reference to it is wrong)
		k0 := unhex(t[4])
		if e.keyBuf == nil {
			e.keyBuf = make([]byte, 0, 1024)
		}
		key := e.keyBuf[:len(k0)]
		copy(key, k0)
		var h hash.Hash
		if s256 {
			h = stun.VerifAcquireSHA256(key)
		} else {
			h = stun.VerifAcquireSHA1(key)
		}
		for j := range key { // the key buffer may be reused by the caller
			key[j] = 0xEE
		}
		e.hm[i] = &hmSlot{h: h, sha256: s256, pooled: true}
		return "ok", true
	case t[1] == "new" && len(t) == 5:
		i := atoi(t[3])
		s256 := t[2] == "sha256"
		e.hm[i] = &hmSlot{h: stun.VerifNewHMAC(s256, unhex(t[4])), sha256: s256}
		return "ok", true
	}
	i := atoi(t[2])
	x := e.hm[i]
	if x == nil {
		return "bad-op", true
	}
	switch {
	case t[1] == "write" && len(t) == 4:
		if _, err := x.h.Write(unhex(t[3])); err != nil {
			return "err", true
		}
		return "ok", true
	case t[1] == "sum" && len(t) == 4:
		return showHex(x.h.Sum(unhex(t[3]))), true
	case t[1] == "reset" && len(t) == 3:
		x.h.Reset()
		return "ok", true
	case t[1] == "put" && len(t) == 3:
		if x.pooled {
			if x.sha256 {
				stun.VerifPutSHA256(x.h)
			} else {
				stun.VerifPutSHA1(x.h)
			}
		}
		e.hm[i] = nil
		return "ok", true
	}
	return "", false
}
