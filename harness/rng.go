package main

// splitmix64: every random choice of a run derives from one state
type rng struct{ s uint64 }

func newRng(seed uint64) *rng { return &rng{s: seed*0x9E3779B97F4A7C15 + 0x1234567} }

func (r *rng) next() uint64 {
	r.s += 0x9E3779B97F4A7C15
	z := r.s
	z = (z ^ (z >> 30)) * 0xBF58476D1CE4E5B9
	z = (z ^ (z >> 27)) * 0x94D049BB133111EB
	return z ^ (z >> 31)
}

func (r *rng) intn(n int) int {
	if n <= 0 {
		return 0
	}
	return int(r.next() % uint64(n))
}

func (r *rng) bytes(n int) []byte {
	b := make([]byte, n)
	for i := range b {
		b[i] = byte(r.next())
	}
	return b
}

func (r *rng) chance(num, den int) bool { return r.intn(den) < num }

func (r *rng) pick(xs []int) int { return xs[r.intn(len(xs))] }
