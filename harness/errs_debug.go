//go:build debug

package main

import "github.com/pion/stun/v3"

func isMismatch(err error) bool {
	switch err.(type) {
	case *stun.IntegrityErr, *stun.CRCMismatch:
		return true
	}
	return false
}
