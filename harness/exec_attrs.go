package main

import (
	"bytes"
	"errors"
	"fmt"
	"io"
	"net"
	"strconv"
	"strings"

	"github.com/pion/stun/v3"
)

func setErrKind(err error) string {
	switch {
	case err == nil:
		return "ok"
	case stun.IsAttrSizeOverflow(err):
		return "err:overflow"
	case errors.Is(err, stun.ErrBadIPLength):
		return "err:bad-ip"
	case errors.Is(err, stun.ErrNoDefaultReason):
		return "err:no-default"
	case errors.Is(err, stun.ErrFingerprintBeforeIntegrity):
		return "err:fp-before-mi"
	}
	return "err:other:" + err.Error()
}

func getErrKind(err error) string {
	var de *stun.DecodeErr
	switch {
	case errors.Is(err, stun.ErrAttributeNotFound):
		return "err:notfound"
	case errors.Is(err, io.ErrUnexpectedEOF):
		return "err:eof"
	case errors.As(err, &de):
		if de.Place.Children == "family" {
			return "err:family"
		}
		return "err:decode:" + de.Place.String()
	case stun.IsAttrSizeOverflow(err):
		return "err:overflow"
	case errors.Is(err, stun.ErrBadUnknownAttrsSize), stun.IsAttrSizeInvalid(err):
		return "err:badsize"
	case isMismatch(err):
		return "err:mismatch"
	}
	return "err:other:" + err.Error()
}

// the exported constructors (NewType, NewUsername, NewRealm, NewNonce, NewSoftware, NewShortTermIntegrity) are
// documented as plain conversions; half of the setters are built through them (chosen by the token, so that a replay
// makes the same choice)
func parseSetter(tok string) stun.Setter {
	p := strings.Split(tok, ":")
	viaCtor := len(tok)%2 == 0
	switch {
	case p[0] == "type" && len(p) == 3 && viaCtor:
		return stun.NewType(stun.Method(atoi(p[1])), stun.MessageClass(atoi(p[2])))
	case p[0] == "user" && len(p) == 2 && viaCtor:
		return stun.NewUsername(string(unhex(p[1])))
	case p[0] == "realm" && len(p) == 2 && viaCtor:
		return stun.NewRealm(string(unhex(p[1])))
	case p[0] == "nonce" && len(p) == 2 && viaCtor:
		return stun.NewNonce(string(unhex(p[1])))
	case p[0] == "soft" && len(p) == 2 && viaCtor:
		return stun.NewSoftware(string(unhex(p[1])))
	case p[0] == "mi" && len(p) == 2 && viaCtor:
		return stun.NewShortTermIntegrity(string(unhex(p[1])))
	case p[0] == "type" && len(p) == 3:
		return stun.MessageType{Method: stun.Method(atoi(p[1])), Class: stun.MessageClass(atoi(p[2]))}
	case p[0] == "tid" && len(p) == 2:
		var id [stun.TransactionIDSize]byte
		copy(id[:], unhex(p[1]))
		return stun.NewTransactionIDSetter(id)
	case p[0] == "raw" && len(p) == 3:
		return stun.RawAttribute{Type: stun.AttrType(atoi(p[1])), Value: unhex(p[2])}
	case p[0] == "user" && len(p) == 2:
		return stun.Username(unhex(p[1]))
	case p[0] == "realm" && len(p) == 2:
		return stun.Realm(unhex(p[1]))
	case p[0] == "nonce" && len(p) == 2:
		return stun.Nonce(unhex(p[1]))
	case p[0] == "soft" && len(p) == 2:
		return stun.Software(unhex(p[1]))
	case p[0] == "xor" && len(p) == 4:
		return xorAs{stun.XORMappedAddress{IP: ipWithSpare(unhex(p[2])), Port: atoi(p[3])}, stun.AttrType(atoi(p[1]))}
	case p[0] == "map" && len(p) == 4:
		return mappedAs{&stun.MappedAddress{IP: ipWithSpare(unhex(p[2])), Port: atoi(p[3])}, stun.AttrType(atoi(p[1]))}
	case p[0] == "ec" && len(p) == 3:
		return stun.ErrorCodeAttribute{Code: stun.ErrorCode(atoi(p[1])), Reason: unhex(p[2])}
	case p[0] == "ecd" && len(p) == 2:
		return stun.ErrorCode(atoi(p[1]))
	case p[0] == "ua" && len(p) == 2:
		ua := stun.UnknownAttributes{}
		if p[1] != "-" {
			for _, s := range strings.Split(p[1], ",") {
				ua = append(ua, stun.AttrType(atoi(s)))
			}
		}
		return ua
	case p[0] == "mi" && len(p) == 2:
		return stun.MessageIntegrity(unhex(p[1]))
	case p[0] == "fp" && len(p) == 1:
		return stun.Fingerprint
	}
	panic("harness: bad setter " + tok)
}

// a caller's IP is often a slice of something longer: 16 spare bytes (0xA5) sit behind it, and nothing of them may be
// read (every other token gets the exact-capacity slice, where reading past the end panics instead)
func ipWithSpare(b []byte) net.IP {
	if len(b)%2 == 1 {
		return net.IP(b)
	}
	buf := bytes.Repeat([]byte{0xA5}, len(b)+16)
	copy(buf, b)
	return net.IP(buf[:len(b)])
}

// the typed setters whose attribute type is a parameter; the dedicated types are used where they exist
type xorAs struct {
	a stun.XORMappedAddress
	t stun.AttrType
}

func (x xorAs) AddTo(m *stun.Message) error {
	if x.t == stun.AttrXORMappedAddress {
		return x.a.AddTo(m)
	}
	return x.a.AddToAs(m, x.t)
}

type mappedAs struct {
	a *stun.MappedAddress
	t stun.AttrType
}

func (x mappedAs) AddTo(m *stun.Message) error {
	switch x.t {
	case stun.AttrMappedAddress:
		return x.a.AddTo(m)
	case stun.AttrAlternateServer:
		return (*stun.AlternateServer)(x.a).AddTo(m)
	case stun.AttrResponseOrigin:
		return (*stun.ResponseOrigin)(x.a).AddTo(m)
	case stun.AttrOtherAddress:
		return (*stun.OtherAddress)(x.a).AddTo(m)
	}
	return x.a.AddToAs(m, x.t)
}

// destinations of the typed getters live across calls (and cases): a getter's result must not depend on what its
// destination held before (a longer IP, a longer text, more unknown-attribute entries); every 7th call starts fresh
type getterDst struct {
	n     int
	mapped *stun.MappedAddress
	xor   *stun.XORMappedAddress
	user  stun.Username
	realm stun.Realm
	nonce stun.Nonce
	soft  stun.Software
	ec    stun.ErrorCodeAttribute
	ua    stun.UnknownAttributes
}

func (d *getterDst) tick() {
	if d.mapped == nil {
		*d = getterDst{mapped: new(stun.MappedAddress), xor: new(stun.XORMappedAddress)}
	}
}

// PRIME: the destinations hold large values of an earlier use (16-byte IPs, long texts, 70 unknown-attribute entries)
func (d *getterDst) prime(fill byte) {
	long := func(n int) []byte {
		b := make([]byte, n)
		for i := range b {
			b[i] = fill + byte(i)
		}
		return b
	}
	d.mapped = &stun.MappedAddress{IP: long(16), Port: 9999}
	d.xor = &stun.XORMappedAddress{IP: long(16), Port: 9999}
	d.user, d.realm, d.nonce, d.soft = long(600), long(800), long(800), long(800)
	d.ec = stun.ErrorCodeAttribute{Code: 699, Reason: long(800)}
	d.ua = make(stun.UnknownAttributes, 70)
	for i := range d.ua {
		d.ua[i] = stun.AttrType(0xAA00 + i)
	}
}

func mappedGet(a *stun.MappedAddress, m *stun.Message, t stun.AttrType) (*stun.MappedAddress, error) {
	var err error
	switch t {
	case stun.AttrMappedAddress:
		err = a.GetFrom(m)
	case stun.AttrAlternateServer:
		err = (*stun.AlternateServer)(a).GetFrom(m)
	case stun.AttrResponseOrigin:
		err = (*stun.ResponseOrigin)(a).GetFrom(m)
	case stun.AttrOtherAddress:
		err = (*stun.OtherAddress)(a).GetFrom(m)
	default:
		err = a.GetFromAs(m, t)
	}
	return a, err
}

func (e *executor) attrs(t []string) (string, bool) {
	if (t[0] == "GETX" || t[0] == "CHECK") && len(t) >= 3 && e.stale[atoi(t[1])] {
		return "stale", true
	}
	switch {
	case t[0] == "PRIME" && len(t) == 2:
		e.dst.prime(byte(atoi(t[1])))
		return "ok", true
	case t[0] == "SET" && len(t) == 3:
		m := e.msgs[atoi(t[1])]
		err := parseSetter(t[2]).AddTo(m)
		return setErrKind(err) + " " + dump(m), true
	case t[0] == "BUILD" && len(t) == 3:
		m := e.msgs[atoi(t[1])]
		var ss []stun.Setter
		if t[2] != "-" {
			for _, s := range strings.Split(t[2], "+") {
				ss = append(ss, parseSetter(s))
			}
		}
		err := m.Build(ss...)
		e.stale[atoi(t[1])] = false
		return setErrKind(err) + " " + dump(m), true
	case t[0] == "DUMP" && len(t) == 2:
		return e.dumpS(atoi(t[1])), true
	case t[0] == "GETX" && len(t) == 4 && t[2] == "xor":
		m := e.msgs[atoi(t[1])]
		e.dst.tick()
		a := e.dst.xor
		var err error
		if at := stun.AttrType(atoi(t[3])); at == stun.AttrXORMappedAddress {
			err = a.GetFrom(m)
		} else {
			err = a.GetFromAs(m, at)
		}
		if err != nil {
			return getErrKind(err), true
		}
		return fmt.Sprintf("ok %s:%d", showHex(a.IP), a.Port), true
	case t[0] == "GETX" && len(t) == 4 && t[2] == "map":
		m := e.msgs[atoi(t[1])]
		e.dst.tick()
		a, err := mappedGet(e.dst.mapped, m, stun.AttrType(atoi(t[3])))
		if err != nil {
			return getErrKind(err), true
		}
		return fmt.Sprintf("ok %s:%d", showHex(a.IP), a.Port), true
	case t[0] == "GETX" && len(t) == 3:
		m := e.msgs[atoi(t[1])]
		var err error
		var out string
		e.dst.tick()
		switch t[2] {
		case "user":
			v := &e.dst.user
			err = v.GetFrom(m)
			out = showHex(*v)
		case "realm":
			v := &e.dst.realm
			err = v.GetFrom(m)
			out = showHex(*v)
		case "nonce":
			v := &e.dst.nonce
			err = v.GetFrom(m)
			out = showHex(*v)
		case "soft":
			v := &e.dst.soft
			err = v.GetFrom(m)
			out = showHex(*v)
		case "ec":
			v := &e.dst.ec
			err = v.GetFrom(m)
			out = fmt.Sprintf("%d:%s", int(v.Code), showHex(v.Reason))
		case "ua":
			vp := &e.dst.ua
			err = vp.GetFrom(m)
			v := *vp
			parts := make([]string, len(v))
			for i, x := range v {
				parts[i] = strconv.Itoa(int(x))
			}
			out = strings.Join(parts, ",")
			if len(v) == 0 {
				out = "-"
			}
		default:
			return "", false
		}
		if err != nil {
			return getErrKind(err), true
		}
		return "ok " + out, true
	case t[0] == "CHECK" && len(t) == 4 && t[2] == "mi":
		m := e.msgs[atoi(t[1])]
		err := stun.MessageIntegrity(unhex(t[3])).Check(m)
		r := "ok"
		if err != nil {
			r = getErrKind(err)
		}
		return r + " " + dump(m), true
	case t[0] == "CHECK" && len(t) == 3 && t[2] == "fp":
		m := e.msgs[atoi(t[1])]
		err := stun.Fingerprint.Check(m)
		r := "ok"
		if err != nil {
			r = getErrKind(err)
		}
		return r + " " + dump(m), true
	case t[0] == "LTKEY" && len(t) == 4:
		k := stun.NewLongTermIntegrity(string(unhex(t[1])), string(unhex(t[2])), string(unhex(t[3])))
		return showHex(k), true
	case t[0] == "FPVAL" && len(t) == 2:
		return strconv.FormatUint(uint64(stun.FingerprintValue(unhex(t[1]))), 10), true
	}
	return "", false
}
