package main

func (g *gen) stream9(name string, n int) bool {
	switch name {
	case "agent-conc":
		g.caseMark("agent-conc", 0)
		for i := 0; i < n; i++ {
			workers := []int{2, 3, 4, 8, 16}[g.r.intn(5)]
			iters := 400 / workers
			g.emit("AGCONC %d %d %d %d", workers, iters, 1+g.r.intn(4), g.r.intn(1<<30))
		}
	default:
		return false
	}
	return true
}
