package main

func (g *gen) stream9(name string, n int) bool { return false }
