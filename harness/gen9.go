package main

func (g *gen) stream9(name string, n int) bool {
	switch name {
	case "agent-conc":
		g.caseMark("agent-conc", 0)
		for i := 0; i < n; i++ {
			workers := []int{2, 3, 4, 8, 16}[g.r.intn(5)]
			iters := 400 / workers
			g.emit("AGCONC %d %d %d %d", workers, iters, 1+g.r.intn(4), g.r.intn(1<<30))
		}
	case "alloc":
		g.allocStream(n)
	case "client-conc":
		for i := 0; i < n; i++ {
			if i%3 == 0 { // Close against the default ticker collector while transactions keep timing out
				g.caseMark("client-real", i)
				g.emit("CL realclose %d %d %d", []int{1, 8, 50, 200}[g.r.intn(4)], []int{100, 300, 1000}[g.r.intn(3)], g.r.intn(2))
			}
			g.caseMark("client-conc", i)
			g.emit("CL new %d %d %d %d %d %d", 50+g.r.intn(200), g.r.intn(9), g.r.intn(2), g.r.intn(2), b2i(g.r.chance(1, 8)), b2i(g.r.chance(1, 8)))
			hn := 1
			for k := g.r.intn(4); k > 0; k-- {
				id := g.r.bytes(12)
				g.emit("CL start %s %s %d", showHex(id), showHex(reqFor(id, 24+g.r.intn(60), byte(k))), hn)
				hn++
				if g.r.chance(1, 2) {
					g.emit("CL deliver %s", showHex(respFor(id, k)))
				}
			}
			if g.r.chance(1, 10) {
				g.emit("CL close")
			}
			g.emit("CL conc %d %d", []int{2, 3, 4, 8, 16}[g.r.intn(5)], g.r.intn(1<<30))
			id := g.r.bytes(12)
			g.emit("CL start %s %s %d", showHex(id), showHex(reqFor(id, 24, 1)), hn)
			g.emit("CL start %s %s -", showHex(id), showHex(reqFor(id, 20, 0)))
			g.emit("CL deliver %s", showHex(respFor(id, 1)))
			g.emit("CL tick %d", 1000000000)
			g.emit("CL close")
		}
	default:
		return false
	}
	return true
}
