module stunharness

go 1.20

require (
	github.com/anishathalye/porcupine v1.3.0
	github.com/pion/stun/v3 v3.0.0
	github.com/pion/transport/v3 v3.0.7
)

require (
	github.com/pion/dtls/v3 v3.0.6 // indirect
	github.com/pion/logging v0.2.3 // indirect
	github.com/wlynxg/anet v0.0.3 // indirect
	golang.org/x/crypto v0.32.0 // indirect
)

replace github.com/pion/stun/v3 => /repo
