package main

func (e *executor) other(t []string) (string, bool) {
	return "", false
}
