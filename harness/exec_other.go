package main

func (e *executor) other(t []string) (string, bool) {
	if r, ok := e.allocOp(t); ok {
		return r, true
	}
	if r, ok := e.agentOp(t); ok {
		return r, true
	}
	if r, ok := e.hmacOp(t); ok {
		return r, true
	}
	if r, ok := e.agconcOp(t); ok {
		return r, true
	}
	if r, ok := e.clientOp(t); ok {
		return r, true
	}
	if r, ok := e.dialOp(t); ok {
		return r, true
	}
	if r, ok := e.dialVerifyOp(t); ok {
		return r, true
	}
	if r, ok := e.uriOp(t); ok {
		return r, true
	}
	return "", false
}
