package main

import (
	"encoding/binary"
	"fmt"
	"strings"
)

func (g *gen) stream4(name string, n int) bool {
	switch name {
	case "attrs-valid":
		g.attrsValid(n)
	case "attrs-malformed":
		g.attrsMalformed(n)
	default:
		return g.stream5(name, n)
	}
	return true
}

// independent RFC 5389 section 15 encoders (no library code)
func rfcMapped(ip []byte, port int) []byte {
	fam := byte(1)
	if len(ip) == 16 {
		fam = 2
	}
	v := []byte{0, fam, byte(port >> 8), byte(port)}
	return append(v, ip...)
}

func rfcXor(ip []byte, port int, tid []byte) []byte {
	v := rfcMapped(ip, port)
	key := append([]byte{0x21, 0x12, 0xA4, 0x42}, tid...)
	v[2] ^= 0x21
	v[3] ^= 0x12
	for i := range ip {
		v[4+i] ^= key[i]
	}
	return v
}

func rfcErrorCode(code int, reason []byte) []byte {
	return append([]byte{0, 0, byte(code / 100), byte(code % 100)}, reason...)
}

func rfcUnknown(ts []int) []byte {
	v := make([]byte, 2*len(ts))
	for i, t := range ts {
		binary.BigEndian.PutUint16(v[2*i:], uint16(t))
	}
	return v
}

func (g *gen) validIP() []byte {
	switch g.r.intn(5) {
	case 0, 1:
		return g.r.bytes(4)
	case 2, 3:
		b := g.r.bytes(16)
		if b[10] == 0xff && b[11] == 0xff {
			b[0] |= 1
		}
		return b
	default:
		b := make([]byte, 16)
		b[10], b[11] = 0xff, 0xff
		copy(b[12:], g.r.bytes(4))
		return b
	}
}

// C06: every typed attribute, valid values: library encode -> re-decode -> library getter (= model getter), and
// independent RFC encoding -> library getter
func (g *gen) attrsValid(n int) {
	for i := 0; i < n; i++ {
		g.caseMark("attrs-valid", i)
		tid := g.r.bytes(12)
		g.emit("NEW 0 %d %d", g.r.intn(600), g.r.intn(256))
		pre := ""
		if g.r.chance(1, 2) { // some unrelated content before
			pre = fmt.Sprintf("+raw:%d:%s", 0x7777, showHex(g.r.bytes(g.r.intn(9))))
		}
		hdr := fmt.Sprintf("type:%d:%d+tid:%s%s", g.r.intn(4096), g.r.intn(4), showHex(tid), pre)
		var set, get, rfc string
		switch k := i % 9; k {
		case 0, 1:
			ip, port := g.validIP(), g.port()
			at := g.r.pick([]int{0x0020, 0x0012, 0x0016})
			set = fmt.Sprintf("xor:%d:%s:%d", at, showHex(ip), port)
			get = fmt.Sprintf("xor %d", at)
			if len(ip) == 16 && ip[10] == 0xff && ip[11] == 0xff && allZero(ip[:10]) {
				ip = ip[12:]
			}
			rfc = fmt.Sprintf("raw:%d:%s", at, showHex(rfcXor(ip, port, tid)))
		case 2, 3:
			ip, port := g.validIP(), g.port()
			at := g.r.pick([]int{0x0001, 0x8023, 0x802b, 0x802c})
			set = fmt.Sprintf("map:%d:%s:%d", at, showHex(ip), port)
			get = fmt.Sprintf("map %d", at)
			if len(ip) == 16 && ip[10] == 0xff && ip[11] == 0xff && allZero(ip[:10]) {
				ip = ip[12:]
			}
			rfc = fmt.Sprintf("raw:%d:%s", at, showHex(rfcMapped(ip, port)))
		case 4, 5:
			kinds := []string{"user", "realm", "nonce", "soft"}
			types := []int{0x0006, 0x0014, 0x0015, 0x8022}
			limits := []int{513, 763, 763, 763}
			j := g.r.intn(4)
			l := g.r.intn(limits[j] + 1)
			if g.r.chance(1, 4) {
				l = limits[j] - g.r.intn(3)
			}
			v := g.r.bytes(l)
			set = kinds[j] + ":" + showHex(v)
			get = kinds[j]
			rfc = fmt.Sprintf("raw:%d:%s", types[j], showHex(v))
		case 6, 7:
			code := 300 + g.r.intn(400)
			reason := g.r.bytes(g.r.intn(128))
			if g.r.chance(1, 6) {
				reason = g.r.bytes(763 - g.r.intn(2))
			}
			set = fmt.Sprintf("ec:%d:%s", code, showHex(reason))
			if g.r.chance(1, 4) {
				code = g.r.pick(ecCodes)
				set = fmt.Sprintf("ecd:%d", code)
				reason = nil
			}
			get = "ec"
			if reason != nil {
				rfc = fmt.Sprintf("raw:9:%s", showHex(rfcErrorCode(code, reason)))
			}
		default:
			nn := g.r.intn(65)
			ts := make([]int, nn)
			parts := make([]string, nn)
			for j := range ts {
				ts[j] = g.r.intn(65536)
				if g.r.chance(1, 4) { // values that mean something elsewhere: attribute types incl. the legacy 0x8020 alias, range ends
					ts[j] = g.r.pick([]int{0x8020, 0x0020, 0x8028, 0x0008, 0x000A, 0x7FFF, 0x8000, 0xFFFF, 0x0000})
				}
				parts[j] = fmt.Sprint(ts[j])
			}
			set = "ua:" + strings.Join(parts, ",")
			if nn == 0 {
				set = "ua:-"
			}
			get = "ua"
			rfc = fmt.Sprintf("raw:10:%s", showHex(rfcUnknown(ts)))
		}
		// library encoder -> wire -> library decoder -> library getter
		if g.r.chance(1, 2) {
			g.emit("PRIME %d", g.r.intn(256))
		}
		g.emit("BUILD 0 %s+%s", hdr, set)
		g.emit("GETX 0 %s", get)
		g.emit("CLONE 0 1")
		g.emit("GETX 1 %s", get)
		// independent RFC encoder -> library getter (the two BUILD lines must produce identical raw bytes)
		if rfc != "" {
			g.emit("BUILD 2 %s+%s", hdr, rfc)
			g.emit("GETX 2 %s", get)
			g.emit("CLONE 2 3")
			g.emit("GETX 3 %s", get)
		}
	}
}

func allZero(b []byte) bool {
	for _, x := range b {
		if x != 0 {
			return false
		}
	}
	return true
}

var getterKinds = []string{"xor 32", "xor 18", "map 1", "map 32803", "map 32811", "map 32812", "user", "realm", "nonce", "soft", "ec", "ua"}
var getterTypes = []int{0x0020, 0x0012, 0x0001, 0x8023, 0x802b, 0x802c, 0x0006, 0x0014, 0x0015, 0x8022, 0x0009, 0x000A}

// C07: every getter/checker x value length 0..40 x position x capacity x surroundings
func (g *gen) attrsMalformed(n int) {
	cnt := 0
	for rep := 0; rep < n; rep++ {
		for gi, gk := range getterKinds {
			for l := 0; l <= 40; l++ {
				g.caseMark("attrs-malformed", cnt)
				cnt++
				val := g.r.bytes(l)
				if l >= 2 && g.r.chance(2, 3) { // plausible family so that later checks are reached
					val[0], val[1] = 0, byte(1+g.r.intn(2))
				}
				if l <= 5 { // short values: every position x capacity combination
					for pos := 0; pos < 3; pos++ {
						for _, extra := range []int{0, 1, 64} {
							g.caseMark("attrs-malformed", cnt)
							cnt++
							g.malformedCaseAt(getterTypes[gi], val, "GETX %d "+gk, pos, extra)
						}
					}
				}
				g.malformedCase(getterTypes[gi], val, "GETX %d "+gk)
			}
		}
		// checkers: MESSAGE-INTEGRITY and FINGERPRINT attributes of every length
		for l := 0; l <= 40; l++ {
			g.caseMark("attrs-malformed", cnt)
			cnt++
			g.malformedCase(0x0008, g.r.bytes(l), "CHECK %d mi "+showHex(g.r.bytes(g.r.intn(80))))
			g.caseMark("attrs-malformed", cnt)
			cnt++
			g.malformedCase(0x8028, g.r.bytes(l), "CHECK %d fp")
		}
	}
}

// the attribute under test at first / middle / last position, in buffers of exact and larger capacity with
// zero / 0xFF / random surroundings; twin messages differing only outside the value must give the same answer
func (g *gen) malformedCase(typ int, val []byte, op string) {
	g.malformedCaseAt(typ, val, op, g.r.intn(3), -1)
}

func (g *gen) malformedCaseAt(typ int, val []byte, op string, pos, fixedExtra int) {
	mk := func(fill int) []wattr {
		var as []wattr
		other := func() wattr {
			l := g.r.intn(7)
			v := make([]byte, l)
			p := make([]byte, pad4(l))
			for i := range v {
				v[i] = byte(fill)
			}
			for i := range p {
				p[i] = byte(fill)
			}
			if fill < 0 {
				v, p = g.r.bytes(l), g.r.bytes(pad4(l))
			}
			return wattr{typ: 0x7777, val: v, pad: p}
		}
		p := make([]byte, pad4(len(val)))
		for i := range p {
			p[i] = byte(fill)
		}
		if fill < 0 {
			p = g.r.bytes(len(p))
		}
		me := wattr{typ: typ, val: val, pad: p}
		switch pos {
		case 0:
			as = []wattr{me, other()}
		case 1:
			as = []wattr{other(), me, other()}
		default:
			as = []wattr{other(), me}
		}
		return as
	}
	tid := g.r.bytes(12)
	if g.r.chance(1, 3) {
		g.emit("PRIME %d", g.r.intn(256))
	}
	for slot, fill := range []int{0, 0xFF, -1} {
		b := wire(uint16(g.r.intn(0x3FFF)), tid, mk(fill))
		extra := []int{0, 0, 1, 2, 19, 20, 64}[g.r.intn(7)]
		if fixedExtra >= 0 {
			extra = fixedExtra
		}
		g.emit("RAWDEC %d %d %d %s", slot, extra, g.r.intn(256), showHex(b))
		g.emit(op, slot)
		g.emit("DUMP %d", slot)
		if slot == 2 && pos == 1 {
			// ... also when the attribute is reached by an attribute walk whose callback gives up at the second of
			// the neighbours: the list must come back whole
			g.emit("FOREACH %d %d 2 0", slot, 0x7777)
			g.emit(op, slot)
			g.emit("DUMP %d", slot)
		}
	}
}
