package main

func (g *gen) stream4(name string, n int) bool { return false }
