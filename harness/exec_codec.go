package main

import (
	"bytes"
	"encoding/hex"
	"errors"
	"fmt"
	"strconv"
	"strings"

	"github.com/pion/stun/v3"
)

type executor struct {
	msgs  [4]*stun.Message
	stale [4]bool // attribute views point into memory overwritten by a failed header-stage decode
	ag    *agentExec
	hm    [8]*hmSlot
	cl    *clientExec
	keyBuf []byte
	dialCfg *stun.DialConfig
	dst   getterDst
	ext  map[string]func(*executor, []string) (string, bool)
}

func newExecutor() *executor {
	e := &executor{}
	for i := range e.msgs {
		e.msgs[i] = new(stun.Message)
	}
	return e
}

func atoi(s string) int {
	n, err := strconv.Atoi(s)
	if err != nil {
		panic("harness: bad number " + s)
	}
	return n
}

func unhex(s string) []byte {
	if s == "-" {
		return []byte{}
	}
	b, err := hex.DecodeString(s)
	if err != nil {
		panic("harness: bad hex " + s)
	}
	return b
}

func showHex(b []byte) string {
	if len(b) == 0 {
		return "-"
	}
	return hex.EncodeToString(b)
}

func poison(seed, n int) []byte {
	b := make([]byte, n)
	for i := range b {
		b[i] = byte(seed + 131*i)
	}
	return b
}

func showAttrs(as stun.Attributes) string {
	if len(as) == 0 {
		return "-"
	}
	parts := make([]string, len(as))
	for i, a := range as {
		parts[i] = fmt.Sprintf("%d:%d:%s", uint16(a.Type), a.Length, showHex(a.Value))
		// RFC 5389 s15: 0x0000-0x7FFF comprehension-required, 0x8000-0xFFFF comprehension-optional
		if a.Type.Required() != (uint16(a.Type) <= 0x7FFF) || a.Type.Optional() == a.Type.Required() {
			parts[i] += "!required-optional-range"
		}
	}
	return strings.Join(parts, ";")
}

func dump(m *stun.Message) string {
	return fmt.Sprintf("T=%d/%d L=%d ID=%s A=%s R=%s", uint16(m.Type.Method), byte(m.Type.Class), m.Length,
		showHex(m.TransactionID[:]), showAttrs(m.Attributes), showHex(m.Raw))
}

func dumpFailed(m *stun.Message) string {
	return fmt.Sprintf("T=%d/%d L=%d ID=%s A#=%d R=%s", uint16(m.Type.Method), byte(m.Type.Class), m.Length,
		showHex(m.TransactionID[:]), len(m.Attributes), showHex(m.Raw))
}

func decErrKind(err error) string {
	if errors.Is(err, stun.ErrUnexpectedHeaderEOF) {
		return "hdr-eof"
	}
	var de *stun.DecodeErr
	if errors.As(err, &de) {
		switch de.Place {
		case stun.DecodeErrPlace{Parent: "message", Children: "cookie"}:
			return "cookie"
		case stun.DecodeErrPlace{Parent: "attribute", Children: "message"}:
			return "msg-size"
		case stun.DecodeErrPlace{Parent: "attribute", Children: "header"}:
			return "attr-hdr"
		case stun.DecodeErrPlace{Parent: "attribute", Children: "value"}:
			return "attr-val"
		}
	}
	return "other:" + err.Error()
}

// bookkeeping of staleness after a decode attempt (mirrors the driver)
func (e *executor) afterDecode(slot int, hadAttrs bool, err error) {
	if err != nil {
		switch decErrKind(err) {
		case "hdr-eof", "cookie", "msg-size":
			e.stale[slot] = e.stale[slot] || hadAttrs
			return
		}
	}
	e.stale[slot] = false
}

func (e *executor) dumpS(slot int) string {
	if e.stale[slot] {
		return dumpFailed(e.msgs[slot])
	}
	return dump(e.msgs[slot])
}

func showDecode(m *stun.Message, err error) string {
	if err != nil {
		return "err " + dumpFailed(m) + " || " + decErrKind(err)
	}
	views := "-"
	if len(m.Attributes) > 0 {
		parts := make([]string, len(m.Attributes))
		for i, a := range m.Attributes {
			off := cap(m.Raw) - cap(a.Value)
			parts[i] = fmt.Sprintf("%d:%d@%d+%d", uint16(a.Type), a.Length, off, len(a.Value))
		}
		views = strings.Join(parts, ";")
	}
	return fmt.Sprintf("ok V=%s IS=%v %s || -", views, stun.IsMessage(m.Raw), dump(m))
}

// run executes one op line on the real library; a panic of the library is an observable result.
func (e *executor) run(line string) (res string) {
	toks := strings.Fields(line)
	if len(toks) == 0 {
		return ""
	}
	if toks[0] == "#" {
		if len(toks) > 1 && toks[1] == "case" { // every case starts with fresh getter destinations (replays are self-contained)
			e.dst = getterDst{}
		}
		return "#"
	}
	defer func() {
		if r := recover(); r != nil {
			if s, ok := r.(string); ok && strings.HasPrefix(s, "harness:") {
				res = "bad-op"
				return
			}
			res = "panic || -"
		}
	}()
	if r, ok := e.codec(toks); ok {
		return r
	}
	if r, ok := e.attrs(toks); ok {
		return r
	}
	if r, ok := e.other(toks); ok {
		return r
	}
	return "bad-op"
}

func (e *executor) codec(t []string) (string, bool) {
	switch {
	case t[0] == "NEW" && len(t) == 4:
		buf := poison(atoi(t[3]), atoi(t[2]))
		e.msgs[atoi(t[1])] = &stun.Message{Raw: buf[:0]}
		e.stale[atoi(t[1])] = false
		return "ok", true
	case t[0] == "NEWZ" && len(t) == 2:
		e.msgs[atoi(t[1])] = new(stun.Message)
		e.stale[atoi(t[1])] = false
		return "ok", true
	case t[0] == "DEC" && len(t) == 4:
		m := e.msgs[atoi(t[1])]
		data := unhex(t[3])
		hadAttrs := len(m.Attributes) > 0
		var err error
		switch t[2] {
		case "decode":
			err = stun.Decode(data, m)
		case "write":
			_, err = m.Write(data)
		case "unmarshal":
			err = m.UnmarshalBinary(data)
		case "gob":
			err = m.GobDecode(data)
		default:
			return "bad-op", true
		}
		// the caller may overwrite its buffer afterwards (C08)
		for i := range data {
			data[i] = 0xEE
		}
		e.afterDecode(atoi(t[1]), hadAttrs, err)
		return showDecode(m, err), true
	case t[0] == "RAWDEC" && len(t) == 5:
		m := e.msgs[atoi(t[1])]
		data := unhex(t[4])
		extra := atoi(t[2])
		buf := make([]byte, len(data)+extra)
		copy(buf, data)
		copy(buf[len(data):], poison(atoi(t[3]), extra))
		hadAttrs := len(m.Attributes) > 0
		m.Raw = buf[:len(data)]
		err := m.Decode()
		e.afterDecode(atoi(t[1]), hadAttrs, err)
		return showDecode(m, err), true
	case t[0] == "READ" && len(t) == 3:
		m := e.msgs[atoi(t[1])]
		chunk := unhex(t[2])
		hadAttrs := len(m.Attributes) > 0
		_, err := m.ReadFrom(bytes.NewReader(chunk))
		for i := range chunk {
			chunk[i] = 0xEE
		}
		e.afterDecode(atoi(t[1]), hadAttrs, err)
		return showDecode(m, err), true
	case t[0] == "CLONE" && len(t) == 3:
		src, dst := e.msgs[atoi(t[1])], e.msgs[atoi(t[2])]
		hadAttrs := len(dst.Attributes) > 0
		err := src.CloneTo(dst)
		e.afterDecode(atoi(t[2]), hadAttrs, err)
		return showDecode(dst, err), true
	case t[0] == "CLONEMUT" && len(t) == 3:
		src, dst := e.msgs[atoi(t[1])], e.msgs[atoi(t[2])]
		hadAttrs := len(dst.Attributes) > 0
		err := src.CloneTo(dst)
		full := src.Raw[:cap(src.Raw)]
		for i := range full { // later changes to the source must not reach the clone
			full[i] ^= 0x5A
		}
		e.afterDecode(atoi(t[2]), hadAttrs, err)
		res := showDecode(dst, err)
		for i := range full {
			full[i] ^= 0x5A
		}
		return res, true
	case t[0] == "MARSHAL" && len(t) == 3:
		m := e.msgs[atoi(t[1])]
		var b []byte
		if t[2] == "gob" {
			b, _ = m.GobEncode()
		} else {
			b, _ = m.MarshalBinary()
		}
		for i := range m.Raw {
			m.Raw[i] ^= 0x5A
		}
		res := showHex(b)
		for i := range m.Raw {
			m.Raw[i] ^= 0x5A
		}
		return res, true
	case t[0] == "WRITETO" && len(t) == 2:
		var buf bytes.Buffer
		e.msgs[atoi(t[1])].WriteTo(&buf) //nolint:errcheck
		return showHex(buf.Bytes()), true
	case t[0] == "MSGADDTO" && len(t) == 3:
		if err := e.msgs[atoi(t[1])].AddTo(e.msgs[atoi(t[2])]); err != nil {
			return "err", true
		}
		return e.dumpS(atoi(t[2])), true
	case t[0] == "ISMSG" && len(t) == 2:
		return fmt.Sprintf("%v", stun.IsMessage(unhex(t[1]))), true
	case t[0] == "RESET" && len(t) == 2:
		m := e.msgs[atoi(t[1])]
		m.Reset()
		e.stale[atoi(t[1])] = false
		return e.dumpS(atoi(t[1])), true
	case t[0] == "SETLEN" && len(t) == 3: // the struct's Length field (a uint32) set directly, as a caller may
		e.msgs[atoi(t[1])].Length = uint32(atoi(t[2]))
		return "ok", true
	case t[0] == "WHDR" && len(t) == 2:
		m := e.msgs[atoi(t[1])]
		m.WriteHeader()
		return e.dumpS(atoi(t[1])), true
	case t[0] == "WLEN" && len(t) == 2:
		m := e.msgs[atoi(t[1])]
		m.WriteLength()
		return e.dumpS(atoi(t[1])), true
	case t[0] == "WTYPE" && len(t) == 2:
		m := e.msgs[atoi(t[1])]
		m.WriteType()
		return e.dumpS(atoi(t[1])), true
	case t[0] == "WTID" && len(t) == 2:
		m := e.msgs[atoi(t[1])]
		m.WriteTransactionID()
		return e.dumpS(atoi(t[1])), true
	case t[0] == "WATTRS" && len(t) == 2:
		m := e.msgs[atoi(t[1])]
		m.WriteAttributes()
		return e.dumpS(atoi(t[1])), true
	case t[0] == "DROPATTR" && len(t) == 3: // the caller edits the attribute list of a decoded message (then re-encodes)
		m := e.msgs[atoi(t[1])]
		if k := atoi(t[2]); k < len(m.Attributes) {
			m.Attributes = append(m.Attributes[:k], m.Attributes[k+1:]...)
		}
		return e.dumpS(atoi(t[1])), true
	case t[0] == "ENCODE" && len(t) == 2:
		m := e.msgs[atoi(t[1])]
		m.Encode()
		return e.dumpS(atoi(t[1])), true
	case t[0] == "SETTYPE" && len(t) == 4:
		m := e.msgs[atoi(t[1])]
		m.SetType(stun.MessageType{Method: stun.Method(atoi(t[2])), Class: stun.MessageClass(atoi(t[3]))})
		return e.dumpS(atoi(t[1])), true
	case t[0] == "SETTID" && len(t) == 3:
		m := e.msgs[atoi(t[1])]
		var id [stun.TransactionIDSize]byte
		copy(id[:], unhex(t[2]))
		if err := stun.NewTransactionIDSetter(id).AddTo(m); err != nil {
			return "err", true
		}
		return e.dumpS(atoi(t[1])), true
	case t[0] == "ADD" && len(t) == 4:
		m := e.msgs[atoi(t[1])]
		v := unhex(t[3])
		m.Add(stun.AttrType(atoi(t[2])), v)
		for i := range v {
			v[i] = 0xEE
		}
		return e.dumpS(atoi(t[1])), true
	case t[0] == "GET" && len(t) == 3:
		m := e.msgs[atoi(t[1])]
		if e.stale[atoi(t[1])] {
			return "stale", true
		}
		v, err := m.Get(stun.AttrType(atoi(t[2])))
		if err != nil {
			return "none", true
		}
		return "some " + showHex(v), true
	case t[0] == "HAS" && len(t) == 3:
		m := e.msgs[atoi(t[1])]
		return fmt.Sprintf("%v", m.Contains(stun.AttrType(atoi(t[2])))), true
	case t[0] == "EQUAL" && len(t) == 3 && (e.stale[atoi(t[1])] || e.stale[atoi(t[2])]):
		return "stale", true
	case t[0] == "EQUAL" && len(t) == 3:
		return fmt.Sprintf("%v", e.msgs[atoi(t[1])].Equal(e.msgs[atoi(t[2])])), true
	case t[0] == "FOREACH" && len(t) == 5 && e.stale[atoi(t[1])]:
		return "stale", true
	case t[0] == "FOREACH" && len(t) == 5:
		m := e.msgs[atoi(t[1])]
		typ := stun.AttrType(atoi(t[2]))
		failAt := atoi(t[3])
		clobber := t[4] == "1"
		var seen []string
		visit := 0
		errFail := errors.New("callback failed")
		err := m.ForEach(typ, func(mm *stun.Message) error {
			var first string
			if len(mm.Attributes) > 0 {
				first = "some " + showHex(mm.Attributes[0].Value)
			} else {
				first = "none"
			}
			seen = append(seen, fmt.Sprintf("%d:%s", len(mm.Attributes), first))
			visit++
			if clobber {
				mm.Attributes = nil
			}
			if failAt != 0 && visit == failAt {
				return errFail
			}
			return nil
		})
		s := "-"
		if len(seen) > 0 {
			s = strings.Join(seen, "|")
		}
		return fmt.Sprintf("failed=%v seen=%s A=%s", err != nil, s, showAttrs(m.Attributes)), true
	case t[0] == "TYPEVAL" && len(t) == 3:
		mt := stun.MessageType{Method: stun.Method(atoi(t[1])), Class: stun.MessageClass(atoi(t[2]))}
		if (atoi(t[1])+atoi(t[2]))%2 == 0 { // the constructor is a plain pair: every other value goes through it
			mt = stun.NewType(stun.Method(atoi(t[1])), stun.MessageClass(atoi(t[2])))
		}
		return strconv.Itoa(int(mt.Value())), true
	case t[0] == "READVAL" && len(t) == 2:
		var mt stun.MessageType
		mt.ReadValue(uint16(atoi(t[1])))
		return fmt.Sprintf("%d/%d", uint16(mt.Method), byte(mt.Class)), true
	}
	return "", false
}
