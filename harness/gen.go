package main

import (
	"bufio"
	"encoding/binary"
	"fmt"
)

type gen struct {
	r    *rng
	w    *bufio.Writer
	tier string
}

func (g *gen) emit(format string, a ...interface{}) {
	fmt.Fprintf(g.w, format, a...)
	g.w.WriteByte('\n')
}

// case boundary marker: everything between two markers is one replayable case
func (g *gen) caseMark(name string, i int) { g.emit("# case %s %d", name, i) }

func (g *gen) stream(name string, n int) bool {
	switch name {
	case "msgtype":
		g.msgtype()
	case "decode":
		g.decode(n)
	case "decode-enum":
		g.decodeEnum(n)
	case "build":
		g.build(n)
	default:
		return g.stream2(name, n)
	}
	return true
}

// ---------------------------------------------------------------- C19: the complete domain

func (g *gen) msgtype() {
	g.caseMark("msgtype", 0)
	for m := 0; m < 4096; m++ {
		for c := 0; c < 4; c++ {
			g.emit("TYPEVAL %d %d", m, c)
		}
	}
	for v := 0; v < 65536; v++ {
		g.emit("READVAL %d", v)
	}
	// on the wire: the type field holds exactly Value() whatever the struct's 32-bit Length field says (WriteHeader
	// writes its low 16 bits into bytes 2..3 and nothing of it into the type)
	g.caseMark("msgtype", 1)
	g.emit("NEW 0 64 0")
	for k := 0; k < 200; k++ {
		m, c := g.r.intn(4096), g.r.intn(4)
		l := []int{0, 1, 65535, 65536, 65537, 1 << 17, 0xFFFF0000, 0xFFFFFFFF, g.r.intn(1 << 20), g.r.intn(1<<32 - 1)}[g.r.intn(10)]
		g.emit("SET 0 type:%d:%d", m, c)
		g.emit("SETLEN 0 %d", l)
		g.emit("WHDR 0")
	}
	g.emit("SETLEN 0 0")
}

// ---------------------------------------------------------------- wire-level message construction (no library code)

var knownTypes = []int{0x0001, 0x0006, 0x0008, 0x0009, 0x000A, 0x0014, 0x0015, 0x0020, 0x8020, 0x8022, 0x8023, 0x8028, 0x802b, 0x802c, 0x0024, 0x7777, 0xFFFF, 0x0000}

type wattr struct {
	typ int
	val []byte
	pad []byte
}

func pad4(n int) int { return (4 - n%4) % 4 }

func (g *gen) randAttrs(maxN, maxLen int) []wattr {
	n := g.r.intn(maxN + 1)
	as := make([]wattr, n)
	for i := range as {
		l := g.r.intn(maxLen + 1)
		if g.r.chance(1, 3) {
			l = g.r.intn(9)
		}
		as[i] = wattr{typ: g.r.pick(knownTypes), val: g.r.bytes(l)}
		p := pad4(l)
		switch g.r.intn(3) {
		case 0:
			as[i].pad = make([]byte, p)
		case 1:
			as[i].pad = g.r.bytes(p)
		default:
			as[i].pad = make([]byte, p)
			for j := range as[i].pad {
				as[i].pad[j] = 0xFF
			}
		}
	}
	return as
}

func wire(typ uint16, tid []byte, as []wattr) []byte {
	var body []byte
	for _, a := range as {
		h := make([]byte, 4)
		binary.BigEndian.PutUint16(h[0:2], uint16(a.typ))
		binary.BigEndian.PutUint16(h[2:4], uint16(len(a.val)))
		body = append(body, h...)
		body = append(body, a.val...)
		body = append(body, a.pad...)
	}
	hdr := make([]byte, 20)
	binary.BigEndian.PutUint16(hdr[0:2], typ)
	binary.BigEndian.PutUint16(hdr[2:4], uint16(len(body)))
	binary.BigEndian.PutUint32(hdr[4:8], 0x2112A442)
	copy(hdr[8:20], tid)
	return append(hdr, body...)
}

func (g *gen) validMsg(maxN, maxLen int) ([]byte, []wattr) {
	as := g.randAttrs(maxN, maxLen)
	typ := uint16(g.r.next())
	if g.r.chance(1, 2) {
		typ &= 0x3FFF
	}
	return wire(typ, g.r.bytes(12), as), as
}

// mutate a valid message: length fields +-1..3, 0xFFFF, truncation, extension, byte flips
func (g *gen) mutate(b []byte, as []wattr) []byte {
	b = append([]byte{}, b...)
	switch g.r.intn(8) {
	case 0: // header length field
		l := int(binary.BigEndian.Uint16(b[2:4]))
		d := g.r.intn(7) - 3
		if l+d >= 0 {
			binary.BigEndian.PutUint16(b[2:4], uint16(l+d))
		}
	case 1:
		binary.BigEndian.PutUint16(b[2:4], 0xFFFF)
	case 2: // an attribute length field
		if len(as) > 0 {
			k := g.r.intn(len(as))
			off := 20
			for i := 0; i < k; i++ {
				off += 4 + len(as[i].val) + len(as[i].pad)
			}
			l := int(binary.BigEndian.Uint16(b[off+2 : off+4]))
			var nl int
			switch g.r.intn(3) {
			case 0:
				nl = l + g.r.intn(7) - 3
			case 1:
				nl = 0xFFFF
			default:
				nl = g.r.intn(len(b) + 8)
			}
			if nl < 0 {
				nl = 0
			}
			binary.BigEndian.PutUint16(b[off+2:off+4], uint16(nl))
		}
	case 3: // truncate
		if len(b) > 0 {
			b = b[:g.r.intn(len(b))]
		}
	case 4: // extend
		b = append(b, g.r.bytes(1+g.r.intn(9))...)
	case 5: // flip a byte
		if len(b) > 0 {
			b[g.r.intn(len(b))] ^= byte(1 << uint(g.r.intn(8)))
		}
	case 6: // cookie damage
		if len(b) >= 8 {
			b[4+g.r.intn(4)] ^= byte(1 + g.r.intn(255))
		}
	case 7: // truncate by 1..3 and fix nothing
		d := 1 + g.r.intn(3)
		if len(b) >= d {
			b = b[:len(b)-d]
		}
	}
	return b
}

func (g *gen) someInput(maxN, maxLen int) []byte {
	switch g.r.intn(10) {
	case 0:
		return g.r.bytes(g.r.intn(64))
	case 1, 2: // cookie + plausible length
		n := 20 + g.r.intn(48)
		b := g.r.bytes(n)
		binary.BigEndian.PutUint32(b[4:8], 0x2112A442)
		binary.BigEndian.PutUint16(b[2:4], uint16(g.r.intn(n-20+4)))
		return b
	case 3, 4, 5, 6:
		b, _ := g.validMsg(maxN, maxLen)
		return b
	default:
		b, as := g.validMsg(maxN, maxLen)
		return g.mutate(b, as)
	}
}

var entries = []string{"decode", "write", "unmarshal", "gob"}

// one decoding through a random entry point into slot `slot`; capLB is the known lower bound of cap(Raw)
func (g *gen) decodeOp(slot int, in []byte, capLB int) int {
	switch k := g.r.intn(10); {
	case k < 5:
		g.emit("DEC %d %s %s", slot, entries[g.r.intn(4)], showHex(in))
		if len(in) > capLB {
			capLB = len(in)
		}
	case k < 8:
		extra := []int{0, 0, 1, 2, 3, 64}[g.r.intn(6)]
		g.emit("RAWDEC %d %d %d %s", slot, extra, g.r.intn(256), showHex(in))
		capLB = len(in) + extra
	case k < 9 && len(in) > 0 && len(in) <= capLB:
		g.emit("READ %d %s", slot, showHex(in))
	default:
		other := 3
		g.emit("RAWDEC %d 0 0 %s", other, showHex(in))
		g.emit("CLONE %d %d", other, slot)
		if len(in) > capLB {
			capLB = len(in)
		}
	}
	return capLB
}

func (g *gen) queries(slot int) {
	for i := 0; i < 2; i++ {
		t := g.r.pick(knownTypes)
		if t == 0x8020 {
			t = 0x0020
		}
		switch g.r.intn(3) {
		case 0:
			g.emit("GET %d %d", slot, t)
		case 1:
			g.emit("HAS %d %d", slot, t)
		default:
			g.emit("FOREACH %d %d %d %d", slot, t, g.r.intn(4), g.r.intn(2))
		}
	}
}

func (g *gen) newSlot(slot int, want int) int {
	switch g.r.intn(6) {
	case 0:
		g.emit("NEWZ %d", slot)
		return 0
	case 1:
		g.emit("NEW %d %d %d", slot, want, g.r.intn(256))
		return want
	case 2:
		g.emit("NEW %d %d %d", slot, want+1+g.r.intn(3), g.r.intn(256))
		return want + 1
	case 3:
		c := g.r.intn(want + 1)
		g.emit("NEW %d %d %d", slot, c, g.r.intn(256))
		return c
	default:
		c := want + 64 + g.r.intn(2048)
		g.emit("NEW %d %d %d", slot, c, g.r.intn(256))
		return c
	}
}

func (g *gen) decode(n int) {
	for i := 0; i < n; i++ {
		g.caseMark("decode", i)
		maxN, maxLen := 8, 40
		if i%50 == 7 {
			maxN, maxLen = 4, 20000 // large inputs, up to 65535+20
		}
		in := g.someInput(maxN, maxLen)
		capLB := g.newSlot(0, len(in))
		capLB = g.decodeOp(0, in, capLB)
		g.queries(0)
		// reuse: decode something else into the same message (C08: nothing of the first use may show)
		for k := g.r.intn(3); k > 0; k-- {
			in2 := g.someInput(maxN, maxLen)
			capLB = g.decodeOp(0, in2, capLB)
			g.queries(0)
		}
	}
}

// ---------------------------------------------------------------- C02: exhaustive length structures

func (g *gen) decodeEnum(bound int) {
	cnt := 0
	// buffers shorter than a header
	for l := 0; l < 20; l++ {
		b := make([]byte, l)
		for i := range b {
			b[i] = byte(i + 1)
		}
		if l >= 8 {
			binary.BigEndian.PutUint32(b[4:8], 0x2112A442)
		}
		if l >= 4 {
			binary.BigEndian.PutUint16(b[2:4], 0)
		}
		g.caseMark("enum", cnt)
		cnt++
		g.emit("RAWDEC 0 0 0 %s", showHex(b))
	}
	for k := 0; k <= bound+3; k++ { // bytes after the header present in the buffer
		body := make([]byte, k)
		var rec func(o int)
		emitAll := func() {
			for _, d := range append(seq(0, k+3), 0xFFFF) {
				hdr := make([]byte, 20)
				binary.BigEndian.PutUint16(hdr[0:2], uint16(cnt))
				binary.BigEndian.PutUint16(hdr[2:4], uint16(d))
				binary.BigEndian.PutUint32(hdr[4:8], 0x2112A442)
				for i := 8; i < 20; i++ {
					hdr[i] = byte(i)
				}
				g.caseMark("enum", cnt)
				cnt++
				extra := cnt % 3 // capacity exact, +1, +2
				g.emit("RAWDEC 0 %d 5 %s", extra, showHex(append(hdr, body...)))
			}
		}
		rec = func(o int) {
			if o+4 > k {
				for i := o; i < k; i++ {
					body[i] = byte(0xA0 + i)
				}
				emitAll()
				return
			}
			rem := k - o - 4
			choices := append(seq(0, rem+3), 0xFFFF)
			for _, a := range choices {
				binary.BigEndian.PutUint16(body[o:o+2], uint16(0x8000+o))
				binary.BigEndian.PutUint16(body[o+2:o+4], uint16(a))
				next := o + 4 + a + pad4(a)
				if next >= k {
					for i := o + 4; i < k; i++ {
						body[i] = byte(0xC0 + i)
					}
					emitAll()
				} else {
					for i := o + 4; i < next; i++ {
						body[i] = byte(0xC0 + i)
					}
					rec(next)
				}
			}
		}
		rec(0)
	}
}

func seq(a, b int) []int {
	var r []int
	for i := a; i <= b; i++ {
		r = append(r, i)
	}
	return r
}

// ---------------------------------------------------------------- C03/C08/C09: building sequences

func (g *gen) valLen() int {
	switch g.r.intn(10) {
	case 0:
		return 0
	case 1, 2, 3, 4:
		return g.r.intn(12)
	case 5, 6, 7:
		return g.r.intn(80)
	case 8:
		return 500 + g.r.intn(300)
	default:
		return g.r.intn(3000)
	}
}

func (g *gen) build(n int) {
	maxOps := 40
	if g.tier == "thorough" {
		maxOps = 400
	}
	for i := 0; i < n; i++ {
		g.caseMark("build", i)
		total := 0 // attribute bytes so far (keep within the 16-bit length field)
		// previous use of the message object (reuse, C08) or a fresh one
		switch g.r.intn(4) {
		case 0:
			g.emit("NEWZ 0")
		case 1:
			g.emit("NEW 0 %d %d", g.r.intn(4096), g.r.intn(256))
		default:
			g.emit("NEW 0 %d %d", 200+g.r.intn(8000), g.r.intn(256))
			prev, _ := g.validMsg(6, 60)
			g.emit("DEC 0 decode %s", showHex(prev))
		}
		// starting point
		switch g.r.intn(3) {
		case 0:
			g.emit("BUILD 0 %s", g.setters(&total, 4))
		case 1:
			g.emit("RESET 0")
			if g.r.chance(1, 2) {
				g.emit("SETTYPE 0 %d %d", g.r.intn(4096), g.r.intn(4))
			}
			g.emit("WHDR 0")
		default:
			in, as := g.validMsg(5, 60)
			if g.r.chance(1, 2) { // bytes after the declared length are tolerated by Decode; building continues on top
				in = append(in, g.r.bytes(1+g.r.intn(40))...)
			}
			if g.r.chance(1, 2) {
				g.emit("DEC 0 decode %s", showHex(in))
			} else {
				g.emit("RAWDEC 0 %d %d %s", g.r.intn(3)*32, g.r.intn(256), showHex(in))
			}
			for _, a := range as {
				total += 4 + len(a.val) + len(a.pad)
			}
			if g.r.chance(1, 2) { // a 4-byte-aligned value right after the decode
				l := 4 * g.r.intn(6)
				total += 4 + l
				g.emit("ADD 0 %d %s", g.r.pick(knownTypes), showHex(g.r.bytes(l)))
			}
		}
		nops := 1 + g.r.intn(maxOps)
		for k := 0; k < nops; k++ {
			switch op := g.r.intn(14); {
			case op < 5:
				l := g.valLen()
				if total+4+l+3 > 65535 {
					continue
				}
				total += 4 + l + pad4(l)
				g.emit("ADD 0 %d %s", g.r.pick(knownTypes), showHex(g.r.bytes(l)))
			case op == 5:
				g.emit("SETTYPE 0 %d %d", g.r.intn(4096), g.r.intn(4))
			case op == 6:
				g.emit("SETTID 0 %s", showHex(g.r.bytes(12)))
			case op == 7:
				g.emit("ENCODE 0")
			case op == 8:
				g.emit("WHDR 0")
			case op == 9:
				g.emit("WLEN 0")
			case op == 10:
				s := g.setter(&total)
				if s != "" {
					g.emit("SET 0 %s", s)
				}
			case op == 11:
				total = 0
				g.emit("BUILD 0 %s", g.setters(&total, 5))
			case op == 12:
				// re-decode the raw bytes into another message and compare (C03)
				g.emit("CLONE 0 1")
				g.emit("EQUAL 0 1")
				g.emit("EQUAL 1 0")
			default:
				g.emit("WTYPE 0")
			}
		}
		g.emit("CLONE 0 1")
		g.emit("EQUAL 0 1")
		g.emit("EQUAL 1 0")
		if g.r.chance(1, 2) { // a decoded message whose list the caller shortens, then Encode and one more attribute:
			// struct and wire must agree afterwards (the kept attributes move down in the buffer)
			g.emit("DROPATTR 1 %d", g.r.intn(4))
			g.emit("ENCODE 1")
			g.emit("ADD 1 %d %s", g.r.pick(knownTypes), showHex(g.r.bytes(g.r.intn(12))))
		}
		g.emit("ENCODE 1")
		// copies handed out (C08): clone / MarshalBinary / GobEncode, then the source is scribbled over
		g.emit("CLONEMUT 0 2")
		g.emit("MARSHAL 0 %s", []string{"bin", "gob"}[g.r.intn(2)])
		g.emit("WRITETO 0")
		// (*Message).AddTo(b), the Message as a setter for crafting responses: b takes m's transaction id, in the struct
		// and on the wire, and m stays as it was. b starts with an id of its own.
		g.emit("BUILD 1 type:%d:%d+tid:%s", g.r.intn(4096), g.r.intn(4), showHex(g.r.bytes(12)))
		g.emit("MSGADDTO 0 1")
		g.emit("DUMP 0")
	}
}

// setters: a '+'-separated list of setter tokens for BUILD ("-" = none)
func (g *gen) setters(total *int, max int) string {
	n := g.r.intn(max + 1)
	s := ""
	for i := 0; i < n; i++ {
		t := g.setter(total)
		if t == "" {
			continue
		}
		if s != "" {
			s += "+"
		}
		s += t
	}
	if s == "" {
		return "-"
	}
	return s
}
