package main

import "fmt"

func (g *gen) stream3(name string, n int) bool {
	switch name {
	case "agent-seq":
		g.agentSeq(n)
	default:
		return g.stream4(name, n)
	}
	return true
}

var agIDs = []string{"0102030405060708090a0b0c", "0102030405060708090a0b0d", "ff02030405060708090a0b0c"}

func (g *gen) agentAlphabet() []string {
	var al []string
	for _, id := range agIDs {
		for _, d := range []int{10, 20} {
			al = append(al, fmt.Sprintf("AG start %s %d", id, d))
		}
		al = append(al, "AG stop "+id, "AG process "+id)
	}
	for _, t := range []int{5, 10, 11, 25} {
		al = append(al, fmt.Sprintf("AG collect %d", t))
	}
	return append(al, "AG sethandler", "AG close")
}

// n = exhaustive depth; followed by random long sequences
func (g *gen) agentSeq(depth int) {
	al := g.agentAlphabet()
	cnt := 0
	seq := make([]int, depth)
	var rec func(k int)
	rec = func(k int) {
		if k == depth {
			g.caseMark("agent-exh", cnt)
			cnt++
			g.emit("AG new")
			for _, i := range seq {
				g.emit("%s", al[i])
			}
			return
		}
		for i := range al {
			seq[k] = i
			rec(k + 1)
		}
	}
	rec(0)
	nrand := 300
	if g.tier == "thorough" {
		nrand = 5000
	}
	for i := 0; i < nrand; i++ {
		g.caseMark("agent-rand", i)
		g.emit("AG new")
		nid := 1 + g.r.intn(64)
		if i%10 == 3 {
			nid = 120 + g.r.intn(200) // more transactions than any fixed-size scratch space inside the agent
		}
		ids := make([]string, nid)
		for j := range ids {
			b := g.r.bytes(12)
			if j > 0 && g.r.chance(1, 3) { // ids differing in one bit
				copy(b, unhex(ids[j-1]))
				b[g.r.intn(12)] ^= 1 << uint(g.r.intn(8))
			}
			ids[j] = showHex(b)
		}
		now := 100
		if nid >= 120 { // mass registration, then one Collect that must time all of the expired ones out
			for j := range ids {
				g.emit("AG start %s %d", ids[j], now+g.r.intn(40)-10)
			}
			now += 20
			g.emit("AG collect %d", now)
			g.emit("AG stop %s", ids[g.r.intn(nid)])
		}
		for k := g.r.intn(2000); k > 0; k-- {
			id := ids[g.r.intn(nid)]
			switch op := g.r.intn(20); {
			case op < 8:
				g.emit("AG start %s %d", id, now+g.r.intn(40)-10)
			case op < 11:
				g.emit("AG stop %s", id)
			case op < 14:
				g.emit("AG process %s", id)
			case op < 18:
				now += g.r.intn(15)
				g.emit("AG collect %d", now)
			case op == 18:
				g.emit("AG sethandler")
			default:
				if g.r.chance(1, 10) {
					g.emit("AG close")
				}
			}
		}
		g.emit("AG close")
		g.emit("AG start %s 5", ids[0])
	}
}
