package main

func (g *gen) stream3(name string, n int) bool { return false }
