package main

func (g *gen) stream6(name string, n int) bool {
	switch name {
	case "hmac-hist":
		g.hmacHist(n)
	default:
		return g.stream7(name, n)
	}
	return true
}

// sequences of acquire(key)/write*/sum/reset/put over keys on both sides of the 64-byte block and messages in random
// chunkings; objects go back to the pool and come out again with another key
func (g *gen) hmacHist(n int) {
	g.caseMark("hmac-conc", 0)
	g.emit("HMCONC 8 %d %d", 200+n, g.r.intn(1<<30))
	g.emit("HMCONC 2 %d %d", 200+n, g.r.intn(1<<30))
	for i := 0; i < n; i++ {
		g.caseMark("hmac-hist", i)
		alg := []string{"sha1", "sha256"}[g.r.intn(2)]
		live := map[int]bool{}
		for k := 3 + g.r.intn(40); k > 0; k-- {
			slot := g.r.intn(3)
			if !live[slot] {
				kl := g.keyLen()
				if g.r.chance(1, 4) {
					kl = g.r.intn(301)
				}
				if g.r.chance(1, 8) {
					g.emit("HM new %s %d %s", alg, slot, showHex(g.r.bytes(kl)))
				} else {
					g.emit("HM acquire %s %d %s", alg, slot, showHex(g.r.bytes(kl)))
				}
				live[slot] = true
				continue
			}
			switch op := g.r.intn(10); {
			case op < 4:
				l := g.r.intn(200)
				if g.r.chance(1, 10) {
					l = g.r.intn(4097)
				}
				g.emit("HM write %d %s", slot, showHex(g.r.bytes(l)))
			case op < 7:
				g.emit("HM sum %d %s", slot, showHex(g.r.bytes(g.r.intn(5))))
			case op < 9:
				g.emit("HM reset %d", slot)
			default:
				g.emit("HM sum %d -", slot)
				g.emit("HM put %d", slot)
				live[slot] = false
			}
		}
		for s := 0; s < 3; s++ {
			if live[s] {
				g.emit("HM sum %d -", s)
				g.emit("HM put %d", s)
			}
		}
	}
}
