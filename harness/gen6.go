package main

func (g *gen) stream6(name string, n int) bool { return false }
