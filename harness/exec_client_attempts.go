package main

import (
	"reflect"
	"unsafe"

	"github.com/pion/stun/v3"
)

// the library has no option for the attempt limit other than 7 (default) and 0 (WithNoRetransmit); the limits
// 1..8 the property quantifies over are set through the unexported field
func setMaxAttempts(c *stun.Client, n int32) {
	f := reflect.ValueOf(c).Elem().FieldByName("maxAttempts")
	*(*int32)(unsafe.Pointer(f.UnsafeAddr())) = n
}
