package main

import (
	"fmt"
	"strings"
)

// a well-formed typed setter of every supported kind; returns the token and the size of its TLV
func (g *gen) validSetter() (string, int) {
	tlv := func(l int) int { return 4 + l + pad4(l) }
	switch k := g.r.intn(12); k {
	case 0, 1:
		l := g.r.intn(40)
		if g.r.chance(1, 6) {
			l = g.r.intn(600)
		}
		return fmt.Sprintf("raw:%d:%s", g.r.pick([]int{0x7777, 0x0024, 0x8029, 0x0025}), showHex(g.r.bytes(l))), tlv(l)
	case 2, 3, 4:
		kinds := []string{"user", "realm", "nonce", "soft"}
		limits := []int{513, 763, 763, 763}
		i := g.r.intn(4)
		l := g.r.intn(64)
		if g.r.chance(1, 5) {
			l = limits[i] - g.r.intn(4)
		}
		return kinds[i] + ":" + showHex(g.r.bytes(l)), tlv(l)
	case 5, 6:
		ip := g.validIP()
		return fmt.Sprintf("xor:%d:%s:%d", g.r.pick([]int{0x0020, 0x0012, 0x0016}), showHex(ip), g.port()), tlv(4 + 16)
	case 7, 8:
		ip := g.validIP()
		return fmt.Sprintf("map:%d:%s:%d", g.r.pick([]int{0x0001, 0x8023, 0x802b, 0x802c}), showHex(ip), g.port()), tlv(4 + 16)
	case 9:
		l := g.r.intn(100)
		if g.r.chance(1, 6) {
			l = 763 - g.r.intn(3)
		}
		return fmt.Sprintf("ec:%d:%s", 300+g.r.intn(400), showHex(g.r.bytes(l))), tlv(4 + l)
	case 10:
		return fmt.Sprintf("ecd:%d", g.r.pick(ecCodes)), tlv(4 + 40)
	default:
		n := 1 + g.r.intn(20)
		if g.r.chance(1, 4) { // more than the 20 entries the setter's stack buffer holds
			n = 21 + g.r.intn(60)
		}
		parts := make([]string, n)
		for i := range parts {
			parts[i] = fmt.Sprint(g.r.intn(65536))
		}
		return "ua:" + strings.Join(parts, ","), tlv(2 * n)
	}
}

// C20: warm objects, one measured operation per line
func (g *gen) allocStream(n int) {
	for i := 0; i < n; i++ {
		g.caseMark("alloc", i)
		na := g.r.intn(17)
		if g.r.chance(1, 8) {
			na = 16
		}
		var ss []string
		size := 20
		for j := 0; j < na; j++ {
			s, l := g.validSetter()
			ss = append(ss, s)
			size += l
		}
		// random order; MESSAGE-INTEGRITY (keys of every length class) and FINGERPRINT last
		key := g.r.bytes([]int{0, 1, 16, 20, 63, 64, 65, 100, 200}[g.r.intn(9)])
		hasMI, hasFP := g.r.chance(2, 3), g.r.chance(2, 3)
		if hasMI {
			ss = append(ss, "mi:"+showHex(key))
			size += 24
		}
		if hasFP {
			ss = append(ss, "fp")
			size += 8
		}
		hdr := fmt.Sprintf("type:%d:%d+tid:%s", g.r.intn(4096), g.r.intn(4), showHex(g.r.bytes(12)))
		all := hdr
		if len(ss) > 0 {
			all += "+" + strings.Join(ss, "+")
		}
		// the builder has been used for a message at least as large (capacity >= size, any spare)
		g.emit("NEW 0 %d %d", size+[]int{0, 0, 1, 19, 20, 64, 1000}[g.r.intn(7)], g.r.intn(256))
		g.emit("BUILD 0 %s", all)
		g.emit("ALLOC build 0 %s", all)
		// the decoder: first use, then exactly k spare bytes behind the message
		g.emit("NEW 1 %d %d", size+g.r.intn(64), g.r.intn(256))
		g.emit("CLONE 0 1")
		g.emit("SPARE 1 %d %d", []int{0, 0, 1, 19, 20, 21, 64, 700}[g.r.intn(8)], g.r.intn(256))
		g.emit("ALLOC clone 0 1")
		g.emit("ALLOC get 1")
		if g.r.chance(1, 2) {
			g.emit("PRIME %d", g.r.intn(256))
		}
		g.emit("ALLOC getx 1")
		if hasMI || g.r.chance(1, 4) {
			k := key
			if g.r.chance(1, 5) {
				k = g.r.bytes(g.r.intn(80))
			}
			g.emit("ALLOC check 1 mi %s", showHex(k))
		}
		g.emit("ALLOC check 1 fp")
		// decoding a smaller hand-made message into the same object through every entry point
		nb := g.r.intn(17)
		as := make([]wattr, 0, nb)
		sz := 20
		for j := 0; j < nb && sz+44 <= size; j++ {
			l := g.r.intn(37)
			as = append(as, wattr{typ: g.r.pick(knownTypes), val: g.r.bytes(l), pad: g.r.bytes(pad4(l))})
			sz += 4 + l + pad4(l)
		}
		b := wire(uint16(g.r.intn(0x3FFF)), g.r.bytes(12), as)
		for _, mode := range []string{"write", "unmarshal", "gob", "decode", "readfrom"} {
			g.emit("ALLOC dec 1 %s %s", mode, showHex(b))
		}
		g.emit("ALLOC get 1")
		g.emit("ALLOC check 1 fp")
	}
}
