package main

import (
	"bytes"
	"fmt"
	"runtime/debug"
	"strings"
	"testing"

	"github.com/pion/stun/v3"
)

// C20: heap allocations per run of one operation on warm objects (testing.AllocsPerRun: one warm-up call, then the
// average over 5 calls). The collector is off while measuring, so that sync.Pool misses caused by a GC cycle are not
// mistaken for allocations of the operation.
func measure(f func()) int {
	old := debug.SetGCPercent(-1)
	defer debug.SetGCPercent(old)
	return int(testing.AllocsPerRun(5, f))
}

func spare20(m *stun.Message) string {
	return fmt.Sprintf("spare20=%v", cap(m.Raw)-len(m.Raw) >= 20)
}

func (e *executor) allocOp(t []string) (string, bool) {
	switch {
	// SPARE slot k fill: the message's bytes move to an array with exactly k spare bytes (then re-decoded)
	case t[0] == "SPARE" && len(t) == 4:
		m := e.msgs[atoi(t[1])]
		k := atoi(t[2])
		buf := make([]byte, len(m.Raw)+k)
		copy(buf, m.Raw)
		copy(buf[len(m.Raw):], poison(atoi(t[3]), k))
		hadAttrs := len(m.Attributes) > 0
		m.Raw = buf[:len(m.Raw)]
		err := m.Decode()
		e.afterDecode(atoi(t[1]), hadAttrs, err)
		return showDecode(m, err), true
	case t[0] != "ALLOC" || len(t) < 3:
		return "", false
	case t[1] == "dec" && len(t) == 5:
		m := e.msgs[atoi(t[2])]
		data := unhex(t[4])
		rd := bytes.NewReader(data)
		var f func()
		switch t[3] {
		case "write":
			f = func() { m.Write(data) } //nolint:errcheck
		case "unmarshal":
			f = func() { m.UnmarshalBinary(data) } //nolint:errcheck
		case "gob":
			f = func() { m.GobDecode(data) } //nolint:errcheck
		case "decode":
			f = func() { stun.Decode(data, m) } //nolint:errcheck
		case "readfrom":
			f = func() { rd.Reset(data); m.ReadFrom(rd) } //nolint:errcheck
		default:
			return "bad-op", true
		}
		hadAttrs := len(m.Attributes) > 0
		n := measure(f)
		var err error
		if t[3] == "readfrom" {
			rd.Reset(data)
			_, err = m.ReadFrom(rd)
		} else {
			_, err = m.Write(data)
		}
		e.afterDecode(atoi(t[2]), hadAttrs, err)
		return fmt.Sprintf("allocs=%d %s", n, showDecode(m, err)), true
	case t[1] == "clone" && len(t) == 4:
		src, dst := e.msgs[atoi(t[2])], e.msgs[atoi(t[3])]
		hadAttrs := len(dst.Attributes) > 0
		n := measure(func() { src.CloneTo(dst) }) //nolint:errcheck
		err := src.CloneTo(dst)
		e.afterDecode(atoi(t[3]), hadAttrs, err)
		return fmt.Sprintf("allocs=%d %s", n, showDecode(dst, err)), true
	case t[1] == "get" && len(t) == 3:
		m := e.msgs[atoi(t[2])]
		types := []stun.AttrType{0x7FFF}
		for _, a := range m.Attributes {
			types = append(types, a.Type)
		}
		var sink int
		n := measure(func() {
			for _, at := range types {
				v, _ := m.Get(at)
				sink += len(v)
				if m.Contains(at) {
					sink++
				}
			}
		})
		return fmt.Sprintf("allocs=%d n=%d", n, len(types)), true
	case t[1] == "getx" && len(t) == 3:
		m := e.msgs[atoi(t[2])]
		e.dst.tick()
		d := &e.dst
		okc := 0
		one := func(err error) {
			if err == nil {
				okc++
			}
		}
		f := func() {
			okc = 0
			one(d.xor.GetFrom(m))
			one(d.xor.GetFromAs(m, stun.AttrXORPeerAddress))
			one(d.xor.GetFromAs(m, stun.AttrXORRelayedAddress))
			one(d.mapped.GetFrom(m))
			one((*stun.AlternateServer)(d.mapped).GetFrom(m))
			one((*stun.ResponseOrigin)(d.mapped).GetFrom(m))
			one((*stun.OtherAddress)(d.mapped).GetFrom(m))
			one(d.user.GetFrom(m))
			one(d.realm.GetFrom(m))
			one(d.nonce.GetFrom(m))
			one(d.soft.GetFrom(m))
			one(d.ec.GetFrom(m))
			one(d.ua.GetFrom(m))
		}
		n := measure(f)
		return fmt.Sprintf("allocs=%d ok=%d", n, okc), true
	case t[1] == "check" && len(t) == 5 && t[3] == "mi":
		m := e.msgs[atoi(t[2])]
		key := stun.MessageIntegrity(unhex(t[4]))
		var err error
		n := measure(func() { err = key.Check(m) })
		r := "ok"
		if err != nil {
			r = getErrKind(err)
		}
		return fmt.Sprintf("allocs=%d %s %s", n, r, spare20(m)), true
	case t[1] == "check" && len(t) == 4 && t[3] == "fp":
		m := e.msgs[atoi(t[2])]
		var err error
		n := measure(func() { err = stun.Fingerprint.Check(m) })
		r := "ok"
		if err != nil {
			r = getErrKind(err)
		}
		return fmt.Sprintf("allocs=%d %s", n, r), true
	case t[1] == "build" && len(t) == 4:
		m := e.msgs[atoi(t[2])]
		var ss []stun.Setter
		if t[3] != "-" {
			for _, s := range strings.Split(t[3], "+") {
				ss = append(ss, parseSetter(s))
			}
		}
		var err error
		n := measure(func() { err = m.Build(ss...) })
		e.stale[atoi(t[2])] = false
		return fmt.Sprintf("allocs=%d %s %s", n, setErrKind(err), dump(m)), true
	}
	return "", false
}
