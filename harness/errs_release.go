//go:build !debug

package main

import (
	"errors"

	"github.com/pion/stun/v3"
)

func isMismatch(err error) bool {
	return errors.Is(err, stun.ErrIntegrityMismatch) || errors.Is(err, stun.ErrFingerprintMismatch)
}
