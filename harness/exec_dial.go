package main

import (
	"bytes"
	"errors"
	"fmt"
	"net"
	"sync"
	"time"

	"github.com/pion/stun/v3"
	"github.com/pion/transport/v3"
)

// in-memory connection: records writes, Read blocks until Close
type fakeConn struct {
	transport.UDPConn // nil: only the methods below may be used
	mu                sync.Mutex
	writes            [][]byte
	wrote             chan struct{}
	closed            chan struct{}
	once              sync.Once
	raddr             net.Addr
}

func newFakeConn(raddr net.Addr) *fakeConn {
	return &fakeConn{wrote: make(chan struct{}, 64), closed: make(chan struct{}), raddr: raddr}
}

func (c *fakeConn) record(b []byte) {
	c.mu.Lock()
	c.writes = append(c.writes, append([]byte{}, b...))
	c.mu.Unlock()
	select {
	case c.wrote <- struct{}{}:
	default:
	}
}
func (c *fakeConn) Write(b []byte) (int, error)                  { c.record(b); return len(b), nil }
func (c *fakeConn) WriteTo(b []byte, _ net.Addr) (int, error)    { c.record(b); return len(b), nil }
func (c *fakeConn) Read(b []byte) (int, error)                   { <-c.closed; return 0, net.ErrClosed }
func (c *fakeConn) ReadFrom(b []byte) (int, net.Addr, error)     { <-c.closed; return 0, nil, net.ErrClosed }
func (c *fakeConn) Close() error                                 { c.once.Do(func() { close(c.closed) }); return nil }
func (c *fakeConn) LocalAddr() net.Addr                          { return &net.UDPAddr{IP: net.IPv4(127, 0, 0, 1), Port: 1} }
func (c *fakeConn) RemoteAddr() net.Addr                         { return c.raddr }
func (c *fakeConn) SetDeadline(time.Time) error                  { return nil }
func (c *fakeConn) SetReadDeadline(time.Time) error              { return nil }
func (c *fakeConn) SetWriteDeadline(time.Time) error             { return nil }

type fakeNet struct {
	transport.Net // nil
	calls         []string
	conn          *fakeConn
}

func (n *fakeNet) Dial(network, address string) (net.Conn, error) {
	n.calls = append(n.calls, "dial:"+network+":"+address)
	n.conn = newFakeConn(&net.TCPAddr{})
	return n.conn, nil
}

func (n *fakeNet) DialUDP(network string, laddr, raddr *net.UDPAddr) (transport.UDPConn, error) {
	n.calls = append(n.calls, "dialudp:"+network+":"+raddr.String())
	n.conn = newFakeConn(raddr)
	return n.conn, nil
}

// URI dial <scheme 0..4> <proto 0..2> <hosthex> <port>: what DialURI does with a (possibly hand-made) URI value
func (e *executor) dialOp(t []string) (string, bool) {
	if t[0] != "URI" || len(t) != 7 || t[1] != "dial" {
		return "", false
	}
	host := string(unhex(t[4]))
	u := &stun.URI{Scheme: stun.SchemeType(atoi(t[2])), Proto: stun.ProtoType(atoi(t[3])), Host: host, Port: atoi(t[5])}
	nw := &fakeNet{}
	// one DialConfig is reused for all dials of a run, as an application would
	if e.dialCfg == nil {
		e.dialCfg = &stun.DialConfig{}
		e.dialCfg.TLSConfig.InsecureSkipVerify = true //nolint:gosec
		e.dialCfg.DTLSConfig.InsecureSkipVerify = true
	}
	cfg := e.dialCfg
	cfg.Net = nw
	c, err := stun.DialURI(u, cfg)
	if err != nil {
		if errors.Is(err, stun.ErrUnsupportedURI) {
			return "plan=unsupported", true
		}
		return "plan=error:" + err.Error(), true
	}
	// an application reuses its DialConfig: before this client's handshake starts, the same config dials a second
	// (decoy) server. Nothing of that second dial may show in this client's ClientHello, and the caller's config
	// must stay as the caller wrote it.
	decoyNote := ""
	if u.Scheme == stun.SchemeTypeSTUNS || u.Scheme == stun.SchemeTypeTURNS {
		decoyHost := "decoy.invalid.example"
		if net.ParseIP(host) != nil || u.Proto == stun.ProtoTypeUDP {
			decoyHost = "127.0.0.9"
		}
		nw2 := &fakeNet{}
		cfg.Net = nw2
		d := &stun.URI{Scheme: u.Scheme, Proto: u.Proto, Host: decoyHost, Port: u.Port}
		if c2, err2 := stun.DialURI(d, cfg); err2 == nil {
			defer c2.Close() //nolint:errcheck
		}
		cfg.Net = nw
		if cfg.TLSConfig.ServerName != "" || cfg.DTLSConfig.ServerName != "" {
			decoyNote = " callers-config-was-modified"
			cfg.TLSConfig.ServerName, cfg.DTLSConfig.ServerName = "", ""
		}
	}
	// make the client write: plaintext STUN shows a STUN header, a secure transport shows a ClientHello first
	m := stun.MustBuild(stun.TransactionID, stun.BindingRequest)
	go c.Indicate(m) //nolint:errcheck
	first := []byte{}
	select {
	case <-nw.conn.wrote:
		nw.conn.mu.Lock()
		first = nw.conn.writes[0]
		nw.conn.mu.Unlock()
	case <-time.After(3 * time.Second):
	}
	c.Close() //nolint:errcheck
	kind := "silent"
	sni := "-"
	if len(first) > 0 {
		switch {
		case first[0] == 22: // TLS / DTLS handshake record
			kind = "hello"
			if bytes.Contains(first, []byte("decoy.invalid.example")) {
				sni = "another-dials-server-name"
			} else if bytes.Contains(first, []byte(host)) && net.ParseIP(host) == nil {
				sni = "host"
			} else if net.ParseIP(host) != nil {
				sni = "ip" // no SNI extension for IP literals (RFC 6066)
			}
		case first[0] < 4:
			kind = "stun"
		default:
			kind = fmt.Sprintf("other:%d", first[0])
		}
	}
	call := "-"
	if len(nw.calls) > 0 {
		call = nw.calls[0]
	}
	plan := "?"
	switch {
	case kind == "stun" && call == "dial:udp:"+net.JoinHostPort(host, t[5]):
		plan = "udp"
	case kind == "stun" && call == "dial:tcp:"+net.JoinHostPort(host, t[5]):
		plan = "tcp"
	case kind == "hello" && len(call) > 8 && call[:8] == "dialudp:":
		plan = "dtls-over-udp"
	case kind == "hello" && call == "dial:tcp:"+net.JoinHostPort(host, t[5]):
		plan = "tls-over-tcp"
	default:
		plan = "unexpected:" + kind + ":" + call
	}
	return "plan=" + plan + " sni=" + sni + decoyNote, true
}
