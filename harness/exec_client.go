package main

import (
	"net"
	"bytes"
	"errors"
	"fmt"
	"io"
	"sort"
	"strings"
	"sync"
	"sync/atomic"
	"time"

	"github.com/pion/stun/v3"
)

var errScriptedWrite = errors.New("scripted write failure")
var errScriptedClose = errors.New("scripted close failure")

// scripted stun.Connection
type clConn struct {
	mu          sync.Mutex
	inbox       chan []byte
	readEntered chan struct{}
	kick        chan struct{}
	closed      chan struct{}
	once        sync.Once
	closeCount  int
	writes      [][]byte
	failIDs     [][]byte
	closeErr    bool
	closeErrWrapsNetClosed bool
	inRead      int32
	// Do: a response handed to the reader while the request with this id is being written
	doID      []byte
	doResp    []byte
	doStarted chan struct{}
	// L2: the next write of a listed id blocks until released (with or without error)
	blockIDs  [][]byte
	blockedCh chan struct{}
	releaseCh chan bool
	doFail bool // the Write that delivered the Do response then fails
}

func (c *clConn) Read(b []byte) (int, error) {
	atomic.AddInt32(&c.inRead, 1)
	defer atomic.AddInt32(&c.inRead, -1)
	select {
	case c.readEntered <- struct{}{}:
	case <-c.closed:
		return 0, io.ErrClosedPipe
	}
	select {
	case d := <-c.inbox:
		return copy(b, d), nil
	case <-c.kick:
		return 0, errors.New("read interrupted")
	case <-c.closed:
		return 0, io.ErrClosedPipe
	}
}

func (c *clConn) Write(b []byte) (int, error) {
	c.mu.Lock()
	c.writes = append(c.writes, append([]byte{}, b...))
	if len(b) >= 20 {
		for i, id := range c.blockIDs {
			if bytes.Equal(id, b[8:20]) {
				c.blockIDs = append(c.blockIDs[:i], c.blockIDs[i+1:]...)
				c.mu.Unlock()
				c.blockedCh <- struct{}{}
				if ok := <-c.releaseCh; !ok {
					return 0, errScriptedWrite
				}
				return len(b), nil
			}
		}
	}
	defer c.mu.Unlock()
	if len(b) >= 20 {
		for i, id := range c.failIDs {
			if bytes.Equal(id, b[8:20]) {
				c.failIDs = append(c.failIDs[:i], c.failIDs[i+1:]...)
				return 0, errScriptedWrite
			}
		}
		if c.doResp != nil && bytes.Equal(c.doID, b[8:20]) {
			resp, started := c.doResp, c.doStarted
			c.doResp = nil
			select {
			case c.inbox <- resp:
				select { // the write "returns" once the response is being handled
				case <-started:
				case <-time.After(5 * time.Second):
				}
			case <-time.After(5 * time.Second):
			}
			if c.doFail { // ... and fails (op dofail): known finding F12 seen through Do
				c.doFail = false
				return 0, errScriptedWrite
			}
		}
	}
	return len(b), nil
}

func (c *clConn) Close() error {
	c.mu.Lock()
	c.closeCount++
	c.mu.Unlock()
	c.once.Do(func() { close(c.closed) })
	if c.closeErr {
		if c.closeErrWrapsNetClosed { // what a real net.Conn says when its owner closed it first: still an error to report
			return &net.OpError{Op: "close", Net: "udp", Err: net.ErrClosed}
		}
		return errScriptedClose
	}
	return nil
}

type manualCollector struct {
	f    func(time.Time)
	slow int32 // Close takes a moment (widens the window in which concurrent Close calls overlap)
}

func (m *manualCollector) Start(_ time.Duration, f func(now time.Time)) error { m.f = f; return nil }
func (m *manualCollector) Close() error {
	if atomic.LoadInt32(&m.slow) != 0 {
		time.Sleep(2 * time.Millisecond)
	}
	return nil
}

type virtualClock struct {
	mu  sync.Mutex
	now int64
}

func (v *virtualClock) Now() time.Time { v.mu.Lock(); defer v.mu.Unlock(); return time.Unix(0, v.now) }
func (v *virtualClock) set(t int64)    { v.mu.Lock(); v.now = t; v.mu.Unlock() }

// agent wrapper that can make Close fail after closing the real agent
type errCloseAgent struct {
	*stun.Agent
	fail bool
	// L2: the next Start of a listed id blocks until released; released with "fail" it returns ErrAgentClosed
	// without reaching the real agent (a ClientAgent is allowed to fail)
	mu        sync.Mutex
	blockIDs  [][]byte
	blockedCh chan struct{}
	releaseCh chan bool
}

func (a *errCloseAgent) Start(id [stun.TransactionIDSize]byte, deadline time.Time) error {
	a.mu.Lock()
	for i, b := range a.blockIDs {
		if bytes.Equal(b, id[:]) {
			a.blockIDs = append(a.blockIDs[:i], a.blockIDs[i+1:]...)
			a.mu.Unlock()
			a.blockedCh <- struct{}{}
			if ok := <-a.releaseCh; !ok {
				return stun.ErrAgentClosed
			}
			return a.Agent.Start(id, deadline)
		}
	}
	a.mu.Unlock()
	return a.Agent.Start(id, deadline)
}

func (a *errCloseAgent) Close() error {
	err := a.Agent.Close()
	if err == nil && a.fail {
		return errScriptedClose
	}
	return err
}

type clientExec struct {
	ag       *errCloseAgent
	tickDone chan struct{} // L2: the collector call that is (or was) suspended in Write
	blocked  int
	startRet chan error // L2: a Start that is suspended in its first Write
	c       *stun.Client
	conn    *clConn
	coll    *manualCollector
	clock   *virtualClock
	mu      sync.Mutex
	cbs     []string
	noClose bool
	closed  bool
	slowCb  int32 // handlers take a moment (op ticks2: widens the window in which two collector calls overlap)
}

func cevKind(e stun.Event) string {
	var se stun.StopErr
	switch {
	case e.Error == nil && e.Message != nil:
		s := fmt.Sprintf("msg:%s/a%d", showHex(e.Message.Raw), len(e.Message.Attributes))
		for _, a := range e.Message.Attributes {
			s += fmt.Sprintf(".%d-%d-%d", int(a.Type), int(a.Length), len(a.Value))
		}
		return s
	case errors.Is(e.Error, stun.ErrTransactionTimeOut):
		return "timeout"
	case errors.Is(e.Error, stun.ErrAgentClosed):
		return "agent-closed"
	case errors.Is(e.Error, stun.ErrTransactionStopped):
		return "stopped"
	case errors.Is(e.Error, stun.ErrTransactionExists):
		return "exists"
	case errors.As(e.Error, &se):
		return "stop-err"
	case errors.Is(e.Error, errScriptedWrite):
		return "write-err"
	}
	return fmt.Sprintf("other:%v", e.Error)
}

func (x *clientExec) handler(name string) stun.Handler {
	return func(e stun.Event) {
		x.mu.Lock()
		x.cbs = append(x.cbs, name+":"+showHex(e.TransactionID[:])+":"+cevKind(e))
		x.mu.Unlock()
		if atomic.LoadInt32(&x.slowCb) != 0 {
			time.Sleep(500 * time.Microsecond)
		}
	}
}

func clientErr(err error) string {
	var se stun.StopErr
	var ce stun.CloseErr
	switch {
	case err == nil:
		return "ok"
	case errors.Is(err, stun.ErrClientClosed):
		return "client-closed"
	case errors.Is(err, stun.ErrTransactionExists):
		return "exists"
	case errors.Is(err, stun.ErrAgentClosed):
		return "agent-closed"
	case errors.As(err, &se):
		return "stop-err"
	case errors.Is(err, errScriptedWrite):
		return "write-err"
	case errors.As(err, &ce):
		if ce.AgentErr == nil && ce.ConnectionErr == nil {
			return "close-err-without-a-cause"
		}
		return "close-err"
	}
	return "other:" + err.Error()
}

// what happened on the connection and in the handlers since the last call
func (x *clientExec) outs() string {
	x.conn.mu.Lock()
	ws := make([]string, len(x.conn.writes))
	for i, w := range x.conn.writes {
		ws[i] = showHex(w)
	}
	x.conn.writes = nil
	cc := x.conn.closeCount
	x.conn.closeCount = 0
	x.conn.mu.Unlock()
	x.mu.Lock()
	cs := append([]string{}, x.cbs...)
	x.cbs = nil
	x.mu.Unlock()
	j := func(l []string) string {
		if len(l) == 0 {
			return "-"
		}
		sort.Strings(l)
		return strings.Join(l, ",")
	}
	return fmt.Sprintf("wr=%s cb=%s connclose=%d", j(ws), j(cs), cc)
}

func (x *clientExec) waitReader() bool {
	select {
	case <-x.conn.readEntered:
		return true
	case <-time.After(10 * time.Second):
		return false
	}
}

func (e *executor) clientOp(t []string) (string, bool) {
	if t[0] != "CL" || len(t) < 2 {
		return "", false
	}
	x := e.cl
	if t[1] == "realclose" && len(t) == 5 {
		return realCloseOp(atoi(t[2]), atoi(t[3]), t[4] == "1"), true
	}
	if t[1] == "realclock" && len(t) == 4 {
		return realClockOp(atoi(t[2]), atoi(t[3])), true
	}
	switch {
	case t[1] == "new" && len(t) == 8:
		if x != nil {
			x.drain()
		}
		if x != nil && !x.closed { // leave no goroutines behind
			x.conn.Close()
			x.c.Close() //nolint:errcheck
		}
		// every scenario starts with pools no earlier scenario has touched (a double Put would otherwise leak
		// into every later client of this process)
		stun.VerifResetClientPools()
		x = &clientExec{clock: &virtualClock{}, coll: &manualCollector{}, noClose: t[4] == "1"}
		x.conn = &clConn{inbox: make(chan []byte), readEntered: make(chan struct{}), kick: make(chan struct{}),
			closed: make(chan struct{}), closeErr: t[7] == "1", closeErrWrapsNetClosed: atoi(t[2])%2 == 1,
			blockedCh: make(chan struct{}), releaseCh: make(chan bool)}
		// the scripted agent and the scripted connection share the "blocked"/"release" channels: at most one
		// call is suspended at a time
		x.ag = &errCloseAgent{Agent: stun.NewAgent(nil), fail: t[6] == "1", blockedCh: x.conn.blockedCh, releaseCh: x.conn.releaseCh}
		opts := []stun.ClientOption{stun.WithClock(x.clock), stun.WithCollector(x.coll),
			stun.WithRTO(time.Duration(atoi(t[2]))), stun.WithAgent(x.ag)}
		att := atoi(t[3])
		if att == 0 {
			opts = append(opts, stun.WithNoRetransmit)
		}
		if x.noClose {
			opts = append(opts, stun.WithNoConnClose())
		}
		if t[5] == "1" {
			opts = append(opts, stun.WithHandler(x.handler("fb")))
		}
		c, err := stun.NewClient(x.conn, opts...)
		if err != nil {
			return "err", true
		}
		if att != 0 && att != 7 {
			setMaxAttempts(c, int32(att))
		}
		x.c = c
		e.cl = x
		if !x.waitReader() {
			return "reader-stuck", true
		}
		return "ok", true
	case x == nil:
		return "bad-op", true
	case t[1] == "start" && len(t) == 5:
		m := &stun.Message{Raw: unhex(t[3])}
		copy(m.TransactionID[:], unhex(t[2]))
		var h stun.Handler
		if t[4] != "-" {
			h = x.handler("h" + t[4])
		}
		err := x.c.Start(m, h)
		for i := range m.Raw { // the caller reuses its message afterwards
			m.Raw[i] = 0xEE
		}
		m.TransactionID = [stun.TransactionIDSize]byte{}
		return "ret=" + clientErr(err) + " " + x.outs(), true
	case t[1] == "deliver" && len(t) == 3:
		if x.closed {
			return x.outs(), true
		}
		select {
		case x.conn.inbox <- unhex(t[2]):
		case <-time.After(10 * time.Second):
			return "reader-stuck", true
		}
		if !x.waitReader() {
			return "reader-stuck", true
		}
		return x.outs(), true
	case t[1] == "tick" && len(t) == 3:
		x.clock.set(int64(atoi(t[2])))
		x.coll.f(time.Unix(0, int64(atoi(t[2]))))
		return x.outs(), true
	case t[1] == "ticks2" && len(t) == 4:
		// two collector calls at once (a custom Collector may tick from several goroutines; Agent.Collect is documented
		// as safe for that): together they report exactly what the two would report one after the other
		x.clock.set(int64(atoi(t[3])))
		atomic.StoreInt32(&x.slowCb, 1)
		var wg sync.WaitGroup
		for _, at := range []int{atoi(t[2]), atoi(t[3])} {
			at := at
			wg.Add(1)
			go func() { defer wg.Done(); x.coll.f(time.Unix(0, int64(at))) }()
		}
		fin := make(chan struct{})
		go func() { wg.Wait(); close(fin) }()
		select {
		case <-fin:
		case <-time.After(10 * time.Second):
			return "tick-hang", true
		}
		atomic.StoreInt32(&x.slowCb, 0)
		return x.outs(), true
	case t[1] == "blockwrite" && len(t) == 3:
		x.conn.mu.Lock()
		x.conn.blockIDs = append(x.conn.blockIDs, unhex(t[2]))
		x.conn.mu.Unlock()
		return "ok", true
	case t[1] == "blockagent" && len(t) == 3:
		x.ag.mu.Lock()
		x.ag.blockIDs = append(x.ag.blockIDs, unhex(t[2]))
		x.ag.mu.Unlock()
		return "ok", true
	case t[1] == "tick2" && len(t) == 3:
		// the collector fires on its own goroutine; its callback may come to rest inside Connection.Write
		if x.blocked > 0 {
			return "bad-op", true
		}
		x.clock.set(int64(atoi(t[2])))
		done := make(chan struct{})
		x.tickDone = done
		go func() { x.coll.f(time.Unix(0, int64(atoi(t[2])))); close(done) }()
		return x.awaitTick(), true
	case t[1] == "release" && len(t) == 3:
		if x.blocked == 0 {
			return x.outs() + " blocked=0", true
		}
		x.blocked--
		x.conn.releaseCh <- t[2] == "ok"
		if x.startRet != nil { // the suspended call is a Start
			var err error
			select {
			case err = <-x.startRet:
			case <-time.After(10 * time.Second):
				return "start-hang", true
			}
			x.startRet = nil
			return fmt.Sprintf("sret=%s %s blocked=%d", clientErr(err), x.outs(), x.blocked), true
		}
		return x.awaitTick(), true
	case t[1] == "startb" && len(t) == 5:
		// Start on its own goroutine; its first Write blocks until `release`
		if x.blocked > 0 {
			return "bad-op", true
		}
		m := &stun.Message{Raw: unhex(t[3])}
		copy(m.TransactionID[:], unhex(t[2]))
		x.conn.mu.Lock()
		x.conn.blockIDs = append(x.conn.blockIDs, unhex(t[2]))
		x.conn.mu.Unlock()
		ret := make(chan error, 1)
		h := x.handler("h" + t[4])
		go func() { ret <- x.c.Start(m, h) }()
		select {
		case err := <-ret: // Start returned without writing (closed client, duplicate id)
			x.conn.mu.Lock()
			x.conn.blockIDs = nil
			x.conn.mu.Unlock()
			return fmt.Sprintf("ret=%s %s blocked=%d", clientErr(err), x.outs(), x.blocked), true
		case <-x.conn.blockedCh:
			x.blocked++
			x.startRet = ret
			return fmt.Sprintf("ret=pending %s blocked=%d", x.outs(), x.blocked), true
		case <-time.After(10 * time.Second):
			return "start-hang", true
		}
	case t[1] == "clock" && len(t) == 3:
		x.clock.set(int64(atoi(t[2])))
		return "ok", true
	case t[1] == "failwrite" && len(t) == 3:
		x.conn.mu.Lock()
		x.conn.failIDs = append(x.conn.failIDs, unhex(t[2]))
		x.conn.mu.Unlock()
		return "ok", true
	case t[1] == "setrto" && len(t) == 3:
		x.c.SetRTO(time.Duration(atoi(t[2])))
		return "ok", true
	case t[1] == "close" && len(t) == 2:
		err, reader := x.closeOnce()
		return "ret=" + clientErr(err) + " " + x.outs() + " reader=" + reader, true
	case t[1] == "do" && len(t) == 6:
		return x.doOp(t, false), true
	case t[1] == "dofail" && len(t) == 6:
		return x.doOp(t, true), true
	case t[1] == "dolate" && len(t) == 6:
		return x.doLateOp(t), true
	case t[1] == "conc" && len(t) == 4:
		return x.concOp(atoi(t[2]), uint64(atoi(t[3]))), true
	}
	return "", false
}

// Close, observing whether the reader goroutine had left Read when Close returned.
// Under WithNoConnClose the caller owns the connection: its Read is released only a moment after Close was called,
// so a Close that returns earlier did not wait for the reader.
func (x *clientExec) closeOnce() (error, string) {
	done := make(chan error, 1)
	go func() { done <- x.c.Close() }()
	var err error
	reader := ""
	if x.noClose && !x.closed {
		select {
		case err = <-done:
			if atomic.LoadInt32(&x.conn.inRead) > 0 {
				reader = "running"
			}
			done <- err
		case <-time.After(3 * time.Millisecond):
		}
	}
	deadline := time.After(10 * time.Second)
loop:
	for {
		select {
		case err = <-done:
			break loop
		case <-deadline:
			return errors.New("close-hang"), "hang"
		case x.conn.kick <- struct{}{}: // WithNoConnClose: the connection's Read eventually returns
		case <-x.conn.readEntered:
		case <-time.After(time.Millisecond):
		}
	}
	if reader == "" {
		if atomic.LoadInt32(&x.conn.inRead) > 0 {
			reader = "running"
		} else {
			reader = "exited"
		}
	}
	if reader == "running" { // let the stray reader go
		for i := 0; i < 200 && atomic.LoadInt32(&x.conn.inRead) > 0; i++ {
			select {
			case x.conn.kick <- struct{}{}:
			case <-x.conn.readEntered:
			case <-time.After(time.Millisecond):
			}
		}
	}
	if err == nil || !errors.Is(err, stun.ErrClientClosed) {
		x.closed = true
	}
	return err, reader
}

// CL do <id> <raw> <resp> <h>: Client.Do; the response reaches the reader while Start is still inside Write, so that
// the event is handled before Do starts waiting; the callback takes a moment. Do must not return before it finished.
func (x *clientExec) doOp(t []string, fail bool) string {
	m := &stun.Message{Raw: unhex(t[3])}
	copy(m.TransactionID[:], unhex(t[2]))
	started, release := make(chan struct{}), make(chan struct{})
	var once sync.Once
	var finished int32
	rec := x.handler("h" + t[5])
	f := func(e stun.Event) {
		rec(e)
		once.Do(func() { close(started) })
		select {
		case <-release:
		case <-time.After(10 * time.Millisecond):
		}
		atomic.StoreInt32(&finished, 1)
	}
	if !x.closed {
		x.conn.mu.Lock()
		x.conn.doID, x.conn.doResp, x.conn.doStarted = unhex(t[2]), unhex(t[4]), started
		x.conn.doFail = fail
		x.conn.mu.Unlock()
	}
	done := make(chan error, 1)
	go func() { done <- x.c.Do(m, f) }()
	var err error
	select {
	case err = <-done:
	case <-time.After(10 * time.Second):
		return "do-hang"
	}
	fin := atomic.LoadInt32(&finished)
	close(release)
	x.conn.mu.Lock()
	delivered := !x.closed && x.conn.doResp == nil
	x.conn.doResp = nil
	x.conn.mu.Unlock()
	how := "none"
	if delivered {
		if !x.waitReader() {
			return "reader-stuck"
		}
		how = "after-callback"
		if fin == 0 {
			how = "before-callback"
		}
		if fail {
			how = "failed"
		}
	}
	x.conn.mu.Lock()
	x.conn.doFail = false
	x.conn.mu.Unlock()
	return "ret=" + clientErr(err) + " " + x.outs() + " do=" + how
}

// CL dolate <id> <raw> <resp> <h>: Client.Do whose response arrives only after Do has started waiting. Do must still be
// waiting when the response is handed to the reader, and must return only after its callback has finished. (A wait
// handler that an earlier, failed Do left "already processed" in the pool would let this Do return at once.)
func (x *clientExec) doLateOp(t []string) string {
	if x.closed {
		return x.doOp(t, false)
	}
	m := &stun.Message{Raw: unhex(t[3])}
	copy(m.TransactionID[:], unhex(t[2]))
	var finished int32
	rec := x.handler("h" + t[5])
	f := func(e stun.Event) {
		rec(e)
		time.Sleep(5 * time.Millisecond)
		atomic.StoreInt32(&finished, 1)
	}
	done := make(chan error, 1)
	go func() { done <- x.c.Do(m, f) }()
	how := "after-callback"
	var err error
	// the request on the wire means the transaction is registered: only then does the clock of this op start
	for start := time.Now(); time.Since(start) < 10*time.Second; time.Sleep(50 * time.Microsecond) {
		x.conn.mu.Lock()
		seen := false
		for _, w := range x.conn.writes {
			if len(w) >= 20 && bytes.Equal(w[8:20], m.TransactionID[:]) {
				seen = true
			}
		}
		x.conn.mu.Unlock()
		if seen || len(done) > 0 {
			break
		}
	}
	select {
	case err = <-done:
		if err != nil { // Start failed (duplicate id, scripted write failure): nothing to wait for
			return "ret=" + clientErr(err) + " " + x.outs() + " do=none"
		}
		how = "returned-before-its-response-arrived"
	case <-time.After(8 * time.Millisecond):
	}
	select {
	case x.conn.inbox <- unhex(t[4]):
	case <-time.After(10 * time.Second):
		return "reader-stuck"
	}
	if !x.waitReader() {
		return "reader-stuck"
	}
	if how == "after-callback" {
		select {
		case err = <-done:
		case <-time.After(10 * time.Second):
			return "do-hang"
		}
		if atomic.LoadInt32(&finished) == 0 {
			how = "before-callback"
		}
	}
	return "ret=" + clientErr(err) + " " + x.outs() + " do=" + how
}

// CL conc <k> <seed>: k goroutines race Close (at least two of them) with Start, Indicate and SetRTO.
func (x *clientExec) concOp(k int, seed uint64) string {
	r := &rng{s: seed | 1}
	atomic.StoreInt32(&x.coll.slow, 1)
	var wg sync.WaitGroup
	var okCloses, closedCloses, other int32
	begin := make(chan struct{})
	stop := make(chan struct{})
	if !x.closed { // keep the reader's Read returning, as the precondition of WithNoConnClose demands
		go func() {
			for {
				select {
				case <-stop:
					return
				case x.conn.kick <- struct{}{}:
				case <-x.conn.readEntered:
				}
			}
		}()
	}
	for i := 0; i < k; i++ {
		kind := 0
		if i >= 2 {
			kind = r.intn(5)
		}
		id := r.bytes(12)
		hn := 900000 + i
		wg.Add(1)
		go func() {
			defer wg.Done()
			<-begin
			switch kind {
			case 0, 1:
				err := x.c.Close()
				switch {
				case errors.Is(err, stun.ErrClientClosed):
					atomic.AddInt32(&closedCloses, 1)
				case err == nil || clientErr(err) == "close-err":
					atomic.AddInt32(&okCloses, 1)
				default:
					atomic.AddInt32(&other, 1)
				}
			case 2:
				m := &stun.Message{Raw: reqFor(id, 28, 3)}
				copy(m.TransactionID[:], id)
				x.c.Start(m, x.handler(fmt.Sprintf("h%d", hn))) //nolint:errcheck
			case 3:
				m := &stun.Message{Raw: reqFor(id, 20, 0)}
				copy(m.TransactionID[:], id)
				x.c.Indicate(m) //nolint:errcheck
			default:
				x.c.SetRTO(time.Duration(100 + hn))
			}
		}()
	}
	close(begin)
	fin := make(chan struct{})
	go func() { wg.Wait(); close(fin) }()
	select {
	case <-fin:
	case <-time.After(20 * time.Second):
		return "conc-hang"
	}
	close(stop)
	atomic.StoreInt32(&x.coll.slow, 0)
	reader := "exited"
	if atomic.LoadInt32(&x.conn.inRead) > 0 && !x.closed {
		reader = "running"
	}
	x.closed = true
	x.conn.mu.Lock()
	cc := x.conn.closeCount
	x.conn.closeCount = 0
	x.conn.writes = nil
	x.conn.mu.Unlock()
	// handlers registered before the race must have been completed by Close; the racing Starts' own handlers
	// (h900000…) may or may not have been registered in time and are left out
	x.mu.Lock()
	var cs []string
	for _, c := range x.cbs {
		if !strings.HasPrefix(c, "h9000") {
			cs = append(cs, c)
		}
	}
	x.cbs = nil
	x.mu.Unlock()
	sort.Strings(cs)
	cbs := "-"
	if len(cs) > 0 {
		cbs = strings.Join(cs, ",")
	}
	s := fmt.Sprintf("closes=%d connclose=%d reader=%s cb=%s", okCloses, cc, reader, cbs)
	if other != 0 {
		s += fmt.Sprintf(" unexpected-close-results=%d", other)
	}
	return s
}

// waits until the collector call has returned or is suspended in a blocked Write
func (x *clientExec) awaitTick() string {
	select {
	case <-x.tickDone:
	case <-x.conn.blockedCh:
		x.blocked++
	case <-time.After(10 * time.Second):
		return "tick-hang"
	}
	if x.blocked == 0 { // the script of blocking calls applies to this collector call only
		x.conn.mu.Lock()
		x.conn.blockIDs = nil
		x.conn.mu.Unlock()
		x.ag.mu.Lock()
		x.ag.blockIDs = nil
		x.ag.mu.Unlock()
	}
	return fmt.Sprintf("%s blocked=%d", x.outs(), x.blocked)
}

// lets every suspended Write fail so that no goroutine of an abandoned client stays behind
func (x *clientExec) drain() {
	for x.blocked > 0 {
		x.blocked--
		x.conn.releaseCh <- false
		if x.startRet != nil {
			<-x.startRet
			x.startRet = nil
			continue
		}
		select {
		case <-x.tickDone:
		case <-x.conn.blockedCh:
			x.blocked++
		case <-time.After(10 * time.Second):
			return
		}
	}
}

// a connection for the real-time scenario: writes succeed, Read blocks until Close (or until released)
type quietConn struct {
	closed chan struct{}
	once   sync.Once
	writes int32
}

func (c *quietConn) Read([]byte) (int, error) { <-c.closed; return 0, io.ErrClosedPipe }
func (c *quietConn) Write(b []byte) (int, error) {
	atomic.AddInt32(&c.writes, 1)
	return len(b), nil
}
func (c *quietConn) Close() error { c.once.Do(func() { close(c.closed) }); return nil }

// CL realclose <n> <rto-us> <noclose>: a client with the DEFAULT ticker collector, real clock and real agent;
// n transactions that nobody answers keep timing out and being retransmitted (the collector goroutine is almost
// always inside handleAgentCallback); then Close. Close must return, and when it has returned every handler has
// been invoked exactly once (time-out, or ErrAgentClosed from Close).
func realCloseOp(n, rtoUs int, noClose bool) string {
	stun.VerifResetClientPools()
	conn := &quietConn{closed: make(chan struct{})}
	opts := []stun.ClientOption{stun.WithRTO(time.Duration(rtoUs) * time.Microsecond),
		stun.WithTimeoutRate(50 * time.Microsecond)}
	if noClose {
		opts = append(opts, stun.WithNoConnClose())
	}
	c, err := stun.NewClient(conn, opts...)
	if err != nil {
		return "err"
	}
	counts := make([]int32, n)
	for i := 0; i < n; i++ {
		i := i
		m := &stun.Message{Raw: reqFor([]byte{9, 9, 9, 9, 9, 9, 9, 9, 9, 9, byte(i >> 8), byte(i)}, 28, 1)}
		copy(m.TransactionID[:], []byte{9, 9, 9, 9, 9, 9, 9, 9, 9, 9, byte(i >> 8), byte(i)})
		if err := c.Start(m, func(stun.Event) { atomic.AddInt32(&counts[i], 1) }); err != nil {
			return "start-err:" + err.Error()
		}
	}
	time.Sleep(time.Duration(2+n/20) * time.Millisecond) // several time-outs and retransmissions per transaction
	done := make(chan error, 1)
	go func() { done <- c.Close() }()
	if noClose { // the caller owns the connection: its Read returns a moment later
		time.Sleep(time.Millisecond)
		conn.Close()
	}
	select {
	case err = <-done:
	case <-time.After(10 * time.Second):
		return "close-hang"
	}
	once := 0
	for i := range counts {
		if atomic.LoadInt32(&counts[i]) == 1 {
			once++
		}
	}
	return fmt.Sprintf("ret=%s invoked-once=%d/%d", clientErr(err), once, n)
}

// a clock of the client's own: wall time shifted by `off`, or standing still
type shiftedClock struct {
	off    time.Duration
	frozen bool
	at     time.Time
}

func (c *shiftedClock) Now() time.Time {
	if c.frozen {
		return c.at
	}
	return time.Now().Add(c.off)
}

// CL realclock <n> <mode>: the DEFAULT ticker collector with a clock given by WithClock. All deadlines are counted on
// the client's clock, so the collector has to ask that clock, too.
// mode 0: the clock stands still two days ago, RTO 1 h: nothing may time out - n writes, no handler before Close.
// mode 1: the clock runs two days ahead of wall time, RTO 200 us, no retransmission: every handler gets its time-out
// before Close.
func realClockOp(n, mode int) string {
	stun.VerifResetClientPools()
	conn := &quietConn{closed: make(chan struct{})}
	clk := &shiftedClock{off: 48 * time.Hour}
	rto := 200 * time.Microsecond
	opts := []stun.ClientOption{stun.WithTimeoutRate(100 * time.Microsecond)}
	if mode == 0 {
		clk = &shiftedClock{frozen: true, at: time.Now().Add(-48 * time.Hour)}
		rto = time.Hour
	} else {
		opts = append(opts, stun.WithNoRetransmit)
	}
	opts = append(opts, stun.WithClock(clk), stun.WithRTO(rto))
	c, err := stun.NewClient(conn, opts...)
	if err != nil {
		return "err"
	}
	counts := make([]int32, n)
	for i := 0; i < n; i++ {
		i := i
		m := &stun.Message{Raw: reqFor([]byte{8, 8, 8, 8, 8, 8, 8, 8, 8, 8, byte(i >> 8), byte(i)}, 28, 1)}
		copy(m.TransactionID[:], []byte{8, 8, 8, 8, 8, 8, 8, 8, 8, 8, byte(i >> 8), byte(i)})
		if err := c.Start(m, func(stun.Event) { atomic.AddInt32(&counts[i], 1) }); err != nil {
			return "start-err:" + err.Error()
		}
	}
	deadline := time.Now().Add(2 * time.Second)
	before := 0
	for { // mode 1 waits until everybody has been told (at most 2 s); mode 0 just watches for 30 ms
		before = 0
		for i := range counts {
			if atomic.LoadInt32(&counts[i]) > 0 {
				before++
			}
		}
		if mode == 1 && (before == n || time.Now().After(deadline)) {
			break
		}
		if mode == 0 && time.Now().After(deadline.Add(-2*time.Second+30*time.Millisecond)) {
			break
		}
		time.Sleep(time.Millisecond)
	}
	writes := atomic.LoadInt32(&conn.writes)
	done := make(chan error, 1)
	go func() { done <- c.Close() }()
	select {
	case err = <-done:
	case <-time.After(10 * time.Second):
		return "close-hang"
	}
	once := 0
	for i := range counts {
		if atomic.LoadInt32(&counts[i]) == 1 {
			once++
		}
	}
	return fmt.Sprintf("ret=%s writes=%d completed-before-close=%d invoked-once=%d/%d", clientErr(err), writes, before, once, n)
}
