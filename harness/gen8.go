package main

import "fmt"

func (g *gen) stream8(name string, n int) bool {
	switch name {
	case "client-hist":
		g.clientHist(n)
	default:
		return g.stream9(name, n)
	}
	return true
}

func reqFor(id []byte, size int, fill byte) []byte {
	var as []wattr
	if size > 20 {
		l := size - 24
		if l < 0 {
			l = 0
		}
		v := make([]byte, l)
		for i := range v {
			v[i] = fill + byte(i)
		}
		as = []wattr{{typ: 0x8022, val: v, pad: make([]byte, pad4(l))}}
	}
	// the client writes whatever message it is given: requests mostly, but the type must not matter
	return wire([]uint16{0x0001, 0x0001, 0x0003, 0x0011, 0x0101, 0x0004}[int(fill)%6], id, as)
}

// a datagram carrying this transaction id: success and error responses, but also indications and requests — the
// client matches on the transaction id alone
func respFor(id []byte, n int) []byte {
	v := []byte{0, 1, 0x12, 0x34, 127, 0, 0, byte(n)}
	typ := []uint16{0x0101, 0x0111, 0x0011, 0x0001, 0x0101, 0x0113, 0x0104}[n%7]
	return wire(typ, id, []wattr{{typ: 0x0020, val: v}})
}

// n = exhaustive depth
func (g *gen) clientHist(depth int) {
	// two overlapping collector calls, each with several expired transactions (no retransmission: every expiry is a
	// final time-out, so the order of the two calls does not matter)
	for i := 0; i < 6; i++ {
		g.caseMark("client-ticks2", i)
		g.emit("CL new 100 0 %d 1 0 0", i%2)
		hn := 1
		for _, at := range []int{0, 50} {
			g.emit("CL clock %d", at)
			for k := 0; k < 2+i%3; k++ {
				id := g.r.bytes(12)
				g.emit("CL start %s %s %d", showHex(id), showHex(reqFor(id, 28, 1)), hn)
				hn++
			}
		}
		g.emit("CL ticks2 101 151")
		g.emit("CL tick 100000")
		g.emit("CL close")
	}
	// the default collector with a clock of the client's own (standing still in the past / running ahead)
	for i, n := range []int{1, 5} {
		for mode := 0; mode < 2; mode++ {
			g.caseMark("client-clock", 2*i+mode)
			g.emit("CL realclock %d %d", n, mode)
		}
	}
	ids := [][]byte{
		{1, 2, 3, 4, 5, 6, 7, 8, 9, 10, 11, 12},
		{1, 2, 3, 4, 5, 6, 7, 8, 9, 10, 11, 13}, // differs in one bit
	}
	cnt := 0
	type cfg struct{ att, noclose, fb int }
	for _, c := range []cfg{{2, 0, 1}, {0, 1, 0}, {1, 0, 0}} {
		var al []func(now *int, hn *int)
		for _, id := range ids {
			id := id
			al = append(al,
				func(now, hn *int) { g.emit("CL start %s %s %d", showHex(id), showHex(reqFor(id, 28, 1)), *hn); *hn++ },
				func(now, hn *int) { g.emit("CL deliver %s", showHex(respFor(id, 1))) },
			)
		}
		al = append(al,
			// a header-only response right after one with attributes: the reader's Message object is reused
			func(now, hn *int) { g.emit("CL deliver %s", showHex(wire(0x0101, ids[0], nil))) },
			func(now, hn *int) { g.emit("CL failwrite %s", showHex(ids[0])) },
			func(now, hn *int) { g.emit("CL deliver %s", showHex([]byte{0, 1, 2, 3, 4, 5})) },
			func(now, hn *int) { *now += 100; g.emit("CL tick %d", *now) },
			func(now, hn *int) { *now += 101; g.emit("CL tick %d", *now) },
			func(now, hn *int) { g.emit("CL start %s %s -", showHex(ids[1]), showHex(reqFor(ids[1], 20, 0))) },
			func(now, hn *int) { g.emit("CL close") },
		)
		seq := make([]int, depth)
		var rec func(k int)
		rec = func(k int) {
			if k == depth {
				g.caseMark("client-exh", cnt)
				cnt++
				g.emit("CL new 100 %d %d %d 0 0", c.att, c.noclose, c.fb)
				now, hn := 0, 1
				for _, i := range seq {
					al[i](&now, &hn)
				}
				g.emit("CL close")
				return
			}
			for i := range al {
				seq[k] = i
				rec(k + 1)
			}
		}
		rec(0)
	}
	// L2: the first retransmission's Write blocks; meanwhile up to two other events; then the Write returns
	for _, c := range []cfg{{2, 0, 1}, {3, 1, 0}, {1, 0, 0}} {
		mid := []func(hn *int){
			func(hn *int) { g.emit("CL deliver %s", showHex(respFor(ids[0], 1))) },
			func(hn *int) { g.emit("CL deliver %s", showHex([]byte{0, 1, 2, 3, 4, 5})) },
			func(hn *int) { g.emit("CL start %s %s %d", showHex(ids[1]), showHex(reqFor(ids[1], 28, 1)), *hn); *hn++ },
			func(hn *int) { g.emit("CL deliver %s", showHex(respFor(ids[1], 1))) },
			func(hn *int) { g.emit("CL failwrite %s", showHex(ids[1])) },
		}
		var seqs [][]int
		seqs = append(seqs, nil)
		for a := range mid {
			seqs = append(seqs, []int{a})
			for b := range mid {
				seqs = append(seqs, []int{a, b})
			}
		}
		for _, sq := range seqs {
			for _, rel := range []string{"ok", "fail", "a-ok", "a-fail"} {
				g.caseMark("client-l2", cnt)
				cnt++
				g.emit("CL new 100 %d %d %d 0 0", c.att, c.noclose, c.fb)
				hn := 2
				g.emit("CL start %s %s 1", showHex(ids[0]), showHex(reqFor(ids[0], 28, 1)))
				if rel[0] == 'a' { // the collector comes to rest inside ClientAgent.Start instead of Connection.Write
					g.emit("CL blockagent %s", showHex(ids[0]))
					rel = rel[2:]
				} else {
					g.emit("CL blockwrite %s", showHex(ids[0]))
				}
				g.emit("CL tick2 101")
				for _, i := range sq {
					mid[i](&hn)
				}
				g.emit("CL release %s", rel)
				g.emit("CL start %s %s %d", showHex(ids[0]), showHex(reqFor(ids[0], 24, 2)), hn)
				g.emit("CL start %s %s %d", showHex(ids[1]), showHex(reqFor(ids[1], 24, 3)), hn+1)
				g.emit("CL deliver %s", showHex(respFor(ids[1], 3)))
				g.emit("CL deliver %s", showHex(respFor(ids[0], 2)))
				g.emit("CL tick 100000")
				g.emit("CL close")
			}
		}
	}
	// L2: Start's own first Write blocks; meanwhile up to two other events; then the Write returns
	for _, c := range []cfg{{2, 0, 1}, {0, 1, 0}} {
		mid := []func(hn *int){
			func(hn *int) { g.emit("CL deliver %s", showHex(respFor(ids[0], 1))) },
			func(hn *int) { g.emit("CL deliver %s", showHex([]byte{0, 1, 2, 3, 4, 5})) },
			func(hn *int) { g.emit("CL start %s %s %d", showHex(ids[1]), showHex(reqFor(ids[1], 28, 1)), *hn); *hn++ },
			func(hn *int) { g.emit("CL deliver %s", showHex(respFor(ids[1], 1))) },
			func(hn *int) { g.emit("CL tick 101") },
		}
		var seqs [][]int
		seqs = append(seqs, nil)
		for a := range mid {
			seqs = append(seqs, []int{a})
			for b := range mid {
				seqs = append(seqs, []int{a, b})
			}
		}
		for _, sq := range seqs {
			for _, rel := range []string{"ok", "fail"} {
				g.caseMark("client-l2s", cnt)
				cnt++
				g.emit("CL new 100 %d %d %d 0 0", c.att, c.noclose, c.fb)
				hn := 2
				g.emit("CL startb %s %s 1", showHex(ids[0]), showHex(reqFor(ids[0], 28, 1)))
				for _, i := range sq {
					mid[i](&hn)
				}
				g.emit("CL release %s", rel)
				g.emit("CL deliver %s", showHex(respFor(ids[0], 2)))
				g.emit("CL tick 100000")
				g.emit("CL close")
			}
		}
	}
	// long random histories: many ids, message sizes up to 65535, RTO changes, attempt limits 0..8, close errors
	nrand := 150
	if g.tier == "thorough" {
		nrand = 4000
	}
	for i := 0; i < nrand; i++ {
		g.caseMark("client-rand", i)
		att := g.r.intn(9)
		rto := 50 + g.r.intn(200)
		g.emit("CL new %d %d %d %d %d %d", rto, att, g.r.intn(2), g.r.intn(2), b2i(g.r.chance(1, 8)), b2i(g.r.chance(1, 8)))
		nid := 1 + g.r.intn(12)
		idl := make([][]byte, nid)
		for j := range idl {
			idl[j] = g.r.bytes(12)
			if j > 0 && g.r.chance(1, 3) {
				idl[j] = append([]byte{}, idl[j-1]...)
				idl[j][g.r.intn(12)] ^= 1 << uint(g.r.intn(8))
			}
		}
		now, hn := 0, 1
		for k := 5 + g.r.intn(120); k > 0; k-- {
			id := idl[g.r.intn(nid)]
			switch op := g.r.intn(20); {
			case op < 6:
				size := 20 + g.r.intn(200)
				switch g.r.intn(12) {
				case 0:
					size = 2040 + g.r.intn(20) // around the 2048-byte scratch buffer
				case 1:
					size = 3000 + g.r.intn(100)
				case 2:
					size = 65535
				}
				if g.r.chance(1, 8) {
					g.emit("CL start %s %s -", showHex(id), showHex(reqFor(id, size, byte(k))))
				} else {
					g.emit("CL start %s %s %d", showHex(id), showHex(reqFor(id, size, byte(k))), hn)
					hn++
				}
			case op < 10:
				d := respFor(id, k)
				if g.r.chance(1, 10) { // longer than the reader's 1024-byte buffer
					d = reqFor(id, 1000+g.r.intn(100), 7)
				}
				if g.r.chance(1, 5) { // header only (the reader reuses one Message for every datagram)
					d = wire(0x0101, id, nil)
				}
				if g.r.chance(1, 12) { // Do: the response arrives while the request is being written
					if len(d) > 900 {
						d = respFor(id, k)
					}
					switch g.r.intn(4) {
					case 2: // the response arrives after Do has started waiting (an id of its own: nothing scripted applies)
						fid := g.r.bytes(12)
						g.emit("CL dolate %s %s %s %d", showHex(fid), showHex(reqFor(fid, 20+g.r.intn(100), byte(k))), showHex(respFor(fid, k)), hn)
					case 3: // F12 through Do (response handled inside the first Write, which then fails), then an ordinary Do:
						// nothing of the failed one may be left in the pool of wait handlers
						fid, fid2 := g.r.bytes(12), g.r.bytes(12)
						g.emit("CL dofail %s %s %s %d", showHex(fid), showHex(reqFor(fid, 20+g.r.intn(100), byte(k))), showHex(respFor(fid, k)), hn)
						hn++
						g.emit("CL dolate %s %s %s %d", showHex(fid2), showHex(reqFor(fid2, 20+g.r.intn(100), byte(k))), showHex(respFor(fid2, k)), hn)
					default:
						g.emit("CL do %s %s %s %d", showHex(id), showHex(reqFor(id, 20+g.r.intn(100), byte(k))), showHex(d), hn)
					}
					hn++
					break
				}
				g.emit("CL deliver %s", showHex(d))
			case op == 10:
				g.emit("CL deliver %s", showHex(g.r.bytes(g.r.intn(40))))
			case op == 11:
				g.emit("CL deliver %s", showHex(respFor(g.r.bytes(12), 1))) // unknown id
			case op < 17:
				now += []int{1, rto - 1, rto, rto + 1, 2 * rto, 10 * rto}[g.r.intn(6)]
				g.emit("CL tick %d", now)
			case op == 17 && g.r.chance(1, 2):
				// L2: a retransmission's Write blocks while other things happen. Only that transaction is due at the
				// blocking tick (Collect walks a Go map: with several due the order would be arbitrary): everything
				// due is handled first, then a fresh transaction with a 1 ns RTO is started
				now += 12
				g.emit("CL tick %d", now) // everything else now has a deadline >= now
				id = g.r.bytes(12)
				g.emit("CL clock %d", now-10) // the fresh transaction's deadline is now-9
				g.emit("CL setrto 1")
				g.emit("CL start %s %s %d", showHex(id), showHex(reqFor(id, 20+g.r.intn(40), byte(k))), hn)
				hn++
				g.emit("CL setrto %d", rto)
				if g.r.chance(1, 2) {
					g.emit("CL blockwrite %s", showHex(id))
				} else {
					g.emit("CL blockagent %s", showHex(id))
				}
				g.emit("CL tick2 %d", now-8)
				for j := g.r.intn(3); j > 0; j-- {
					switch g.r.intn(4) {
					case 0:
						g.emit("CL deliver %s", showHex(respFor(id, k)))
					case 1:
						o := idl[g.r.intn(nid)]
						g.emit("CL deliver %s", showHex(respFor(o, k)))
					case 2:
						o := idl[g.r.intn(nid)]
						g.emit("CL start %s %s %d", showHex(o), showHex(reqFor(o, 20+g.r.intn(40), byte(k))), hn)
						hn++
					default:
						g.emit("CL clock %d", now-8+g.r.intn(8))
					}
				}
				g.emit("CL release %s", []string{"ok", "fail"}[g.r.intn(2)])
				g.emit("CL clock %d", now)
			case op == 17:
				g.emit("CL failwrite %s", showHex(id))
			case op == 18:
				rto = 20 + g.r.intn(300)
				g.emit("CL setrto %d", rto)
			default:
				if g.r.chance(1, 6) {
					g.emit("CL close")
				} else {
					now += g.r.intn(rto)
					g.emit("CL clock %d", now)
				}
			}
		}
		g.emit("CL tick %d", now+100000)
		g.emit("CL close")
		g.emit("CL close")
		g.emit("CL start %s %s %d", showHex(idl[0]), showHex(reqFor(idl[0], 24, 0)), hn)
	}
}

func b2i(b bool) int {
	if b {
		return 1
	}
	return 0
}

var _ = fmt.Sprint
