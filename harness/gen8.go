package main

func (g *gen) stream8(name string, n int) bool { return false }
