package main

import (
	"io"
	"crypto/ed25519"
	"crypto/rand"
	"crypto/tls"
	"crypto/x509"
	"crypto/x509/pkix"
	"math/big"
	"net"
	"time"

	"github.com/pion/stun/v3"
	"github.com/pion/transport/v3"
)

// a transport.Net whose Dial hands out one end of a pipe; the other end is a TLS server with a certificate that is
// valid for exactly one IP address
type pipeNet struct {
	transport.Net // nil
	server        net.Conn
}

func (n *pipeNet) Dial(_, _ string) (net.Conn, error) {
	c, s := net.Pipe()
	n.server = s
	return c, nil
}

// URI dialverify <scheme> <proto> <iphex> <port>: DialURI to an IP-literal host with certificate verification ON.
// The certificate names only that IP, so the handshake succeeds exactly if the client verifies against the URI's host
// ("TLS over TCP with the host as server name" - for IP literals nothing of it shows in the ClientHello).
func (e *executor) dialVerifyOp(t []string) (string, bool) {
	if t[0] != "URI" || len(t) != 6 || t[1] != "dialverify" {
		return "", false
	}
	host := string(unhex(t[4]))
	ip := net.ParseIP(host)
	if ip == nil {
		return "bad-op", true
	}
	pub, priv, err := ed25519.GenerateKey(rand.Reader)
	if err != nil {
		return "keygen-failed", true
	}
	tmpl := &x509.Certificate{SerialNumber: big.NewInt(1), Subject: pkix.Name{CommonName: "verif"},
		NotBefore: time.Now().Add(-time.Hour), NotAfter: time.Now().Add(time.Hour), IPAddresses: []net.IP{ip},
		KeyUsage: x509.KeyUsageDigitalSignature | x509.KeyUsageCertSign, IsCA: true, BasicConstraintsValid: true,
		ExtKeyUsage: []x509.ExtKeyUsage{x509.ExtKeyUsageServerAuth}}
	der, err := x509.CreateCertificate(rand.Reader, tmpl, tmpl, pub, priv)
	if err != nil {
		return "cert-failed", true
	}
	cert, _ := x509.ParseCertificate(der)
	pool := x509.NewCertPool()
	pool.AddCert(cert)
	nw := &pipeNet{}
	cfg := &stun.DialConfig{Net: nw}
	cfg.TLSConfig.RootCAs = pool
	cfg.TLSConfig.MinVersion = tls.VersionTLS12
	u := &stun.URI{Scheme: stun.SchemeType(atoi(t[2])), Proto: stun.ProtoType(atoi(t[3])), Host: host, Port: atoi(t[5])}
	c, err := stun.DialURI(u, cfg)
	if err != nil {
		return "plan=error", true
	}
	srvDone := make(chan error, 1)
	go func() {
		s := tls.Server(nw.server, &tls.Config{MinVersion: tls.VersionTLS12,
			Certificates: []tls.Certificate{{Certificate: [][]byte{der}, PrivateKey: priv}}})
		_ = s.SetDeadline(time.Now().Add(5 * time.Second))
		err := s.Handshake()
		srvDone <- err
		if err == nil { // the pipe is unbuffered: somebody has to read what the client then writes
			_, _ = io.Copy(io.Discard, s)
		}
	}()
	m := stun.MustBuild(stun.TransactionID, stun.BindingRequest)
	cliDone := make(chan error, 1)
	go func() { cliDone <- c.Indicate(m) }()
	res := "verified"
	select {
	case err := <-cliDone:
		if err != nil {
			res = "handshake-failed"
		}
	case <-time.After(6 * time.Second):
		res = "handshake-hang"
	}
	select {
	case <-srvDone:
	case <-time.After(6 * time.Second):
	}
	nw.server.Close() //nolint:errcheck
	c.Close()         //nolint:errcheck
	return "tls=" + res, true
}
