package main

import (
	"crypto/hmac"
	"crypto/md5"
	"crypto/sha1"
	"encoding/binary"
	"fmt"
	"hash/crc32"
)

func (g *gen) stream5(name string, n int) bool {
	switch name {
	case "integrity":
		g.integrity(n)
	case "fingerprint":
		g.fingerprint(n)
	default:
		return g.stream6(name, n)
	}
	return true
}

func setHdrLen(b []byte, n int) { binary.BigEndian.PutUint16(b[2:4], uint16(n)) }

// signed message built without the library: attributes before, MESSAGE-INTEGRITY (crypto/hmac), attributes after
func (g *gen) signedMsg(key []byte, nBefore, nAfter int) ([]byte, int) {
	before := make([]wattr, nBefore)
	for i := range before {
		l := g.r.intn(24)
		before[i] = wattr{typ: g.r.pick([]int{0x0006, 0x0014, 0x0015, 0x8022, 0x7777, 0x0020}), val: g.r.bytes(l), pad: make([]byte, pad4(l))}
	}
	tid := g.r.bytes(12)
	typ := uint16(g.r.intn(0x3FFF))
	pre := wire(typ, tid, before)
	setHdrLen(pre, len(pre)-20+24)
	mac := hmac.New(sha1.New, key)
	mac.Write(pre)
	tag := mac.Sum(nil)
	as := append(before, wattr{typ: 0x0008, val: tag})
	miOff := len(pre)
	for i := 0; i < nAfter; i++ {
		l := g.r.intn(12)
		as = append(as, wattr{typ: g.r.pick([]int{0x8022, 0x7777, 0x8028, 0x0008}), val: g.r.bytes(l), pad: g.r.bytes(pad4(l))})
	}
	return wire(typ, tid, as), miOff
}

func (g *gen) integrity(n int) {
	for i := 0; i < n; i++ {
		g.caseMark("integrity", i)
		key := g.r.bytes(g.keyLen())
		if i%7 == 3 { // long-term key: MD5(user:realm:pass), computed here with crypto/md5 and by both sides
			u, r, p := g.r.bytes(g.r.intn(12)), g.r.bytes(g.r.intn(12)), g.r.bytes(g.r.intn(12))
			// credentials are arbitrary strings: letters, digits, '%' and ':' and spaces, non-ASCII, now and then any bytes
			const credAlphabet = "abcXYZ019%%:@ ._-/\\+=#é漢"
			for _, x := range [][]byte{u, r, p} {
				if g.r.chance(1, 6) {
					continue // any bytes
				}
				for j := range x {
					x[j] = credAlphabet[int(x[j])%len(credAlphabet)]
				}
			}
			g.emit("LTKEY %s %s %s", showHex(u), showHex(r), showHex(p))
			h := md5.Sum([]byte(string(u) + ":" + string(r) + ":" + string(p)))
			key = h[:]
		}
		nb, na := g.r.intn(9), g.r.intn(5)
		b, miOff := g.signedMsg(key, nb, na)
		g.emit("RAWDEC 0 %d %d %s", []int{0, 1, 19, 20, 64}[g.r.intn(5)], g.r.intn(256), showHex(b))
		g.emit("CHECK 0 mi %s", showHex(key))
		g.emit("DUMP 0")
		// wrong keys
		wk := append([]byte{}, key...)
		if len(wk) > 0 {
			wk[g.r.intn(len(wk))] ^= 1 << uint(g.r.intn(8))
		} else {
			wk = []byte{0}
		}
		g.emit("CHECK 0 mi %s", showHex(wk))
		g.emit("CHECK 0 mi %s", showHex(append(key, 0)))
		// the library signs the same content: compare its MAC with the independent one
		if na == 0 {
			g.emit("NEW 1 %d %d", g.r.intn(400), g.r.intn(256))
			g.emit("RAWDEC 2 0 0 %s", showHex(b[:miOff]))
		}
		// corrupted copies: every bit of a short message, random bits of longer ones
		flips := 24
		exhaustive := len(b) <= 64 && i%4 == 0
		if exhaustive {
			flips = len(b) * 8
		}
		for f := 0; f < flips; f++ {
			bit := f
			if !exhaustive {
				bit = g.r.intn(len(b) * 8)
			}
			c := append([]byte{}, b...)
			c[bit/8] ^= 1 << uint(bit%8)
			if bit/8 < miOff+24 && bit/8 != 2 && bit/8 != 3 {
				g.emit("# expect-reject covered byte or MAC changed")
			} else {
				g.emit("# flip outside the covered span")
			}
			g.emit("RAWDEC 1 0 0 %s", showHex(c))
			g.emit("CHECK 1 mi %s", showHex(key))
		}
		// bytes after the declared end of the message (a datagram longer than its header says): they are not covered
		// and change nothing, under the right key and under a wrong one
		for _, k := range []int{1, 3, 4, 8, 1 + g.r.intn(20)} {
			g.emit("RAWDEC 1 %d 0 %s", g.r.intn(3), showHex(append(append([]byte{}, b...), g.r.bytes(k)...)))
			g.emit("CHECK 1 mi %s", showHex(key))
			g.emit("CHECK 1 mi %s", showHex(wk))
		}
		// wrong / short / long MAC values
		for _, l := range []int{0, 1, 19, 21, 24, 40} {
			c := append([]byte{}, b[:miOff]...)
			c = append(c, 0, 8, 0, byte(l))
			c = append(c, g.r.bytes(l+pad4(l))...)
			setHdrLen(c, len(c)-20)
			g.emit("RAWDEC 1 %d 0 %s", g.r.intn(3), showHex(c))
			g.emit("CHECK 1 mi %s", showHex(key))
			g.emit("DUMP 1")
		}
		// library signing on top of arbitrary content, then verification after re-decoding (and after extension)
		tot := 0
		g.emit("NEW 2 %d %d", g.r.intn(600), g.r.intn(256))
		g.emit("BUILD 2 type:%d:%d+tid:%s+%s", g.r.intn(4096), g.r.intn(4), showHex(g.r.bytes(12)), g.plainSetters(&tot, 4))
		g.emit("SET 2 mi:%s", showHex(key))
		for k := g.r.intn(3); k > 0; k-- {
			g.emit("ADD 2 %d %s", g.r.pick([]int{0x8022, 0x7777}), showHex(g.r.bytes(g.r.intn(10))))
		}
		if g.r.chance(1, 2) {
			g.emit("SET 2 fp")
			g.emit("SET 2 mi:%s", showHex(key)) // refused after FINGERPRINT
		}
		g.emit("CLONE 2 3")
		g.emit("CHECK 3 mi %s", showHex(key))
		g.emit("CHECK 3 mi %s", showHex(wk))
	}
}

// setters that add neither MESSAGE-INTEGRITY nor FINGERPRINT
func (g *gen) plainSetters(total *int, max int) string {
	s := ""
	for i := g.r.intn(max + 1); i > 0; i-- {
		t := g.setter(total)
		if t == "" || t == "fp" || len(t) > 2 && t[:3] == "mi:" {
			continue
		}
		if s != "" {
			s += "+"
		}
		s += t
	}
	if s == "" {
		return "raw:30583:-"
	}
	return s
}

func fpValue(b []byte) uint32 { return crc32.ChecksumIEEE(b) ^ 0x5354554e }

func (g *gen) fingerprint(n int) {
	for i := 0; i < n; i++ {
		g.caseMark("fingerprint", i)
		// the CRC itself against hash/crc32
		g.emit("FPVAL %s", showHex(g.r.bytes(g.r.intn(80))))
		if i == 0 {
			g.emit("FPVAL 313233343536373839")
		}
		// fingerprinted message built without the library (optionally after a MESSAGE-INTEGRITY attribute)
		nb := g.r.intn(5)
		as := make([]wattr, nb)
		for j := range as {
			l := g.r.intn(16)
			as[j] = wattr{typ: g.r.pick([]int{0x0006, 0x8022, 0x7777, 0x0008}), val: g.r.bytes(l), pad: make([]byte, pad4(l))}
		}
		tid := g.r.bytes(12)
		typ := uint16(g.r.intn(0x3FFF))
		pre := wire(typ, tid, as)
		setHdrLen(pre, len(pre)-20+8)
		v := make([]byte, 4)
		binary.BigEndian.PutUint32(v, fpValue(pre))
		b := wire(typ, tid, append(as, wattr{typ: 0x8028, val: v}))
		g.emit("RAWDEC 0 %d %d %s", g.r.intn(3), g.r.intn(256), showHex(b))
		g.emit("CHECK 0 fp")
		// every single bit (short messages), random single bits and bursts of <= 32 bits in CRC bit order otherwise
		nbits := len(b) * 8
		trials := 40
		exhaustive := len(b) <= 72 && i%3 == 0
		if exhaustive {
			trials = nbits
		}
		for f := 0; f < trials; f++ {
			c := append([]byte{}, b...)
			if exhaustive || f%2 == 0 {
				bit := f
				if !exhaustive {
					bit = g.r.intn(nbits)
				}
				c[bit/8] ^= 1 << uint(bit%8)
			} else {
				start := g.r.intn(nbits)
				w := 1 + g.r.intn(32)
				c[start/8] ^= 1 << uint(start%8) // first bit of the window always flipped
				for k := 1; k < w && start+k < nbits; k++ {
					if g.r.chance(1, 2) {
						c[(start+k)/8] ^= 1 << uint((start+k)%8)
					}
				}
			}
			g.emit("# expect-reject-fp corrupted fingerprinted message")
			g.emit("RAWDEC 1 0 0 %s", showHex(c))
			g.emit("CHECK 1 fp")
		}
		// bytes after the declared end of the message: the CRC covers everything before the last 8 bytes of the raw
		// message, whatever the header says
		for _, k := range []int{1, 2, 3, 4, 5, 8, 1 + g.r.intn(12)} {
			g.emit("RAWDEC 1 0 0 %s", showHex(append(append([]byte{}, b...), g.r.bytes(k)...)))
			g.emit("CHECK 1 fp")
		}
		for k := 1; k <= 4; k++ { // ... and a value that is right for exactly that coverage is accepted
			fpHdr := []byte{0x80, 0x28, 0x00, 0x04}
			w := make([]byte, 4)
			binary.BigEndian.PutUint32(w, fpValue(append(append([]byte{}, pre...), fpHdr[:k]...)))
			c := wire(typ, tid, append(as, wattr{typ: 0x8028, val: w}))
			g.emit("RAWDEC 1 0 0 %s", showHex(append(c, g.r.bytes(k)...)))
			g.emit("CHECK 1 fp")
		}
		// FINGERPRINT attributes of any length and position
		for _, l := range []int{0, 1, 3, 4, 5, 8} {
			c := wire(typ, tid, append([]wattr{{typ: 0x8028, val: g.r.bytes(l), pad: make([]byte, pad4(l))}}, as...))
			g.emit("RAWDEC 1 0 0 %s", showHex(c))
			g.emit("CHECK 1 fp")
		}
		// the FIRST FINGERPRINT decides, also after an attribute walk that was aborted by its callback (ForEach must
		// hand the attribute list back as it was): a bogus FINGERPRINT in front, the right one at the end
		{
			front := append([]wattr{{typ: 0x8028, val: g.r.bytes(4)}}, as...)
			pre2 := wire(typ, tid, front)
			setHdrLen(pre2, len(pre2)-20+8)
			v2 := make([]byte, 4)
			binary.BigEndian.PutUint32(v2, fpValue(pre2))
			c2 := wire(typ, tid, append(front, wattr{typ: 0x8028, val: v2}))
			g.emit("RAWDEC 1 0 0 %s", showHex(c2))
			g.emit("CHECK 1 fp")
			if nb > 0 {
				t := as[nb-1].typ
				cnt := 0
				for _, a := range as {
					if a.typ == t {
						cnt++
					}
				}
				g.emit("FOREACH 1 %d %d 0", t, cnt)
				g.emit("CHECK 1 fp")
			}
			g.emit("FOREACH 1 %d 2 0", 0x8028)
			g.emit("CHECK 1 fp")
		}
		// library: every body length 0, 4, 8, … gets fingerprinted over the run (a carry from the low into the high byte
		// of the header length happens at 248/252 mod 256), with and without MESSAGE-INTEGRITY in front
		// (over 400 cases the body lengths 0..4796 are all covered; then they repeat)
		for _, bodyLen := range []int{12 * (i % 400), 12*(i%400) + 4, 12*(i%400) + 8} {
			g.emit("NEW 2 %d %d", g.r.intn(3)*700, g.r.intn(256))
			sw := fmt.Sprintf("type:%d:%d+tid:%s", g.r.intn(4096), g.r.intn(4), showHex(g.r.bytes(12)))
			if bodyLen >= 4 {
				sw += fmt.Sprintf("+raw:%d:%s", 0x7777, showHex(g.r.bytes(bodyLen-4)))
			}
			g.emit("BUILD 2 %s", sw)
			if g.r.chance(1, 2) {
				g.emit("SET 2 mi:%s", showHex(g.r.bytes(g.r.intn(40))))
			}
			g.emit("SET 2 fp")
			g.emit("CHECK 2 fp")
		}
		// library: add FINGERPRINT on top of arbitrary content (with and without MESSAGE-INTEGRITY before)
		tot := 0
		g.emit("NEW 2 %d %d", g.r.intn(600), g.r.intn(256))
		g.emit("BUILD 2 type:%d:%d+tid:%s+%s", g.r.intn(4096), g.r.intn(4), showHex(g.r.bytes(12)), g.plainSetters(&tot, 4))
		if g.r.chance(1, 2) {
			g.emit("SET 2 mi:%s", showHex(g.r.bytes(g.r.intn(40))))
		}
		g.emit("SET 2 fp")
		g.emit("CHECK 2 fp")
		g.emit("CLONE 2 3")
		g.emit("CHECK 3 fp")
	}
}

var _ = fmt.Sprint
