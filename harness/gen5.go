package main

func (g *gen) stream5(name string, n int) bool { return false }
