package main

import (
	"bytes"
	"errors"
	"fmt"
	"runtime"
	"sort"
	"strconv"
	"strings"
	"sync"
	"time"

	"github.com/anishathalye/porcupine"
	"github.com/pion/stun/v3"
)

func goid() int64 {
	var buf [64]byte
	n := runtime.Stack(buf[:], false)
	f := bytes.Fields(buf[:n])
	id, _ := strconv.ParseInt(string(f[1]), 10, 64)
	return id
}

type agIn struct {
	kind string // start stop process collect close
	id   int
	t    int64
}
type agOutp struct {
	ret string
	evs string // sorted, comma separated "id:kind"
}

// sequential specification: a Go copy of the Lean `Agent.step` (itself compared with the Lean driver on the
// agent-seq stream); state is a canonical string "closed|id:deadline,..."
func agSpecStep(state string, in agIn) (string, agOutp) {
	closed := strings.HasPrefix(state, "1|")
	tbl := map[int]int64{}
	if rest := state[2:]; rest != "" {
		for _, e := range strings.Split(rest, ",") {
			p := strings.Split(e, ":")
			k, _ := strconv.Atoi(p[0])
			v, _ := strconv.ParseInt(p[1], 10, 64)
			tbl[k] = v
		}
	}
	enc := func() string {
		keys := make([]int, 0, len(tbl))
		for k := range tbl {
			keys = append(keys, k)
		}
		sort.Ints(keys)
		parts := make([]string, len(keys))
		for i, k := range keys {
			parts[i] = fmt.Sprintf("%d:%d", k, tbl[k])
		}
		c := "0|"
		if closed {
			c = "1|"
		}
		return c + strings.Join(parts, ",")
	}
	if closed {
		return state, agOutp{"closed", ""}
	}
	var evs []string
	ret := "ok"
	switch in.kind {
	case "start":
		if _, ok := tbl[in.id]; ok {
			ret = "exists"
		} else {
			tbl[in.id] = in.t
		}
	case "stop":
		if _, ok := tbl[in.id]; ok {
			delete(tbl, in.id)
			evs = append(evs, fmt.Sprintf("%d:stopped", in.id))
		} else {
			ret = "notexists"
		}
	case "process":
		delete(tbl, in.id)
		evs = append(evs, fmt.Sprintf("%d:msg", in.id))
	case "collect":
		for k, d := range tbl {
			if d < in.t {
				evs = append(evs, fmt.Sprintf("%d:timeout", k))
				delete(tbl, k)
			}
		}
	case "close":
		for k := range tbl {
			evs = append(evs, fmt.Sprintf("%d:closed", k))
		}
		tbl = map[int]int64{}
		closed = true
	}
	sort.Strings(evs)
	return enc(), agOutp{ret, strings.Join(evs, ",")}
}

var agModel = porcupine.Model{
	Init: func() interface{} { return "0|" },
	Step: func(state, input, output interface{}) (bool, interface{}) {
		ns, out := agSpecStep(state.(string), input.(agIn))
		return out == output.(agOutp), ns
	},
	Equal: func(a, b interface{}) bool { return a.(string) == b.(string) },
}

// AGCONC <workers> <iters> <ids> <seed>: concurrent random calls on a small shared id set; the recorded history must
// be linearizable w.r.t. the sequential specification; handlers call back into the agent (outside Close)
func agentConcurrent(workers, iters, nids int, seed uint64) string {
	var mu sync.Mutex
	perG := map[int64]*[]string{}
	var a *stun.Agent
	idOf := func(b [stun.TransactionIDSize]byte) int { return int(b[0]) }
	var reent sync.WaitGroup
	handler := func(e stun.Event) {
		kind := "?"
		switch {
		case e.Message != nil:
			kind = "msg"
		case errors.Is(e.Error, stun.ErrTransactionStopped):
			kind = "stopped"
		case errors.Is(e.Error, stun.ErrTransactionTimeOut):
			kind = "timeout"
		case errors.Is(e.Error, stun.ErrAgentClosed):
			kind = "closed"
		}
		mu.Lock()
		p := perG[goid()]
		mu.Unlock()
		if p != nil {
			*p = append(*p, fmt.Sprintf("%d:%s", idOf(e.TransactionID), kind))
		}
		if kind != "closed" && idOf(e.TransactionID)%3 == 0 {
			// re-entrancy: a handler may use the agent (not from Close, which runs handlers under its lock)
			var id [stun.TransactionIDSize]byte
			id[0] = 200 // ids >= 200 are not part of the checked history
			_ = a.Start(id, time.Unix(0, 1))
			_ = a.Stop(id)
		}
	}
	a = stun.NewAgent(handler)
	var ops []porcupine.Operation
	var opsMu sync.Mutex
	var clock int64
	var clockMu sync.Mutex
	tick := func() int64 { clockMu.Lock(); clock++; c := clock; clockMu.Unlock(); return c }
	var wg sync.WaitGroup
	done := make(chan struct{})
	for w := 0; w < workers; w++ {
		wg.Add(1)
		go func(w int) {
			defer wg.Done()
			r := newRng(seed + uint64(w)*104729)
			var mine []string
			mu.Lock()
			perG[goid()] = &mine
			mu.Unlock()
			for i := 0; i < iters; i++ {
				in := agIn{id: r.intn(nids)}
				switch k := r.intn(20); {
				case k < 7:
					in.kind, in.t = "start", int64(50+r.intn(100))
				case k < 11:
					in.kind = "stop"
				case k < 14:
					in.kind = "process"
				case k < 19:
					in.kind, in.t, in.id = "collect", int64(50+r.intn(100)), 0
				default:
					in.kind, in.id = "close", 0
					if i < iters-2 {
						in.kind = "collect"
						in.t = 100
					}
				}
				var id [stun.TransactionIDSize]byte
				id[0] = byte(in.id)
				mine = mine[:0]
				call := tick()
				var err error
				switch in.kind {
				case "start":
					err = a.Start(id, time.Unix(0, in.t))
				case "stop":
					err = a.Stop(id)
				case "process":
					err = a.Process(procMessage(id, i+w))
				case "collect":
					err = a.Collect(time.Unix(0, in.t))
				case "close":
					err = a.Close()
				}
				ret := tick()
				evs := []string{}
				for _, e := range mine {
					if !strings.HasPrefix(e, "200:") {
						evs = append(evs, e)
					}
				}
				sort.Strings(evs)
				out := agOutp{agentErr(err), strings.Join(evs, ",")}
				opsMu.Lock()
				ops = append(ops, porcupine.Operation{ClientId: w, Input: in, Call: call, Output: out, Return: ret})
				opsMu.Unlock()
				if r.chance(1, 4) {
					runtime.Gosched()
				}
			}
		}(w)
	}
	go func() { wg.Wait(); reent.Wait(); close(done) }()
	select {
	case <-done:
	case <-time.After(60 * time.Second):
		return "stuck: goroutines did not finish (deadlock?)"
	}
	// the re-entrant Start/Stop pairs on id 200 are invisible to the specification only if they leave no trace
	res, _ := porcupine.CheckOperationsVerbose(agModel, ops, 30*time.Second)
	switch res {
	case porcupine.Ok:
		return "ok"
	case porcupine.Unknown:
		return "ok" // checker timed out: inconclusive, not a violation
	}
	return fmt.Sprintf("nonlinearizable history of %d calls", len(ops))
}

func (e *executor) agconcOp(t []string) (string, bool) {
	if t[0] == "AGCONC" && len(t) == 5 {
		return agentConcurrent(atoi(t[1]), atoi(t[2]), atoi(t[3]), uint64(atoi(t[4]))), true
	}
	return "", false
}
