package main

import (
	"fmt"
	"strings"
)

var ecCodes = []int{300, 400, 401, 420, 438, 487, 500, 403, 437, 441, 442, 486, 508, 446, 447, 440, 443}
var xorTypes = []int{0x0020, 0x0020, 0x0012, 0x0016, 0x8020}
var mapTypes = []int{0x0001, 0x8023, 0x802b, 0x802c, 0x0004, 0x0005}

func (g *gen) textLen(limit int) int {
	switch g.r.intn(8) {
	case 0:
		return 0
	case 1:
		return limit - 2 + g.r.intn(5) // both sides of the limit
	case 2:
		return limit
	case 3:
		return limit + 1 + g.r.intn(300)
	default:
		return g.r.intn(64)
	}
}

func (g *gen) ip() []byte {
	switch g.r.intn(11) {
	case 0, 1, 2, 3:
		return g.r.bytes(4)
	case 4, 5, 6:
		return g.r.bytes(16)
	case 7: // IPv4-mapped IPv6
		b := make([]byte, 16)
		b[10], b[11] = 0xff, 0xff
		copy(b[12:], g.r.bytes(4))
		return b
	case 8: // nearly v4-mapped
		b := make([]byte, 16)
		b[10], b[11] = 0xff, 0xff
		b[g.r.intn(12)] ^= byte(1 + g.r.intn(255))
		copy(b[12:], g.r.bytes(4))
		return b
	case 9: // a v4-mapped address cut short or extended: the ::ffff: prefix with a length that is neither 4 nor 16
		b := make([]byte, 20)
		b[10], b[11] = 0xff, 0xff
		copy(b[12:], g.r.bytes(8))
		return b[:g.r.intn(21)]
	default:
		return g.r.bytes(g.r.intn(21)) // any length 0..20
	}
}

func (g *gen) port() int {
	switch g.r.intn(6) {
	case 0:
		return []int{0, 1, 0x2112, 0x2113, 65535, 65534, 3478}[g.r.intn(7)]
	default:
		return g.r.intn(65536)
	}
}

// one setter token; adds its (padded) size to *total when it would be accepted
func (g *gen) setter(total *int) string {
	room := 65535 - *total
	add := func(vlen int) bool {
		n := 4 + vlen + pad4(vlen)
		if n > room {
			return false
		}
		*total += n
		return true
	}
	switch k := g.r.intn(20); {
	case k == 0:
		return fmt.Sprintf("type:%d:%d", g.r.intn(4096), g.r.intn(4))
	case k == 1:
		return "tid:" + showHex(g.r.bytes(12))
	case k < 5:
		l := g.valLen()
		if !add(l) {
			return ""
		}
		return fmt.Sprintf("raw:%d:%s", g.r.pick(knownTypes), showHex(g.r.bytes(l)))
	case k < 8:
		kinds := []string{"user", "realm", "nonce", "soft"}
		limits := []int{513, 763, 763, 763}
		i := g.r.intn(4)
		l := g.textLen(limits[i])
		if l <= limits[i] && !add(l) {
			return ""
		}
		return kinds[i] + ":" + showHex(g.r.bytes(l))
	case k < 11:
		ip := g.ip()
		if !add(20) {
			return ""
		}
		return fmt.Sprintf("xor:%d:%s:%d", g.r.pick(xorTypes), showHex(ip), g.port())
	case k < 13:
		ip := g.ip()
		if !add(20) {
			return ""
		}
		return fmt.Sprintf("map:%d:%s:%d", g.r.pick(mapTypes), showHex(ip), g.port())
	case k < 15:
		code := 300 + g.r.intn(400)
		if g.r.chance(1, 5) {
			code = g.r.intn(1000)
		}
		l := g.textLen(763)
		if l <= 763 && !add(4+l) {
			return ""
		}
		return fmt.Sprintf("ec:%d:%s", code, showHex(g.r.bytes(l)))
	case k == 15:
		code := g.r.pick(ecCodes)
		if g.r.chance(1, 3) {
			code = g.r.intn(1000)
		}
		if !add(40) {
			return ""
		}
		return fmt.Sprintf("ecd:%d", code)
	case k == 16:
		n := g.r.intn(9)
		if g.r.chance(1, 4) {
			n = g.r.intn(65)
		}
		if !add(2 * n) {
			return ""
		}
		if n == 0 {
			return "ua:-"
		}
		parts := make([]string, n)
		for i := range parts {
			parts[i] = fmt.Sprint(g.r.pick(knownTypes))
			if g.r.chance(1, 2) {
				parts[i] = fmt.Sprint(g.r.intn(65536))
			}
		}
		return "ua:" + strings.Join(parts, ",")
	case k < 19:
		if !add(20) {
			return ""
		}
		return "mi:" + showHex(g.r.bytes(g.keyLen()))
	default:
		if !add(4) {
			return ""
		}
		return "fp"
	}
}

func (g *gen) keyLen() int {
	switch g.r.intn(6) {
	case 0:
		return 0
	case 1:
		return 63 + g.r.intn(3) // both sides of the 64-byte block
	case 2:
		return 65 + g.r.intn(136)
	default:
		return 1 + g.r.intn(40)
	}
}

func (g *gen) stream2(name string, n int) bool {
	switch name {
	default:
		return g.stream3(name, n)
	}
}
