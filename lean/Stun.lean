import Stun.Basic.Bytes
import Stun.Model.MsgType
import Stun.Properties.C19
