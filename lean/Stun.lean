import Stun.Basic.Bytes
import Stun.Model.MsgType
import Stun.Model.Decode
import Stun.Spec.RFC5389
import Stun.Proofs.Bits
import Stun.Properties.C19
