/-
  Line-protocol driver, typed attributes / integrity / fingerprint / Build.
-/
import Driver.Codec
import Stun.Model.Integrity
import Stun.Model.Alloc
import Stun.Spec.Hash
namespace Stun.Driver
open Stun

def theMac : Bytes → Bytes → Bytes := Spec.hmacSHA1

def showSetErr : SetErr → String
  | .overflow => "overflow" | .badIPLength => "bad-ip" | .noDefaultReason => "no-default"
  | .fpBeforeIntegrity => "fp-before-mi"

def showGetErr : GetErr → String
  | .notFound => "notfound" | .eof => "eof" | .family => "family" | .overflow => "overflow"
  | .badSize => "badsize" | .mismatch => "mismatch"

def parseSetter (tok : String) : Option Setter :=
  match tok.splitOn ":" with
  | ["type", m, c] => some (.msgType (nat! m) (nat! c))
  | ["tid", h] => some (.tid (hex! h))
  | ["raw", t, h] => some (.raw (nat! t) (hex! h))
  | ["user", h] => some (.text .username (hex! h))
  | ["realm", h] => some (.text .realm (hex! h))
  | ["nonce", h] => some (.text .nonce (hex! h))
  | ["soft", h] => some (.text .software (hex! h))
  | ["xor", a, ip, p] => some (.xorAddr (nat! a) (hex! ip) (nat! p))
  | ["map", a, ip, p] => some (.mapAddr (nat! a) (hex! ip) (nat! p))
  | ["ec", c, h] => some (.errorCode (nat! c) (hex! h))
  | ["ecd", c] => some (.errorCodeDefault (nat! c))
  | ["ua", ts] => some (.unknownAttrs (if ts == "-" then [] else (ts.splitOn ",").map nat!))
  | ["mi", k] => some (.integrity (hex! k))
  | ["fp"] => some .fingerprint
  | _ => none

def parseSetters (s : String) : Option (List Setter) :=
  if s == "-" then some [] else (s.splitOn "+").mapM parseSetter

def showSetRes (r : Msg × Option SetErr) : String :=
  match r.2 with
  | none => s!"ok {dump r.1}"
  | some e => s!"err:{showSetErr e} {dump r.1}"

def showAddr (r : GetRes Addr) : String :=
  match r with
  | .ok a => s!"ok {showHex a.ip}:{a.port}"
  | .err e => s!"err:{showGetErr e}"
  | .panic => "panic || -"

def showNats (l : List Nat) : String := if l.isEmpty then "-" else ",".intercalate (l.map toString)

def showCheck : CheckRes → String
  | .ok => "ok" | .err e => s!"err:{showGetErr e}" | .panic => "panic"

def stepAttrs (s : CState) (toks : List String) : Option (CState × String) :=
  match toks with
  | ["SET", i, tok] =>
    match parseSetter tok with
    | none => none
    | some st =>
      let r := st.addTo theMac (s.get (nat! i))
      some (s.set (nat! i) r.1, showSetRes r)
  | ["BUILD", i, toks] =>
    match parseSetters toks with
    | none => none
    | some ss =>
      let r := build theMac (s.get (nat! i)) ss
      some ((s.set (nat! i) r.1).setStale (nat! i) false, showSetRes r)
  | ["DUMP", i] => some (s, s.dumpS (nat! i))
  | "GETX" :: i :: _ => if s.isStale (nat! i) then some (s, "stale") else stepGetx s toks
  | "CHECK" :: i :: _ => if s.isStale (nat! i) then some (s, "stale") else stepGetx s toks
  | _ => stepGetx s toks

where stepGetx (s : CState) (toks : List String) : Option (CState × String) :=
  match toks with
  | ["GETX", i, "xor", a] => some (s, showAddr (xorGetFromAs (s.get (nat! i)) (nat! a)))
  | ["GETX", i, "map", a] => some (s, showAddr (mappedGetFromAs (s.get (nat! i)) (nat! a)))
  | ["GETX", i, kind] =>
    let m := s.get (nat! i)
    let text (k : TextKind) : String :=
      match textGetFromAs m k.attr with | .ok v => s!"ok {showHex v}" | .err e => s!"err:{showGetErr e}" | .panic => "panic || -"
    match kind with
    | "user" => some (s, text .username)
    | "realm" => some (s, text .realm)
    | "nonce" => some (s, text .nonce)
    | "soft" => some (s, text .software)
    | "ec" =>
      some (s, match errorCodeGetFrom m with
        | .ok (c, r) => s!"ok {c}:{showHex r}" | .err e => s!"err:{showGetErr e}" | .panic => "panic || -")
    | "ua" =>
      some (s, match unknownGetFrom m with
        | .ok l => s!"ok {showNats l}" | .err e => s!"err:{showGetErr e}" | .panic => "panic || -")
    | _ => none
  | ["CHECK", i, "mi", k] =>
    let (m', r) := integrityCheck theMac (hex! k) (s.get (nat! i))
    match r with
    | .panic => some (s, "panic || -")
    | _ => some (s.set (nat! i) m', s!"{showCheck r} {dump m'}")
  | ["CHECK", i, "fp"] =>
    let m := s.get (nat! i)
    some (s, match fingerprintCheck m with
      | .panic => "panic || -"
      | r => s!"{showCheck r} {dump m}")
  | ["LTKEY", u, r, p] =>
    some (s, showHex (Spec.md5 (hex! u ++ [58] ++ hex! r ++ [58] ++ hex! p)))
  -- C20: `ALLOC …` lines measure heap allocations per run on warm objects (one warm-up run, then the measured runs);
  -- the model performs the warm-up, then counts what its capacity accounting says about one more run
  | ["SPARE", i, k, seed] =>
    let m := s.get (nat! i)
    let pre := { m with mem := m.raw ++ poison (nat! seed) (nat! k), len := m.len }
    let (m', _) := pre.decode
    some ((s.set (nat! i) m').setStale (nat! i) (staleAfter (s.isStale (nat! i)) pre), showDecode m' pre)
  | ["ALLOC", "dec", i, mode, h] =>
    let m := s.get (nat! i)
    let data := hex! h
    if mode == "readfrom" then
      let chunk := data.take m.mem.length
      let pre := { m with mem := chunk ++ m.mem.drop chunk.length, len := chunk.length }
      let (m', _) := pre.decode
      some ((s.set (nat! i) m').setStale (nat! i) (staleAfter (s.isStale (nat! i)) pre),
        s!"allocs={Alloc.realloc m m'} {showDecode m' pre}")
    else
      let warm := (m.decodeFrom data).1
      let pre := warm.setRaw data
      let (m', _) := pre.decode
      some ((s.set (nat! i) m').setStale (nat! i) (staleAfter (s.isStale (nat! i)) (m.setRaw data)),
        s!"allocs={Alloc.decodeFrom warm data} {showDecode m' pre}")
  | ["ALLOC", "clone", i, j] =>
    let src := s.get (nat! i)
    let dst := s.get (nat! j)
    let warm := (dst.decodeFrom src.raw).1
    let pre := warm.setRaw src.raw
    let (m', _) := pre.decode
    some ((s.set (nat! j) m').setStale (nat! j) (staleAfter (s.isStale (nat! j)) (dst.setRaw src.raw)),
      s!"allocs={Alloc.decodeFrom warm src.raw} {showDecode m' pre}")
  | ["ALLOC", "get", i] => some (s, s!"allocs=0 n={(s.get (nat! i)).attrs.length + 1}")
  | ["ALLOC", "getx", i] =>
    let m := s.get (nat! i)
    let okA (r : GetRes Addr) : Nat := match r with | .ok _ => 1 | _ => 0
    let okT (k : TextKind) : Nat := match textGetFromAs m k.attr with | .ok _ => 1 | _ => 0
    let n := okA (xorGetFromAs m 0x20) + okA (xorGetFromAs m 0x12) + okA (xorGetFromAs m 0x16) +
      okA (mappedGetFromAs m 0x1) + okA (mappedGetFromAs m 0x8023) + okA (mappedGetFromAs m 0x802b) +
      okA (mappedGetFromAs m 0x802c) + okT .username + okT .realm + okT .nonce + okT .software +
      (match errorCodeGetFrom m with | .ok _ => 1 | _ => 0) + (match unknownGetFrom m with | .ok _ => 1 | _ => 0)
    some (s, s!"allocs=0 ok={n}")
  | ["ALLOC", "check", i, "mi", k] =>
    let m := s.get (nat! i)
    let (m', r) := integrityCheck theMac (hex! k) m
    some (s.set (nat! i) m', s!"allocs={Alloc.integrityCheck m} {showCheck r} spare20={decide (m.len + 20 ≤ m.mem.length)}")
  | ["ALLOC", "check", i, "fp"] => some (s, s!"allocs=0 {showCheck (fingerprintCheck (s.get (nat! i)))}")
  | ["ALLOC", "build", i, toks] =>
    match parseSetters toks with
    | none => none
    | some ss =>
      let warm := (build theMac (s.get (nat! i)) ss).1
      let r := build theMac warm ss
      some ((s.set (nat! i) r.1).setStale (nat! i) false, s!"allocs={Alloc.build theMac warm ss} {showSetRes r}")
  -- the harness fills the getters' destination values with leftovers of an earlier use: results do not depend on them
  | ["PRIME", _] => some (s, "ok")
  | ["FPVAL", h] => some (s, s!"{fingerprintValue (hex! h)}")
  | ["HMAC1", k, h] => some (s, showHex (Spec.hmacSHA1 (hex! k) (hex! h)))
  | _ => none

end Stun.Driver
