/-
  Line-protocol driver: pooled HMAC objects (SHA-1 / SHA-256 instantiation of the parametric model).
-/
import Driver.Codec
import Stun.Model.HmacPool
import Stun.Spec.Hash
namespace Stun.Driver
open Stun

structure HSlot where
  h : Hmac := { ipad := .key [], opad := .key [], inner := [], outer := [], marshaled := false }
  sha256 : Bool := false

structure HState where
  slots : Array HSlot := Array.replicate 8 {}

def hashOf (s256 : Bool) : Bytes → Bytes := if s256 then Spec.sha256 else Spec.sha1

def stepHmac (s : HState) (toks : List String) : Option (HState × String) :=
  match toks with
  | ["HM", "acquire", alg, i, k] =>
    let s256 := alg == "sha256"
    let old := s.slots.getD (nat! i) {}
    -- whatever object the pool hands out (here: the slot's previous one), it is re-keyed
    some ({ s with slots := s.slots.setIfInBounds (nat! i) ⟨Hmac.resetTo (hashOf s256) 64 old.h (hex! k), s256⟩ }, "ok")
  | ["HM", "new", alg, i, k] =>
    let s256 := alg == "sha256"
    some ({ s with slots := s.slots.setIfInBounds (nat! i) ⟨Hmac.new (hashOf s256) 64 (hex! k), s256⟩ }, "ok")
  | ["HM", "write", i, d] =>
    let x := s.slots.getD (nat! i) {}
    some ({ s with slots := s.slots.setIfInBounds (nat! i) { x with h := x.h.write (hex! d) } }, "ok")
  | ["HM", "sum", i, inp] =>
    let x := s.slots.getD (nat! i) {}
    let (h', out) := x.h.sum (hashOf x.sha256) (hex! inp)
    some ({ s with slots := s.slots.setIfInBounds (nat! i) { x with h := h' } },
      if h'.broken then "broken" else showHex out)
  | ["HM", "reset", i] =>
    let x := s.slots.getD (nat! i) {}
    some ({ s with slots := s.slots.setIfInBounds (nat! i) { x with h := x.h.reset } }, "ok")
  | ["HM", "put", _i] => some (s, "ok")
  | ["HMCONC", _, _, _] => some (s, "ok")   -- concurrent pool use: every digest equals crypto/hmac (checked in Go)
  | _ => none

end Stun.Driver
