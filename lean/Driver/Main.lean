import Driver.Codec
import Driver.Attrs
import Driver.AgentD
import Driver.HmacD
import Driver.UriD
import Driver.ClientD
open Stun.Driver

structure DState where
  codec : CState := {}
  agent : Stun.Agent := {}
  hm : HState := {}
  client : Stun.Client2 := {}

def step (s : DState) (line : String) : DState × String :=
  let toks := (line.splitOn " ").filter (· ≠ "")
  match toks with
  | [] => (s, "")
  | "#" :: _ => (s, "#")
  | _ =>
    match stepCodec s.codec toks with
    | some (c, out) => ({ s with codec := c }, out)
    | none =>
    match stepAttrs s.codec toks with
    | some (c, out) => ({ s with codec := c }, out)
    | none =>
    match stepAgent s.agent toks with
    | some (a, out) => ({ s with agent := a }, out)
    | none =>
    match stepHmac s.hm toks with
    | some (h, out) => ({ s with hm := h }, out)
    | none =>
    match stepUri toks with
    | some out => (s, out)
    | none =>
    match stepClient2 s.client toks with
    | some (c, out) => ({ s with client := c }, out)
    | none => (s, "bad-op")

partial def loop (hin hout : IO.FS.Stream) (s : DState) : IO Unit := do
  let line ← hin.getLine
  if line.isEmpty then return ()
  let line := (line.dropEndWhile (fun c => c == '\n' || c == '\r')).toString
  let (s', out) := step s line
  hout.putStrLn out
  loop hin hout s'

def main : IO Unit := do
  let hin ← IO.getStdin
  let hout ← IO.getStdout
  loop hin hout {}
