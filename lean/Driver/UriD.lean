/-
  Line-protocol driver: URI parsing / formatting and the standard-library fragments it rests on.
-/
import Driver.Codec
import Stun.Model.URI
import Stun.Properties.C17
namespace Stun.Driver
open Stun Stun.URI

def showSplitErr : SplitErr → String
  | .missingPort => "missing-port" | .tooManyColons => "too-many-colons" | .missingBracket => "missing-bracket"
  | .unexpectedOpen => "unexpected-open" | .unexpectedClose => "unexpected-close"

def showUErr : UErr → String
  | .urlParse => "early" | .schemeType => "early" | .split e => "split:" ++ showSplitErr e | .host => "early"
  | .port => "port" | .stunQuery => "stun-query" | .invalidQuery => "invalid-query" | .protoType => "proto"

def showScheme : Scheme → String
  | .stun => "stun" | .stuns => "stuns" | .turn => "turn" | .turns => "turns"
def showProto : Proto → String
  | .udp => "udp" | .tcp => "tcp"

def showURI (u : URI.URI) : String :=
  s!"scheme={showScheme u.scheme} host={showHex u.host} port={u.port} proto={showProto u.proto}"

def stepUri (toks : List String) : Option String :=
  match toks with
  | ["URI", "parse", h] =>
    some (match parseURI true (hex! h) with
      | .ok u => s!"ok {showURI u} || -"
      | .error e => s!"err || {showUErr e}")
  | ["URI", "roundtrip", h] =>
    some (match parseURI true (hex! h) with
      | .ok u =>
        let str := u.toStr
        let same := match parseURI true str with | .ok u2 => decide (u2 = u) | .error _ => false
        s!"ok same={same} str={showHex str}"
      | .error _ => "err")
  | ["URI", "split", h] =>
    some (match splitHostPort (hex! h) with
      | .ok (a, b) => s!"ok {showHex a} {showHex b}"
      | .error e => s!"err {showSplitErr e}")
  | ["URI", "urlparse", h] =>
    some (match urlParse (hex! h) with
      | .error => "reject"
      | .other _ => "reject"
      | .rootless s o q => s!"ok {showHex s} {showHex o} {showHex q}")
  | ["URI", "atoi", h] =>
    some (match atoi (hex! h) with | some n => s!"ok {n}" | none => "err")
  | ["URI", "query", h] =>
    let (q, err) := parseQuery (hex! h)
    some s!"err={err} n={q.length} transport={showHex (valuesGet q (lit "transport"))}"
  | ["URI", "dial", sc, pr, _host, _port, hint] =>
    let sx : C17.SchemeX := match nat! sc with | 1 => .stun | 2 => .stuns | 3 => .turn | 4 => .turns | _ => .unknown
    let px : C17.ProtoX := match nat! pr with | 1 => .udp | 2 => .tcp | _ => .unknown
    some (match C17.dialPlan sx px with
      | .udp => "plan=udp sni=-"
      | .tcp => "plan=tcp sni=-"
      | .dtlsOverUdp => s!"plan=dtls-over-udp sni={hint}"
      | .tlsOverTcp => s!"plan=tls-over-tcp sni={hint}"
      | .unsupported => "plan=unsupported")
  -- stuns / turns+tcp to an IP literal with verification on: TLS over TCP with the host as server name, so a
  -- certificate naming exactly that address verifies (C17.dialPlan says tlsOverTcp for both pairs)
  | ["URI", "dialverify", sc, pr, _host, _port] =>
    let sx : C17.SchemeX := match nat! sc with | 1 => .stun | 2 => .stuns | 3 => .turn | 4 => .turns | _ => .unknown
    let px : C17.ProtoX := match nat! pr with | 1 => .udp | 2 => .tcp | _ => .unknown
    some (match C17.dialPlan sx px with
      | .tlsOverTcp => "tls=verified"
      | _ => "tls=not-tls-over-tcp")
  | ["URI", "join", a, b] => some (showHex (joinHostPort (hex! a) (hex! b)))
  | _ => none

end Stun.Driver
