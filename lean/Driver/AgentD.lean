/-
  Line-protocol driver: Agent.
-/
import Driver.Codec
import Stun.Model.Agent
namespace Stun.Driver
open Stun

def showAErr : Option AErr → String
  | none => "ok" | some .closed => "closed" | some .notExists => "notexists" | some .exists => "exists"

def showKind : EvKind → String
  | .stopped => "stopped" | .timeout => "timeout" | .closed => "closed" | .msg _ => "msg"

def sortStrings (l : List String) : List String := (l.toArray.qsort (· < ·)).toList

def showEvents (evs : List AEvent) : String :=
  if evs.isEmpty then "-"
  else ",".intercalate (sortStrings (evs.map (fun e => s!"h{e.handler}:{showHex e.id}:{showKind e.kind}")))

def showStep (r : Agent × Option AErr × List AEvent) : String := s!"ret={showAErr r.2.1} ev={showEvents r.2.2}"

def stepAgent (a : Agent) (toks : List String) : Option (Agent × String) :=
  match toks with
  | ["AG", "new"] => some ({}, "ok")
  | ["AG", "start", id, d] => let r := a.step (.start (hex! id) (nat! d)); some (r.1, showStep r)
  | ["AG", "stop", id] => let r := a.step (.stop (hex! id)); some (r.1, showStep r)
  | ["AG", "process", id] => let r := a.step (.process (hex! id)); some (r.1, showStep r)
  | ["AG", "collect", t] => let r := a.step (.collect (nat! t)); some (r.1, showStep r)
  | ["AG", "sethandler"] => let r := a.step .setHandler; some (r.1, showStep r)
  | ["AGCONC", _, _, _, _] => some (a, "ok")   -- concurrent run: linearizable w.r.t. the sequential spec (checked in Go)
  | ["AG", "close"] => let r := a.step .close; some (r.1, showStep r)
  | _ => none

end Stun.Driver
