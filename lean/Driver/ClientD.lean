/-
  Line-protocol driver: the L1 client model.
-/
import Driver.AgentD
import Stun.Model.Client
import Stun.Model.ClientL2
namespace Stun.Driver
open Stun

/-- the attribute list of the Message object a handler is handed: what the reader's `ReadFrom` left in it -/
def showMsgAttrs (raw : Bytes) : String :=
  let as := (Client.readerMsg.readFrom raw).1.attrs
  s!"a{as.length}" ++ String.join (as.map (fun a => s!".{a.typ}-{a.length}-{a.val.length}"))

def showCEv : CEv → String
  | .msg raw => s!"msg:{showHex raw}/{showMsgAttrs raw}" | .timeout => "timeout" | .agentClosed => "agent-closed" | .stopped => "stopped"
  | .writeErr => "write-err" | .exists => "exists" | .stopErr => "stop-err"

def showCErr : Option CErr → String
  | none => "ok" | some .clientClosed => "client-closed" | some .exists => "exists" | some .agentClosed => "agent-closed"
  | some .write => "write-err" | some .stopErr => "stop-err" | some .closeErr => "close-err"

/-- writes and callbacks of one event; each group sorted (the order inside one collector tick follows Go's map
    iteration) -/
def showOuts (outs : List COut) : String :=
  let ws := outs.filterMap (fun o => match o with | .write r _ => some (showHex r) | _ => none)
  let cs := outs.filterMap (fun o => match o with
    | .call h id e => some s!"h{h}:{showHex id}:{showCEv e}"
    | .fallback id e => some s!"fb:{showHex id}:{showCEv e}"
    | _ => none)
  let cc := (outs.filter (fun o => o == .connClose)).length
  let j (l : List String) := if l.isEmpty then "-" else ",".intercalate (sortStrings l)
  s!"wr={j ws} cb={j cs} connclose={cc}"

def stepClient (c : Client) (toks : List String) : Option (Client × String) :=
  match toks with
  | ["CL", "new", rto, att, noclose, fb, ace, cce] =>
    some ({ rto := nat! rto, maxAttempts := nat! att, closeConn := noclose != "1", hasFallback := fb == "1",
            agentCloseErr := ace == "1", connCloseErr := cce == "1" }, "ok")
  | ["CL", "start", id, raw, h] =>
    let r := c.step (.start (hex! id) (hex! raw) (if h == "-" then none else some (nat! h)))
    some (r.1, s!"ret={showCErr r.2.1} {showOuts r.2.2}")
  | ["CL", "deliver", d] => let r := c.step (.deliver (hex! d)); some (r.1, showOuts r.2.2)
  | ["CL", "tick", t] => let r := c.step (.tick (nat! t)); some (r.1, showOuts r.2.2)
  | ["CL", "clock", t] => let r := c.step (.clock (nat! t)); some (r.1, "ok")
  | ["CL", "failwrite", id] => let r := c.step (.failWrite (hex! id)); some (r.1, "ok")
  | ["CL", "setrto", r] => let x := c.step (.setRTO (nat! r)); some (x.1, "ok")
  | ["CL", "close"] => let r := c.step .close; some (r.1, s!"ret={showCErr r.2.1} {showOuts r.2.2} reader=exited")
  -- `Do`: Start with a waiting handler; the response arrives while the request is being written
  | ["CL", "do", id, raw, resp, h] =>
    let r := c.step (.start (hex! id) (hex! raw) (some (nat! h)))
    match r.2.1 with
    | some e => some (r.1, s!"ret={showCErr (some e)} {showOuts r.2.2} do=none")
    | none =>
      let r2 := r.1.step (.deliver (hex! resp))
      some (r2.1, s!"ret=ok {showOuts (r.2.2 ++ r2.2.2)} do=after-callback")
  -- `Do` whose response arrives after Do has started waiting: the same two events, in the same order
  | ["CL", "dolate", id, raw, resp, h] =>
    let r := c.step (.start (hex! id) (hex! raw) (some (nat! h)))
    match r.2.1 with
    | some e => some (r.1, s!"ret={showCErr (some e)} {showOuts r.2.2} do=none")
    | none =>
      let r2 := r.1.step (.deliver (hex! resp))
      some (r2.1, s!"ret=ok {showOuts (r.2.2 ++ r2.2.2)} do=after-callback")
  -- several goroutines race Close with Start / Indicate / SetRTO: exactly one Close takes effect
  | ["CL", "conc", _, _] =>
    let r := c.step .close
    let ok := if r.2.1 == some .clientClosed then 0 else 1
    let cc := (r.2.2.filter (fun o => o == .connClose)).length
    let cs := r.2.2.filterMap (fun o => match o with
      | .call h id e => some s!"h{h}:{showHex id}:{showCEv e}"
      | _ => none)
    let j := if cs.isEmpty then "-" else ",".intercalate (sortStrings cs)
    some (r.1, s!"closes={ok} connclose={cc} reader=exited cb={j}")
  | _ => none

/-- L2 state: the L1 client plus scripted blocking writes. Ticks go through the blocking-aware callback; everything
    else is the L1 operation on the embedded client. -/
def stepClient2 (k : Client2) (toks : List String) : Option (Client2 × String) :=
  match toks with
  -- real-time scenario (default ticker collector): all the model says is the theorem C10.exactly_once_by_close —
  -- Close returns and every handler has been invoked exactly once
  | ["CL", "realclose", n, _, _] => some (k, s!"ret=ok invoked-once={n}/{n}")
  -- default collector with the client's own clock: deadlines and their expiry are both counted on that clock
  -- (C11.no_retransmit_before_deadline / the time-out clause of C10): a clock that stands still lets nothing expire
  -- (n writes, nobody told before Close); a clock that runs ahead of wall time still lets everything expire
  | ["CL", "realclock", n, mode] =>
    some (k, if mode == "0" then s!"ret=ok writes={n} completed-before-close=0 invoked-once={n}/{n}"
             else s!"ret=ok writes={n} completed-before-close={n} invoked-once={n}/{n}")
  | ["CL", "blockwrite", id] => let r := k.step (.blockWrite (hex! id)); some (r.1, "ok")
  | ["CL", "blockagent", id] => let r := k.step (.blockAgent (hex! id)); some (r.1, "ok")
  | ["CL", "tick", t] => let r := k.step (.l1 (.tick (nat! t))); some (r.1, showOuts r.2.2)
  -- two collector calls at once: what the two report one after the other (outputs are printed sorted)
  | ["CL", "ticks2", t1, t2] =>
    let r1 := k.step (.l1 (.tick (nat! t1)))
    let r2 := r1.1.step (.l1 (.tick (nat! t2)))
    some (r2.1, showOuts (r1.2.2 ++ r2.2.2))
  | ["CL", "tick2", t] =>
    let r := k.step (.l1 (.tick (nat! t)))
    -- the script of blocking writes applies to this collector call only
    let k' : Client2 := if r.1.susp.isEmpty then { r.1 with blockIds := [], blockAgentIds := [] } else r.1
    some (k', s!"{showOuts r.2.2} blocked={k'.susp.length}")
  | ["CL", "release", how] =>
    let isStart := (k.susp.head?.map (·.kind)) == some SuspKind.start
    let r := k.step (.release (how == "ok"))
    let k' : Client2 := if r.1.susp.isEmpty then { r.1 with blockIds := [], blockAgentIds := [] } else r.1
    let pre := if isStart then s!"sret={showCErr r.2.1} " else ""
    some (k', s!"{pre}{showOuts r.2.2} blocked={k'.susp.length}")
  -- Start whose first write blocks: it returns at the next `release`
  | ["CL", "startb", id, raw, h] =>
    let r := k.step (.startBlocked (hex! id) (hex! raw) (nat! h))
    let pending := r.1.susp.length > k.susp.length
    some (r.1, s!"ret={if pending then "pending" else showCErr r.2.1} {showOuts r.2.2} blocked={r.1.susp.length}")
  -- `Do` on the F12 schedule: the response is handled while Start is inside its first Write, which then fails; Do
  -- returns Start's error (and must not leave anything behind for the next Do)
  | ["CL", "dofail", id, raw, resp, h] =>
    let r := k.step (.startBlocked (hex! id) (hex! raw) (nat! h))
    if r.1.susp.length > k.susp.length then
      let r2 := r.1.step (.l1 (.deliver (hex! resp)))
      let r3 := r2.1.step (.release false)
      let k' : Client2 := if r3.1.susp.isEmpty then { r3.1 with blockIds := [], blockAgentIds := [] } else r3.1
      some (k', s!"ret={showCErr r3.2.1} {showOuts (r.2.2 ++ r2.2.2 ++ r3.2.2)} do=failed")
    else some (r.1, s!"ret={showCErr r.2.1} {showOuts r.2.2} do=none")
  | "CL" :: "new" :: _ => (stepClient k.c toks).map (fun r => ({ c := r.1 }, r.2))
  | _ => (stepClient k.c toks).map (fun r => ({ k with c := r.1 }, r.2))

end Stun.Driver
