/-
  Line-protocol driver: the L1 client model.
-/
import Driver.AgentD
import Stun.Model.Client
namespace Stun.Driver
open Stun

def showCEv : CEv → String
  | .msg raw => s!"msg:{showHex raw}" | .timeout => "timeout" | .agentClosed => "agent-closed" | .stopped => "stopped"
  | .writeErr => "write-err" | .exists => "exists" | .stopErr => "stop-err"

def showCErr : Option CErr → String
  | none => "ok" | some .clientClosed => "client-closed" | some .exists => "exists" | some .agentClosed => "agent-closed"
  | some .write => "write-err" | some .stopErr => "stop-err" | some .closeErr => "close-err"

/-- writes and callbacks of one event; each group sorted (the order inside one collector tick follows Go's map
    iteration) -/
def showOuts (outs : List COut) : String :=
  let ws := outs.filterMap (fun o => match o with | .write r _ => some (showHex r) | _ => none)
  let cs := outs.filterMap (fun o => match o with
    | .call h id e => some s!"h{h}:{showHex id}:{showCEv e}"
    | .fallback id e => some s!"fb:{showHex id}:{showCEv e}"
    | _ => none)
  let cc := (outs.filter (fun o => o == .connClose)).length
  let j (l : List String) := if l.isEmpty then "-" else ",".intercalate (sortStrings l)
  s!"wr={j ws} cb={j cs} connclose={cc}"

def stepClient (c : Client) (toks : List String) : Option (Client × String) :=
  match toks with
  | ["CL", "new", rto, att, noclose, fb, ace, cce] =>
    some ({ rto := nat! rto, maxAttempts := nat! att, closeConn := noclose != "1", hasFallback := fb == "1",
            agentCloseErr := ace == "1", connCloseErr := cce == "1" }, "ok")
  | ["CL", "start", id, raw, h] =>
    let r := c.step (.start (hex! id) (hex! raw) (if h == "-" then none else some (nat! h)))
    some (r.1, s!"ret={showCErr r.2.1} {showOuts r.2.2}")
  | ["CL", "deliver", d] => let r := c.step (.deliver (hex! d)); some (r.1, showOuts r.2.2)
  | ["CL", "tick", t] => let r := c.step (.tick (nat! t)); some (r.1, showOuts r.2.2)
  | ["CL", "clock", t] => let r := c.step (.clock (nat! t)); some (r.1, "ok")
  | ["CL", "failwrite", id] => let r := c.step (.failWrite (hex! id)); some (r.1, "ok")
  | ["CL", "setrto", r] => let x := c.step (.setRTO (nat! r)); some (x.1, "ok")
  | ["CL", "close"] => let r := c.step .close; some (r.1, s!"ret={showCErr r.2.1} {showOuts r.2.2}")
  | _ => none

end Stun.Driver
