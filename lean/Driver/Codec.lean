/-
  Line-protocol driver, codec part: executes operation lines on the very model definitions the theorems are about.
-/
import Stun.Model.Message
namespace Stun.Driver
open Stun

def nat! (s : String) : Nat := s.toNat?.getD 0
def hex! (s : String) : Bytes := (parseHex s).getD []

def poison (seed n : Nat) : Bytes :=
  (List.range n).map (fun i => UInt8.ofNat (seed + 131 * i))

def showAttr (a : RawAttr) : String := s!"{a.typ}:{a.length}:{showHex a.val}"
def showAttrs (as : List RawAttr) : String :=
  if as.isEmpty then "-" else ";".intercalate (as.map showAttr)

def dump (m : Msg) : String :=
  s!"T={m.method}/{m.cls} L={m.length} ID={showHex m.tid} A={showAttrs m.attrs} R={showHex m.raw}"

/-- after a failed decode Go's attribute views may point into overwritten memory: only the count is compared -/
def dumpFailed (m : Msg) : String :=
  s!"T={m.method}/{m.cls} L={m.length} ID={showHex m.tid} A#={m.attrs.length} R={showHex m.raw}"

def showErr : DecErr → String
  | .headerEOF => "hdr-eof" | .cookie => "cookie" | .msgSize => "msg-size"
  | .attrHeader => "attr-hdr" | .attrValue => "attr-val"

def showView (v : View) : String := s!"{v.typ}:{v.length}@{v.val.off}+{v.val.len}"

/-- decode result line: property-level part `||` auxiliary part -/
def showDecode (m' : Msg) (pre : Msg) : String :=
  match decodeRaw pre.mem pre.len with
  | (d, .ok ()) =>
    let vs := match d with | some d => d.attrs | none => []
    let views := if vs.isEmpty then "-" else ";".intercalate (vs.map showView)
    s!"ok V={views} IS={isMessage pre.raw} {dump m'} || -"
  | (_, .err e) => s!"err {dumpFailed m'} || {showErr e}"
  | (_, .panic) => s!"panic || -"

structure CState where
  msgs : Array Msg := Array.replicate 4 {}
  /-- slot holds attribute views into memory that a failed (header-stage) decode has overwritten: Go's views then
      show whatever the new bytes are; values are not compared until the attribute list is rebuilt -/
  stale : Array Bool := Array.replicate 4 false

def CState.get (s : CState) (i : Nat) : Msg := s.msgs.getD i {}
def CState.set (s : CState) (i : Nat) (m : Msg) : CState := { s with msgs := s.msgs.setIfInBounds i m }
def CState.isStale (s : CState) (i : Nat) : Bool := s.stale.getD i false
def CState.setStale (s : CState) (i : Nat) (b : Bool) : CState := { s with stale := s.stale.setIfInBounds i b }

/-- staleness after a decode attempt on `pre` -/
def staleAfter (was : Bool) (pre : Msg) : Bool :=
  match decodeRaw pre.mem pre.len with
  | (none, _) => was || !pre.attrs.isEmpty
  | (some _, _) => false

def CState.dumpS (s : CState) (i : Nat) : String :=
  if s.isStale i then dumpFailed (s.get i) else dump (s.get i)

def showOpt (o : Option Bytes) : String := match o with | some b => s!"some {showHex b}" | none => "none"

/-- callbacks used by the FOREACH line: fail at the k-th visit (0 = never); optionally clobber the attribute list -/
def feCallback (failAt : Nat) (clobber : Bool) (counter : Nat) (m : Msg) : Msg × Bool :=
  let m := if clobber then { m with attrs := [] } else m
  (m, failAt ≠ 0 && counter + 1 == failAt)

/-- ForEach with a counting callback (the model's `forEach` takes a stateless callback, so the visit counter is
    threaded by running it once per possible failure point) -/
def runForEach (m : Msg) (t failAt : Nat) (clobber : Bool) : Msg × Bool × List (List RawAttr) :=
  -- visit index is determined by the position in the original list: count matches before it
  let f : Msg → Msg × Bool := fun mm =>
    -- the window shown is a suffix of the original list; its visit number = matches in the dropped prefix
    let k := m.attrs.length - mm.attrs.length
    let visited := ((m.attrs.take k).filter (fun a => a.typ == t)).length
    feCallback failAt clobber visited mm
  Msg.forEach m t f

def stepCodec (s : CState) (toks : List String) : Option (CState × String) :=
  match toks with
  | ["NEW", i, cap, seed] =>
    let m : Msg := { mem := poison (nat! seed) (nat! cap), len := 0 }
    some ((s.set (nat! i) m).setStale (nat! i) false, "ok")
  | ["NEWZ", i] => some ((s.set (nat! i) {}).setStale (nat! i) false, "ok")
  | ["DEC", i, _entry, h] =>
    let m := s.get (nat! i)
    let pre := m.setRaw (hex! h)
    let (m', _) := pre.decode
    some ((s.set (nat! i) m').setStale (nat! i) (staleAfter (s.isStale (nat! i)) pre), showDecode m' pre)
  | ["RAWDEC", i, extra, seed, h] =>
    -- m.Raw = buf[:n] of a buffer with `extra` poison bytes of spare capacity
    let data := hex! h
    let m := s.get (nat! i)
    let pre := { m with mem := data ++ poison (nat! seed) (nat! extra), len := data.length }
    let (m', _) := pre.decode
    some ((s.set (nat! i) m').setStale (nat! i) (staleAfter (s.isStale (nat! i)) pre), showDecode m' pre)
  | ["READ", i, h] =>
    let m := s.get (nat! i)
    let chunk := hex! h
    let pre := { m with mem := chunk ++ m.mem.drop chunk.length, len := chunk.length }
    let (m', _) := pre.decode
    some ((s.set (nat! i) m').setStale (nat! i) (staleAfter (s.isStale (nat! i)) pre), showDecode m' pre)
  | ["CLONE", i, j] =>
    let src := s.get (nat! i)
    let dst := s.get (nat! j)
    let pre := dst.setRaw src.raw
    let (m', _) := pre.decode
    some ((s.set (nat! j) m').setStale (nat! j) (staleAfter (s.isStale (nat! j)) pre), showDecode m' pre)
  -- the same clone, after which the harness scribbles over the source (the clone must not notice), then restores it
  | ["CLONEMUT", i, j] =>
    let src := s.get (nat! i)
    let dst := s.get (nat! j)
    let pre := dst.setRaw src.raw
    let (m', _) := pre.decode
    some ((s.set (nat! j) m').setStale (nat! j) (staleAfter (s.isStale (nat! j)) pre), showDecode m' pre)
  -- MarshalBinary / GobEncode / WriteTo hand out the raw bytes (a copy: the harness scribbles over the source before
  -- it prints what it got)
  | ["MARSHAL", i, _] => some (s, showHex (s.get (nat! i)).raw)
  | ["WRITETO", i] => some (s, showHex (s.get (nat! i)).raw)
  -- (*Message).AddTo(b): b gets m's transaction id (for crafting responses)
  | ["MSGADDTO", i, j] =>
    let m := ({ s.get (nat! j) with tid := (s.get (nat! i)).tid } : Msg).writeTransactionID
    let s' := s.set (nat! j) m
    some (s', s'.dumpS (nat! j))
  | ["ISMSG", h] => some (s, s!"{isMessage (hex! h)}")
  | ["RESET", i] => let m := (s.get (nat! i)).reset; some ((s.set (nat! i) m).setStale (nat! i) false, dump m)
  | ["SETLEN", i, n] => some (s.set (nat! i) { s.get (nat! i) with length := nat! n }, "ok")
  | ["WHDR", i] => let m := (s.get (nat! i)).writeHeader; let s' := s.set (nat! i) m; some (s', s'.dumpS (nat! i))
  | ["WLEN", i] => let m := (s.get (nat! i)).writeLength; let s' := s.set (nat! i) m; some (s', s'.dumpS (nat! i))
  | ["WTYPE", i] => let m := (s.get (nat! i)).writeType; let s' := s.set (nat! i) m; some (s', s'.dumpS (nat! i))
  | ["WTID", i] => let m := (s.get (nat! i)).writeTransactionID; let s' := s.set (nat! i) m; some (s', s'.dumpS (nat! i))
  | ["WATTRS", i] => let m := (s.get (nat! i)).writeAttributes; let s' := s.set (nat! i) m; some (s', s'.dumpS (nat! i))
  | ["DROPATTR", i, k] =>
    let m := s.get (nat! i)
    let s' := s.set (nat! i) { m with attrs := m.attrs.eraseIdx (nat! k) }
    some (s', s'.dumpS (nat! i))
  | ["ENCODE", i] => let m := (s.get (nat! i)).encode; let s' := s.set (nat! i) m; some (s', s'.dumpS (nat! i))
  | ["SETTYPE", i, me, c] =>
    let m := (s.get (nat! i)).setType (nat! me) (nat! c); let s' := s.set (nat! i) m; some (s', s'.dumpS (nat! i))
  | ["SETTID", i, h] =>
    let m := ({ s.get (nat! i) with tid := hex! h }).writeTransactionID; let s' := s.set (nat! i) m; some (s', s'.dumpS (nat! i))
  | ["ADD", i, t, h] =>
    let m := (s.get (nat! i)).add (nat! t) (hex! h); let s' := s.set (nat! i) m; some (s', s'.dumpS (nat! i))
  | ["GET", i, t] => some (s, if s.isStale (nat! i) then "stale" else showOpt ((s.get (nat! i)).get (nat! t)))
  | ["HAS", i, t] => some (s, s!"{(s.get (nat! i)).contains (nat! t)}")
  | ["EQUAL", i, j] =>
    some (s, if s.isStale (nat! i) || s.isStale (nat! j) then "stale" else s!"{(s.get (nat! i)).equal (s.get (nat! j))}")
  | ["FOREACH", i, t, failAt, clobber] =>
    if s.isStale (nat! i) then some (s, "stale") else
    let m := s.get (nat! i)
    let (m', failed, seen) := runForEach m (nat! t) (nat! failAt) (clobber == "1")
    let seenS := if seen.isEmpty then "-" else "|".intercalate (seen.map (fun w => s!"{w.length}:{showOpt ((w.head?).map (·.val))}"))
    some (s.set (nat! i) { m' with mem := m.mem, len := m.len }, s!"failed={failed} seen={seenS} A={showAttrs m'.attrs}")
  | ["TYPEVAL", me, c] => some (s, s!"{typeValue (nat! me) (nat! c)}")
  | ["READVAL", v] => let r := readValue (nat! v); some (s, s!"{r.1}/{r.2}")
  | _ => none

end Stun.Driver
