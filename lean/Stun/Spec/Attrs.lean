/-
  RFC 5389 §15 attribute value formats, written from the RFC text (independent of the Go code):
  15.1 MAPPED-ADDRESS, 15.2 XOR-MAPPED-ADDRESS, 15.6 ERROR-CODE, 15.9 UNKNOWN-ATTRIBUTES.
-/
import Stun.Basic.Bytes
namespace Stun.Spec

/-- family code: 0x01 IPv4 (4-byte address), 0x02 IPv6 (16-byte address) -/
def familyOf (addr : Bytes) : Nat := if addr.length = 16 then 2 else 1

/-- §15.1: 8 zero bits, family, port, address -/
def encMapped (addr : Bytes) (port : Nat) : Bytes := [0, UInt8.ofNat (familyOf addr)] ++ put16 port ++ addr

def xorKey (tid : Bytes) : Bytes := put32 0x2112A442 ++ tid

/-- §15.2: X-Port = port xor the 16 most significant bits of the magic cookie; X-Address = address xor
    (magic cookie ‖ transaction id) -/
def encXor (tid addr : Bytes) (port : Nat) : Bytes :=
  [0, UInt8.ofNat (familyOf addr)] ++ put16 (port ^^^ 0x2112) ++ List.zipWith (· ^^^ ·) addr (xorKey tid)

/-- §15.6: 21 reserved zero bits, class (hundreds digit, 3 bits), number (code mod 100), reason phrase -/
def encErrorCode (code : Nat) (reason : Bytes) : Bytes :=
  [0, 0, UInt8.ofNat (code / 100), UInt8.ofNat (code % 100)] ++ reason

/-- §15.9: a list of 16-bit attribute types -/
def encUnknown (ts : List Nat) : Bytes := ts.flatMap put16

/-- decoders (inverse direction, also from the RFC) -/
def decMapped (v : Bytes) : Option (Bytes × Nat) :=
  match v with
  | _ :: f :: p1 :: p2 :: addr =>
    if (f = 1 ∧ addr.length = 4) ∨ (f = 2 ∧ addr.length = 16) then some (addr, u16 p1 p2) else none
  | _ => none

def decXor (tid v : Bytes) : Option (Bytes × Nat) :=
  match v with
  | _ :: f :: p1 :: p2 :: xaddr =>
    if (f = 1 ∧ xaddr.length = 4) ∨ (f = 2 ∧ xaddr.length = 16) then
      some (List.zipWith (· ^^^ ·) xaddr (xorKey tid), u16 p1 p2 ^^^ 0x2112)
    else none
  | _ => none

def decErrorCode (v : Bytes) : Option (Nat × Bytes) :=
  match v with
  | _ :: _ :: c :: n :: reason => some (c.toNat * 100 + n.toNat, reason)
  | _ => none

def decUnknown : Bytes → Option (List Nat)
  | [] => some []
  | a :: b :: t => (decUnknown t).map (u16 a b :: ·)
  | [_] => none

end Stun.Spec
