/-
  Executable specifications of the hash primitives, written from the RFCs (RFC 3174 SHA-1, RFC 1321 MD5,
  FIPS 180-4 SHA-256, RFC 2104 HMAC). They share no code with Go's standard library; the correspondence check
  compares them with it, and `#guard`s check the RFC test vectors (those are tests, labelled as tests).
-/
import Stun.Basic.Bytes
namespace Stun.Spec

def rotl32 (x : UInt32) (n : UInt32) : UInt32 := (x <<< n) ||| (x >>> (32 - n))
def rotr32 (x : UInt32) (n : UInt32) : UInt32 := (x >>> n) ||| (x <<< (32 - n))

def be32w (a b c d : UInt8) : UInt32 :=
  (a.toUInt32 <<< 24) ||| (b.toUInt32 <<< 16) ||| (c.toUInt32 <<< 8) ||| d.toUInt32
def le32w (a b c d : UInt8) : UInt32 := be32w d c b a

def wordBE (w : UInt32) : Bytes := [(w >>> 24).toUInt8, (w >>> 16).toUInt8, (w >>> 8).toUInt8, w.toUInt8]
def wordLE (w : UInt32) : Bytes := (wordBE w).reverse

def u64BE (n : Nat) : Bytes := (List.range 8).map (fun i => UInt8.ofNat (n / 256 ^ (7 - i)))
def u64LE (n : Nat) : Bytes := (u64BE n).reverse

/-- Merkle–Damgård padding to 64-byte blocks; the length field is big- or little-endian -/
def mdPad (msg : Bytes) (lenBE : Bool) : Bytes :=
  let l := msg.length
  let k := (119 - l % 64) % 64   -- zero bytes so that l + 1 + k ≡ 56 (mod 64)
  msg ++ [0x80] ++ List.replicate k 0 ++ (if lenBE then u64BE (8 * l) else u64LE (8 * l))

def wordsOf (be : Bool) : Bytes → List UInt32
  | a :: b :: c :: d :: t => (if be then be32w a b c d else le32w a b c d) :: wordsOf be t
  | _ => []

def blocks16 : List UInt32 → List (Array UInt32)
  | [] => []
  | l => if l.length < 16 then [] else (l.take 16).toArray :: blocks16 (l.drop 16)
termination_by l => l.length
decreasing_by simp; omega

/-! ### SHA-1 (RFC 3174) -/

def sha1Schedule (blk : Array UInt32) : Array UInt32 :=
  (List.range 64).foldl (fun w i =>
    let t := i + 16
    w.push (rotl32 (w[t-3]! ^^^ w[t-8]! ^^^ w[t-14]! ^^^ w[t-16]!) 1)) blk

def sha1Block (h : Array UInt32) (blk : Array UInt32) : Array UInt32 :=
  let w := sha1Schedule blk
  let (a, b, c, d, e) := (List.range 80).foldl (fun (s : UInt32 × UInt32 × UInt32 × UInt32 × UInt32) t =>
    let (a, b, c, d, e) := s
    let (f, k) :=
      if t < 20 then ((b &&& c) ||| ((~~~ b) &&& d), (0x5A827999 : UInt32))
      else if t < 40 then (b ^^^ c ^^^ d, 0x6ED9EBA1)
      else if t < 60 then ((b &&& c) ||| (b &&& d) ||| (c &&& d), 0x8F1BBCDC)
      else (b ^^^ c ^^^ d, 0xCA62C1D6)
    let temp := rotl32 a 5 + f + e + k + w[t]!
    (temp, a, rotl32 b 30, c, d)) (h[0]!, h[1]!, h[2]!, h[3]!, h[4]!)
  #[h[0]! + a, h[1]! + b, h[2]! + c, h[3]! + d, h[4]! + e]

def sha1 (msg : Bytes) : Bytes :=
  let h := (blocks16 (wordsOf true (mdPad msg true))).foldl sha1Block
    #[0x67452301, 0xEFCDAB89, 0x98BADCFE, 0x10325476, 0xC3D2E1F0]
  h.toList.flatMap wordBE

/-! ### SHA-256 (FIPS 180-4) -/

def sha256K : Array UInt32 := #[
  0x428a2f98, 0x71374491, 0xb5c0fbcf, 0xe9b5dba5, 0x3956c25b, 0x59f111f1, 0x923f82a4, 0xab1c5ed5,
  0xd807aa98, 0x12835b01, 0x243185be, 0x550c7dc3, 0x72be5d74, 0x80deb1fe, 0x9bdc06a7, 0xc19bf174,
  0xe49b69c1, 0xefbe4786, 0x0fc19dc6, 0x240ca1cc, 0x2de92c6f, 0x4a7484aa, 0x5cb0a9dc, 0x76f988da,
  0x983e5152, 0xa831c66d, 0xb00327c8, 0xbf597fc7, 0xc6e00bf3, 0xd5a79147, 0x06ca6351, 0x14292967,
  0x27b70a85, 0x2e1b2138, 0x4d2c6dfc, 0x53380d13, 0x650a7354, 0x766a0abb, 0x81c2c92e, 0x92722c85,
  0xa2bfe8a1, 0xa81a664b, 0xc24b8b70, 0xc76c51a3, 0xd192e819, 0xd6990624, 0xf40e3585, 0x106aa070,
  0x19a4c116, 0x1e376c08, 0x2748774c, 0x34b0bcb5, 0x391c0cb3, 0x4ed8aa4a, 0x5b9cca4f, 0x682e6ff3,
  0x748f82ee, 0x78a5636f, 0x84c87814, 0x8cc70208, 0x90befffa, 0xa4506ceb, 0xbef9a3f7, 0xc67178f2]

def sha256Schedule (blk : Array UInt32) : Array UInt32 :=
  (List.range 48).foldl (fun w i =>
    let t := i + 16
    let x := w[t-15]!; let y := w[t-2]!
    let s0 := rotr32 x 7 ^^^ rotr32 x 18 ^^^ (x >>> 3)
    let s1 := rotr32 y 17 ^^^ rotr32 y 19 ^^^ (y >>> 10)
    w.push (w[t-16]! + s0 + w[t-7]! + s1)) blk

def sha256Block (h : Array UInt32) (blk : Array UInt32) : Array UInt32 :=
  let w := sha256Schedule blk
  let v := (List.range 64).foldl (fun (v : Array UInt32) t =>
    let a := v[0]!; let b := v[1]!; let c := v[2]!; let d := v[3]!
    let e := v[4]!; let f := v[5]!; let g := v[6]!; let hh := v[7]!
    let s1 := rotr32 e 6 ^^^ rotr32 e 11 ^^^ rotr32 e 25
    let ch := (e &&& f) ^^^ ((~~~ e) &&& g)
    let t1 := hh + s1 + ch + sha256K[t]! + w[t]!
    let s0 := rotr32 a 2 ^^^ rotr32 a 13 ^^^ rotr32 a 22
    let maj := (a &&& b) ^^^ (a &&& c) ^^^ (b &&& c)
    let t2 := s0 + maj
    #[t1 + t2, a, b, c, d + t1, e, f, g]) h
  (List.range 8).toArray.map (fun i => h[i]! + v[i]!)

def sha256 (msg : Bytes) : Bytes :=
  let h := (blocks16 (wordsOf true (mdPad msg true))).foldl sha256Block
    #[0x6a09e667, 0xbb67ae85, 0x3c6ef372, 0xa54ff53a, 0x510e527f, 0x9b05688c, 0x1f83d9ab, 0x5be0cd19]
  h.toList.flatMap wordBE

/-! ### MD5 (RFC 1321) -/

def md5S : Array UInt32 := #[
  7, 12, 17, 22, 7, 12, 17, 22, 7, 12, 17, 22, 7, 12, 17, 22,
  5, 9, 14, 20, 5, 9, 14, 20, 5, 9, 14, 20, 5, 9, 14, 20,
  4, 11, 16, 23, 4, 11, 16, 23, 4, 11, 16, 23, 4, 11, 16, 23,
  6, 10, 15, 21, 6, 10, 15, 21, 6, 10, 15, 21, 6, 10, 15, 21]

def md5K : Array UInt32 := #[
  0xd76aa478, 0xe8c7b756, 0x242070db, 0xc1bdceee, 0xf57c0faf, 0x4787c62a, 0xa8304613, 0xfd469501,
  0x698098d8, 0x8b44f7af, 0xffff5bb1, 0x895cd7be, 0x6b901122, 0xfd987193, 0xa679438e, 0x49b40821,
  0xf61e2562, 0xc040b340, 0x265e5a51, 0xe9b6c7aa, 0xd62f105d, 0x02441453, 0xd8a1e681, 0xe7d3fbc8,
  0x21e1cde6, 0xc33707d6, 0xf4d50d87, 0x455a14ed, 0xa9e3e905, 0xfcefa3f8, 0x676f02d9, 0x8d2a4c8a,
  0xfffa3942, 0x8771f681, 0x6d9d6122, 0xfde5380c, 0xa4beea44, 0x4bdecfa9, 0xf6bb4b60, 0xbebfbc70,
  0x289b7ec6, 0xeaa127fa, 0xd4ef3085, 0x04881d05, 0xd9d4d039, 0xe6db99e5, 0x1fa27cf8, 0xc4ac5665,
  0xf4292244, 0x432aff97, 0xab9423a7, 0xfc93a039, 0x655b59c3, 0x8f0ccc92, 0xffeff47d, 0x85845dd1,
  0x6fa87e4f, 0xfe2ce6e0, 0xa3014314, 0x4e0811a1, 0xf7537e82, 0xbd3af235, 0x2ad7d2bb, 0xeb86d391]

def md5Block (h : Array UInt32) (m : Array UInt32) : Array UInt32 :=
  let (a, b, c, d) := (List.range 64).foldl (fun (s : UInt32 × UInt32 × UInt32 × UInt32) i =>
    let (a, b, c, d) := s
    let (f, g) :=
      if i < 16 then ((b &&& c) ||| ((~~~ b) &&& d), i)
      else if i < 32 then ((d &&& b) ||| ((~~~ d) &&& c), (5 * i + 1) % 16)
      else if i < 48 then (b ^^^ c ^^^ d, (3 * i + 5) % 16)
      else (c ^^^ (b ||| (~~~ d)), (7 * i) % 16)
    let f := f + a + md5K[i]! + m[g]!
    (d, b + rotl32 f md5S[i]!, b, c)) (h[0]!, h[1]!, h[2]!, h[3]!)
  #[h[0]! + a, h[1]! + b, h[2]! + c, h[3]! + d]

def md5 (msg : Bytes) : Bytes :=
  let h := (blocks16 (wordsOf false (mdPad msg false))).foldl md5Block
    #[0x67452301, 0xefcdab89, 0x98badcfe, 0x10325476]
  h.toList.flatMap wordLE

/-! ### HMAC (RFC 2104), parametric in the hash and its block size -/

def hmac (H : Bytes → Bytes) (B : Nat) (key msg : Bytes) : Bytes :=
  let k0 := if key.length > B then H key else key
  let k := k0 ++ List.replicate (B - k0.length) 0
  let ipad := k.map (· ^^^ 0x36)
  let opad := k.map (· ^^^ 0x5c)
  H (opad ++ H (ipad ++ msg))

def hmacSHA1 (key msg : Bytes) : Bytes := hmac sha1 64 key msg
def hmacSHA256 (key msg : Bytes) : Bytes := hmac sha256 64 key msg

end Stun.Spec
