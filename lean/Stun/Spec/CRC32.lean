/-
  CRC-32 (IEEE 802.3, reflected polynomial 0xEDB88320, init and final xor 0xFFFFFFFF) as a bit-serial
  specification over `BitVec 32`.
-/
import Stun.Basic.Bytes
namespace Stun.Spec

def crcPoly : BitVec 32 := 0xEDB88320#32

/-- one shift of the reflected LFSR -/
def crcStep (c : BitVec 32) : BitVec 32 :=
  if c.getLsbD 0 then (c >>> 1) ^^^ crcPoly else c >>> 1

def crcStep8 (c : BitVec 32) : BitVec 32 :=
  crcStep (crcStep (crcStep (crcStep (crcStep (crcStep (crcStep (crcStep c)))))))

/-- absorb one byte -/
def crcByte (c : BitVec 32) (b : UInt8) : BitVec 32 :=
  crcStep8 (c ^^^ BitVec.ofNat 32 b.toNat)

def crcUpdate (c : BitVec 32) (bs : Bytes) : BitVec 32 := bs.foldl crcByte c

/-- `hash/crc32.ChecksumIEEE` -/
def crc32 (bs : Bytes) : Nat := ((crcUpdate 0xFFFFFFFF#32 bs) ^^^ 0xFFFFFFFF#32).toNat

end Stun.Spec
