/-
  CRC-32 (IEEE 802.3, reflected polynomial 0xEDB88320, init and final xor 0xFFFFFFFF) as a bit-serial
  specification over `BitVec 32`: the message is consumed one bit at a time, least-significant bit of each byte first.
-/
import Stun.Basic.Bytes
namespace Stun.Spec

def crcPoly : BitVec 32 := 0xEDB88320#32

/-- one shift of the reflected LFSR -/
def crcStep (c : BitVec 32) : BitVec 32 :=
  if c.getLsbD 0 then (c >>> 1) ^^^ crcPoly else c >>> 1

/-- absorb one message bit -/
def crcBit (c : BitVec 32) (bit : Bool) : BitVec 32 :=
  crcStep (c ^^^ (if bit then 1#32 else 0#32))

/-- the bits of a byte in the order the CRC consumes them -/
def bitsLSB (b : UInt8) : List Bool := (List.range 8).map (fun i => b.toNat.testBit i)

def bitsOf (bs : Bytes) : List Bool := bs.flatMap bitsLSB

def crcBits (c : BitVec 32) (bits : List Bool) : BitVec 32 := bits.foldl crcBit c

/-- absorb one byte -/
def crcByte (c : BitVec 32) (b : UInt8) : BitVec 32 := crcBits c (bitsLSB b)

def crcUpdate (c : BitVec 32) (bs : Bytes) : BitVec 32 := bs.foldl crcByte c

/-- `hash/crc32.ChecksumIEEE` -/
def crc32 (bs : Bytes) : Nat := ((crcUpdate 0xFFFFFFFF#32 bs) ^^^ 0xFFFFFFFF#32).toNat

end Stun.Spec
