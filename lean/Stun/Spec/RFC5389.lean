/-
  RFC 5389 message framing written as a specification, independently of the Go loop:
  a 20-byte header, then exactly `length` bytes that are a sequence of TLVs each padded to 4 bytes.
  Both a recognising form (`rfcParse`) and a generating form (`serialize`) are given.
-/
import Stun.Basic.Bytes
import Stun.Model.MsgType
namespace Stun.Spec

def cookie : Nat := 0x2112A442

/-- number of padding bytes after a value of length `n` (RFC 5389 §15) -/
def pad4 (n : Nat) : Nat := (4 - n % 4) % 4

/-- the tolerated legacy alias of XOR-MAPPED-ADDRESS -/
def compat (t : Nat) : Nat := if t = 0x8020 then 0x0020 else t

/-- one parsed attribute: type, declared length, value bytes, offset of the value from the start of the message -/
structure Attr where
  typ : Nat
  length : Nat
  val : Bytes
  off : Nat
deriving Repr, DecidableEq

/-- TLV grammar over the body: `off` is the message offset of the first byte of `body`. -/
def tlvs (off : Nat) (body : Bytes) : Option (List Attr) :=
  match body with
  | [] => some []
  | t1 :: t2 :: l1 :: l2 :: rest =>
    let len := u16 l1 l2
    let padded := len + pad4 len
    if rest.length < padded then none
    else
      match tlvs (off + 4 + padded) (rest.drop padded) with
      | none => none
      | some as => some (⟨compat (u16 t1 t2), len, rest.take len, off + 4⟩ :: as)
  | _ => none
termination_by body.length
decreasing_by simp; omega

structure Parsed where
  method : Nat
  cls : Nat
  length : Nat
  tid : Bytes
  attrs : List Attr
deriving Repr, DecidableEq

/-- RFC 5389 parse of a byte string -/
def rfcParse (bs : Bytes) : Option Parsed :=
  if bs.length < 20 then none
  else if be32 (bs.drop 4) ≠ cookie then none
  else
    let size := be16 (bs.drop 2)
    if bs.length < 20 + size then none
    else
      match tlvs 20 ((bs.drop 20).take size) with
      | none => none
      | some as =>
        let v := be16 bs
        some ⟨fig3Method v, fig3Class v, size, (bs.drop 8).take 12, as⟩

/-! ### generating form -/

/-- one attribute on the wire with explicit padding content `p` -/
def tlvBytes (typ : Nat) (val p : Bytes) : Bytes :=
  put16 typ ++ put16 val.length ++ val ++ p

/-- serialize a list of (wire type, value, padding bytes) -/
def serialize : List (Nat × Bytes × Bytes) → Bytes
  | [] => []
  | (t, v, p) :: r => tlvBytes t v p ++ serialize r

/-- padding lengths are right and lengths/types fit 16 bits -/
def PadsOK : List (Nat × Bytes × Bytes) → Prop
  | [] => True
  | (t, v, p) :: r => t < 65536 ∧ v.length < 65536 ∧ p.length = pad4 v.length ∧ PadsOK r

/-- offsets of values when serialized starting at message offset `off` -/
def attrsOf (off : Nat) : List (Nat × Bytes × Bytes) → List Attr
  | [] => []
  | (t, v, p) :: r => ⟨compat t, v.length, v, off + 4⟩ :: attrsOf (off + 4 + v.length + p.length) r

end Stun.Spec
