/-
  Tie theorems for the structural facts the extractor reads off agent.go / client.go / uri.go:
  * every Agent method takes the mutex at most once, touches the shared fields only while holding it, and invokes the
    handler after unlocking (Close, documented as the exception, invokes it while locked) — this is the atomicity
    assumption under which one Agent method is one step of `Stun.Agent` (C13, C14);
  * the same for the Client's methods over `c.t`/`c.closed` (C10–C12, C15);
  * `DialURI`'s switch, evaluated by the extractor for every (scheme, proto), equals the dial plan of the model (C17).
-/
import Stun.Gen.Generated
import Stun.Properties.C17
namespace Stun.Tie
open Stun

/-- Agent: the method set is the one modelled; one critical section each; no shared field outside it;
    only Close calls the handler with the mutex held -/
theorem agentLocks :
    Gen.agentLockFacts.map (·.method) = ["StopWithError", "Stop", "Start", "Collect", "Process", "SetHandler", "Close"] ∧
    (∀ f ∈ Gen.agentLockFacts, f.locks ≤ 1 ∧ f.unlockedAccess = [] ∧ (f.handlerLocked = true → f.method = "Close")) := by
  decide

/-- Client: `c.t` and `c.closed` are only touched under `c.mux`; no handler is invoked with it held -/
theorem clientLocks :
    (∀ f ∈ Gen.clientLockFacts, f.locks ≤ 1 ∧ f.unlockedAccess = [] ∧ f.handlerLocked = false) ∧
    (∀ m ∈ ["start", "Close", "delete", "handleAgentCallback", "Start"],
        ∃ f ∈ Gen.clientLockFacts, f.method = m ∧ f.locks = 1) := by
  decide

open C17 in
def planName : C17.DialPlan → String
  | .udp => "plain:udp" | .tcp => "plain:tcp" | .dtlsOverUdp => "dtls:udp:sni" | .tlsOverTcp => "tls:tcp:sni"
  | .unsupported => "unsupported"
def schemeX : List C17.SchemeX := [.unknown, .stun, .stuns, .turn, .turns]
def protoX : List C17.ProtoX := [.unknown, .udp, .tcp]

/-- DialURI's switch as evaluated from the source for all 15 (scheme, proto) values is the model's dial plan;
    TLS/DTLS plans pass the URI host as ServerName ("sni") -/
theorem dialTable :
    Gen.dialTable = (List.range 5).flatMap (fun s => (List.range 3).map (fun p =>
      (s, p, planName (C17.dialPlan (schemeX.getD s .unknown) (protoX.getD p .unknown))))) := by
  decide

end Stun.Tie
