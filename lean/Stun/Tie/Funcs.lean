/-
  Tie theorems for the straight-line functions the extractor translates statement by statement from the Go sources
  (message.go `MessageType.Value`/`ReadValue`, attributes.go `nearestPaddedValueLength`/`compatAttrType`,
  client.go `clientTransaction.nextTimeout`): the regenerated definition is the one the theorems were proved about.
  `<f>_untranslated = 1` says that the translator understood every statement of `<f>` (it emits `unsupported "…"`, which
  is 0, otherwise).
-/
import Stun.Gen.Generated
import Stun.Model.Decode
import Stun.Model.Client
namespace Stun.Tie
open Stun

theorem typeValue_translated : Gen.typeValue_untranslated = 1 ∧ Gen.readValue_untranslated = 1 ∧
    Gen.nearestPaddedValueLength_untranslated = 1 ∧ Gen.compatAttrType_untranslated = 1 := by decide

theorem typeValue (m c : Nat) : Gen.typeValue m c = Stun.typeValue m c := by
  simp only [Gen.typeValue, Stun.typeValue, w16]
  omega

theorem readValue (v : Nat) : Gen.readValue v = Stun.readValue v := by
  simp only [Gen.readValue, Stun.readValue, w16]
  refine Prod.ext ?_ rfl
  simp only [Nat.mod_mod]
  omega

theorem nearestPaddedValueLength (l : Nat) : Gen.nearestPaddedValueLength l = Stun.nearestPaddedValueLength l := by
  simp only [Gen.nearestPaddedValueLength, Stun.nearestPaddedValueLength, padding]
  rfl

theorem compatAttrType (v : Nat) : Gen.compatAttrType v = Stun.compatAttrType v := by
  simp only [Gen.compatAttrType, Stun.compatAttrType]
  by_cases h : v = 32800
  · subst h; decide
  · have : (v == 32800) = false := by simpa using h
    rw [this, if_neg h]; rfl

theorem nextTimeout (tx : Txn) (now : Nat) : Gen.nextTimeout tx.attempt tx.rto now = Client.nextTimeout tx now := by
  simp only [Gen.nextTimeout, Client.nextTimeout]

end Stun.Tie
