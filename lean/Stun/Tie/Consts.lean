/-
  Tie theorems: constants and tables regenerated from the repository (Stun/Gen/Generated.lean, rewritten on every run)
  equal the ones the hand-written models use. A changed constant in the Go sources breaks the named obligation.
-/
import Stun.Gen.Generated
import Stun.Model.Integrity
import Stun.Model.Client
import Stun.Model.URI
namespace Stun.Tie
open Stun

theorem magicCookie : Gen.c_magicCookie = (Stun.magicCookie : Int) := by decide
theorem attributeHeaderSize : Gen.c_attributeHeaderSize = (Stun.attributeHeaderSize : Int) := by decide
theorem messageHeaderSize : Gen.c_messageHeaderSize = (Stun.messageHeaderSize : Int) := by decide
theorem transactionIDSize : Gen.c_TransactionIDSize = (Stun.transactionIDSize : Int) := by decide
theorem padding : Gen.c_padding = (Stun.padding : Int) := by decide
theorem fingerprintXORValue : Gen.c_fingerprintXORValue = (Stun.fingerprintXORValue : Int) := by decide
theorem fingerprintSize : Gen.c_fingerprintSize = (Stun.fingerprintSize : Int) := by decide
theorem messageIntegritySize : Gen.c_messageIntegritySize = (Stun.messageIntegritySize : Int) := by decide
theorem familyIPv4 : Gen.c_familyIPv4 = (Stun.familyIPv4 : Int) := by decide
theorem familyIPv6 : Gen.c_familyIPv6 = (Stun.familyIPv6 : Int) := by decide
theorem maxUsernameB : Gen.c_maxUsernameB = (Stun.maxUsernameB : Int) := by decide
theorem maxRealmB : Gen.c_maxRealmB = (Stun.maxRealmB : Int) := by decide
theorem maxNonceB : Gen.c_maxNonceB = (Stun.maxNonceB : Int) := by decide
theorem softwareRawMaxB : Gen.c_softwareRawMaxB = (Stun.softwareRawMaxB : Int) := by decide
theorem errorCodeReasonStart : Gen.c_errorCodeReasonStart = (Stun.errorCodeReasonStart : Int) := by decide
theorem errorCodeReasonMaxB : Gen.c_errorCodeReasonMaxB = (Stun.errorCodeReasonMaxB : Int) := by decide
theorem errorCodeModulo : Gen.c_errorCodeModulo = (Stun.errorCodeModulo : Int) := by decide
theorem errorCodeBytes : Gen.c_errorCodeClassByte = 2 ∧ Gen.c_errorCodeNumberByte = 3 := by decide
theorem attrTypeSize : Gen.c_attrTypeSize = (Stun.attrTypeSize : Int) := by decide

theorem attrTypes :
    Gen.c_AttrMappedAddress = (Stun.attrMappedAddress : Int) ∧ Gen.c_AttrUsername = (Stun.attrUsername : Int) ∧
    Gen.c_AttrMessageIntegrity = (Stun.attrMessageIntegrity : Int) ∧ Gen.c_AttrErrorCode = (Stun.attrErrorCode : Int) ∧
    Gen.c_AttrUnknownAttributes = (Stun.attrUnknownAttributes : Int) ∧ Gen.c_AttrRealm = (Stun.attrRealm : Int) ∧
    Gen.c_AttrNonce = (Stun.attrNonce : Int) ∧ Gen.c_AttrXORMappedAddress = (Stun.attrXORMappedAddress : Int) ∧
    Gen.c_AttrSoftware = (Stun.attrSoftware : Int) ∧ Gen.c_AttrAlternateServer = (Stun.attrAlternateServer : Int) ∧
    Gen.c_AttrFingerprint = (Stun.attrFingerprint : Int) ∧ Gen.c_AttrResponseOrigin = (Stun.attrResponseOrigin : Int) ∧
    Gen.c_AttrOtherAddress = (Stun.attrOtherAddress : Int) := by decide

/-- the table of default error reasons -/
theorem errorReasons : Gen.errorReasons.map (fun p => (p.1.toNat, p.2)) = Stun.errorReasonsS := by rfl

/-- client defaults: RTO 300 ms, 7 retransmissions, reader buffer 1024 bytes -/
theorem clientDefaults :
    Gen.c_defaultRTO = (({} : Client).rto : Int) ∧ Gen.c_defaultMaxAttempts = (({} : Client).maxAttempts : Int) ∧
    Gen.readerBufferSize = Client.readerMsg.len ∧ Gen.readerBufferSize = Client.readerMsg.mem.length :=
  ⟨by decide, by decide, by decide, by rw [Client.readerMsg, List.length_replicate]; decide⟩

/-- default ports: 3478 for stun/turn, 5349 for stuns/turns (the strings ParseURI appends) -/
theorem defaultPorts :
    URI.Scheme.stun.defaultPort = URI.chr ':' :: URI.itoa Gen.c_DefaultPort ∧
    URI.Scheme.turn.defaultPort = URI.chr ':' :: URI.itoa Gen.c_DefaultPort ∧
    URI.Scheme.stuns.defaultPort = URI.chr ':' :: URI.itoa Gen.c_DefaultTLSPort ∧
    URI.Scheme.turns.defaultPort = URI.chr ':' :: URI.itoa Gen.c_DefaultTLSPort := by decide

theorem schemeProtoCodes :
    Gen.c_SchemeTypeUnknown = 0 ∧ Gen.c_SchemeTypeSTUN = 1 ∧ Gen.c_SchemeTypeSTUNS = 2 ∧ Gen.c_SchemeTypeTURN = 3 ∧
    Gen.c_SchemeTypeTURNS = 4 ∧ Gen.c_ProtoTypeUnknown = 0 ∧ Gen.c_ProtoTypeUDP = 1 ∧ Gen.c_ProtoTypeTCP = 2 := by decide

end Stun.Tie
