/-
  Bytes: byte lists, big-endian fields, hex I/O.
  Core Lean only (this file is linked into the driver executable).
-/
namespace Stun

abbrev Bytes := List UInt8

/-- big-endian 16-bit read of two bytes (Go: `bin.Uint16`) -/
def u16 (hi lo : UInt8) : Nat := hi.toNat * 256 + lo.toNat

/-- big-endian 32-bit read of four bytes (Go: `bin.Uint32`) -/
def u32 (a b c d : UInt8) : Nat :=
  ((a.toNat * 256 + b.toNat) * 256 + c.toNat) * 256 + d.toNat

/-- Go: `bin.PutUint16(_, uint16(n))` — truncating, as the conversion `uint16(n)` does -/
def put16 (n : Nat) : Bytes := [UInt8.ofNat (n / 256), UInt8.ofNat n]

/-- Go: `bin.PutUint32(_, uint32(n))` -/
def put32 (n : Nat) : Bytes :=
  [UInt8.ofNat (n / 16777216), UInt8.ofNat (n / 65536), UInt8.ofNat (n / 256), UInt8.ofNat n]

/-- read a big-endian 16-bit field at the head of a list (0 when too short; only used under a length guard) -/
def be16 : Bytes → Nat
  | a :: b :: _ => u16 a b
  | _ => 0

def be32 : Bytes → Nat
  | a :: b :: c :: d :: _ => u32 a b c d
  | _ => 0

theorem u16_lt (a b : UInt8) : u16 a b < 65536 := by
  unfold u16
  have := a.toNat_lt; have := b.toNat_lt
  omega

theorem u16_put16 (n : Nat) (h : n < 65536) :
    be16 (put16 n) = n := by
  simp [be16, put16, u16, UInt8.toNat_ofNat']
  omega

theorem be16_put16_append (n : Nat) (h : n < 65536) (t : Bytes) :
    be16 (put16 n ++ t) = n := by
  simp [be16, put16, u16, UInt8.toNat_ofNat']
  omega

theorem put16_length (n : Nat) : (put16 n).length = 2 := rfl
theorem put32_length (n : Nat) : (put32 n).length = 4 := rfl

theorem put16_u16 (a b : UInt8) : put16 (u16 a b) = [a, b] := by
  have ha := a.toNat_lt; have hb := b.toNat_lt
  simp only [put16, u16, List.cons.injEq, and_true]
  constructor
  · apply UInt8.toNat_inj.mp
    simp [UInt8.toNat_ofNat']; omega
  · apply UInt8.toNat_inj.mp
    simp [UInt8.toNat_ofNat']

theorem be32_put32_append (n : Nat) (h : n < 4294967296) (t : Bytes) :
    be32 (put32 n ++ t) = n := by
  simp [be32, put32, u32, UInt8.toNat_ofNat']
  omega

/-! ### hex -/

def hexDigit (n : Nat) : Char :=
  if n < 10 then Char.ofNat (48 + n) else Char.ofNat (87 + n)

def hexByte (b : UInt8) : String :=
  String.ofList [hexDigit (b.toNat / 16), hexDigit (b.toNat % 16)]

def toHex (bs : Bytes) : String :=
  String.ofList (bs.foldr (fun b acc => hexDigit (b.toNat / 16) :: hexDigit (b.toNat % 16) :: acc) [])

def hexVal (c : Char) : Option Nat :=
  if '0' ≤ c ∧ c ≤ '9' then some (c.toNat - 48)
  else if 'a' ≤ c ∧ c ≤ 'f' then some (c.toNat - 87)
  else if 'A' ≤ c ∧ c ≤ 'F' then some (c.toNat - 55)
  else none

def parseHexList : List Char → Option Bytes
  | [] => some []
  | [_] => none
  | a :: b :: t =>
    match hexVal a, hexVal b, parseHexList t with
    | some x, some y, some r => some (UInt8.ofNat (x * 16 + y) :: r)
    | _, _, _ => none

/-- `-` denotes the empty byte string on protocol lines -/
def parseHex (s : String) : Option Bytes :=
  if s == "-" then some [] else parseHexList s.toList

def showHex (bs : Bytes) : String := if bs.isEmpty then "-" else toHex bs

end Stun
