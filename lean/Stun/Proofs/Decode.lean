/-
  Helper lemmas: the Go decode loop equals the RFC TLV grammar; no slice expression of Decode can panic.
-/
import Stun.Model.Decode
import Stun.Spec.RFC5389
import Stun.Properties.C19
namespace Stun.DecodeProofs
open Stun Stun.Spec
set_option maxHeartbeats 400000

theorem npvl_eq (l : Nat) : nearestPaddedValueLength l = l + pad4 l := by
  unfold nearestPaddedValueLength pad4 padding; simp only; split <;> omega

def viewOf (a : Attr) : View := ⟨a.typ, a.length, ⟨a.off, a.length⟩⟩

theorem be16_cons (a b : UInt8) (t : Bytes) : be16 (a :: b :: t) = u16 a b := rfl

theorem loop_char (mem : Bytes) (size : Nat) :
    ∀ (n : Nat) (offset : Nat) (b : Sl) (acc : List View),
      b.len = n → b.off + b.len ≤ mem.length → offset + b.len = size →
      match tlvs b.off (Sl.bytes mem b) with
      | some as => decodeLoop mem size offset b acc = (acc ++ as.map viewOf, .ok ())
      | none => ∃ e l, decodeLoop mem size offset b acc = (l, .err e) := by
  intro n
  induction n using Nat.strongRecOn with
  | ind n ih =>
    intro offset b acc hn hcap hsz
    rw [decodeLoop]
    by_cases h0 : b.len = 0
    · have : ¬ offset < size := by omega
      simp only [this, dite_false]
      have hb : Sl.bytes mem b = [] := by simp [Sl.bytes, h0]
      rw [hb, tlvs]; simp
    · have hlt : offset < size := by omega
      simp only [hlt, dite_true]
      by_cases h4 : b.len < 4
      · simp only [attributeHeaderSize, h4, if_true]
        -- body has 1..3 bytes: tlvs = none
        have hl : (Sl.bytes mem b).length = b.len := by simp [Sl.bytes]; omega
        have : tlvs b.off (Sl.bytes mem b) = none := by
          generalize Sl.bytes mem b = body at hl
          match body, hl with
          | [], hl => simp at hl; omega
          | [_], _ => simp [tlvs]
          | [_, _], _ => simp [tlvs]
          | [_, _, _], _ => simp [tlvs]
          | _ :: _ :: _ :: _ :: _, hl => simp at hl; omega
        rw [this]; exact ⟨_, _, rfl⟩
      · have h4' : 4 ≤ b.len := by omega
        simp only [attributeHeaderSize, h4, if_false]
        -- decompose the backing array at b.off
        have hdl : (mem.drop b.off).length = mem.length - b.off := by simp
        obtain ⟨t1, t2, l1, l2, rest', hd⟩ : ∃ t1 t2 l1 l2 rest', mem.drop b.off = t1 :: t2 :: l1 :: l2 :: rest' := by
          match hm : mem.drop b.off, hdl with
          | [], h | [_], h | [_, _], h | [_, _, _], h => simp at h; omega
          | t1 :: t2 :: l1 :: l2 :: r, _ => exact ⟨t1, t2, l1, l2, r, rfl⟩
        have hrl : rest'.length = mem.length - b.off - 4 := by
          have := congrArg List.length hd; simp at this; omega
        have hs1 : b.sub? mem.length 0 2 = some ⟨b.off, 2⟩ := by
          simp [Sl.sub?]; omega
        have hs2 : b.sub? mem.length 2 4 = some ⟨b.off + 2, 2⟩ := by
          simp [Sl.sub?]; omega
        have hf : b.from? 4 = some ⟨b.off + 4, b.len - 4⟩ := by
          simp [Sl.from?]; omega
        have hd2 : mem.drop (b.off + 2) = l1 :: l2 :: rest' := by
          rw [← List.drop_drop, hd]; rfl
        have hd4 : mem.drop (b.off + 4) = rest' := by
          rw [← List.drop_drop, hd]; rfl
        simp only [hs1, hs2, hf, hd, hd2, be16_cons, npvl_eq]
        have hbody : Sl.bytes mem b = t1 :: t2 :: l1 :: l2 :: rest'.take (b.len - 4) := by
          unfold Sl.bytes; rw [hd]
          obtain ⟨k, hk⟩ : ∃ k, b.len = k + 4 := ⟨b.len - 4, by omega⟩
          rw [hk]; simp [List.take]
        rw [hbody, tlvs]
        have hrest : (rest'.take (b.len - 4)).length = b.len - 4 := by
          simp; omega
        simp only [hrest]
        by_cases hv : b.len - 4 < u16 l1 l2 + pad4 (u16 l1 l2)
        · simp only [hv, if_true]; exact ⟨_, _, rfl⟩
        · simp only [hv, if_false]
          have ht : (⟨b.off + 4, b.len - 4⟩ : Sl).to? mem.length (u16 l1 l2) = some ⟨b.off + 4, u16 l1 l2⟩ := by
            simp [Sl.to?]; omega
          have hf2 : (⟨b.off + 4, b.len - 4⟩ : Sl).from? (u16 l1 l2 + pad4 (u16 l1 l2))
              = some ⟨b.off + 4 + (u16 l1 l2 + pad4 (u16 l1 l2)), b.len - 4 - (u16 l1 l2 + pad4 (u16 l1 l2))⟩ := by
            simp [Sl.from?]; omega
          simp only [ht, hf2]
          have key := ih (b.len - 4 - (u16 l1 l2 + pad4 (u16 l1 l2))) (by omega)
            (offset + 4 + (u16 l1 l2 + pad4 (u16 l1 l2)))
            ⟨b.off + 4 + (u16 l1 l2 + pad4 (u16 l1 l2)), b.len - 4 - (u16 l1 l2 + pad4 (u16 l1 l2))⟩
            (acc ++ [⟨compatAttrType (u16 t1 t2), u16 l1 l2, ⟨b.off + 4, u16 l1 l2⟩⟩]) rfl
            (by simp only; omega) (by simp only; omega)
          have hb2 : Sl.bytes mem ⟨b.off + 4 + (u16 l1 l2 + pad4 (u16 l1 l2)), b.len - 4 - (u16 l1 l2 + pad4 (u16 l1 l2))⟩
              = (rest'.take (b.len - 4)).drop (u16 l1 l2 + pad4 (u16 l1 l2)) := by
            unfold Sl.bytes; simp only
            rw [← List.drop_drop, hd4, List.drop_take]
          rw [hb2] at key
          simp only at key
          revert key
          cases tlvs (b.off + 4 + (u16 l1 l2 + pad4 (u16 l1 l2))) ((rest'.take (b.len - 4)).drop (u16 l1 l2 + pad4 (u16 l1 l2))) with
          | none => intro key; simpa using key
          | some as =>
            intro key
            simp only [key]
            simp [viewOf, compatAttrType, compat, List.append_assoc]


theorem be16_take (l : Bytes) (n : Nat) (h : 2 ≤ n) : be16 (l.take n) = be16 l := by
  obtain ⟨k, rfl⟩ : ∃ k, n = k + 2 := ⟨n - 2, by omega⟩
  match l with
  | [] => rfl
  | [_] => rfl
  | a :: b :: t => simp [List.take, be16]

theorem be32_take (l : Bytes) (n : Nat) (h : 4 ≤ n) : be32 (l.take n) = be32 l := by
  obtain ⟨k, rfl⟩ : ∃ k, n = k + 4 := ⟨n - 4, by omega⟩
  match l with
  | [] => rfl
  | [_] => rfl
  | [_, _] => rfl
  | [_, _, _] => rfl
  | a :: b :: c :: d :: t => simp [List.take, be32]

theorem drop_take_comm (l : Bytes) (n k : Nat) : (l.take n).drop k = (l.drop k).take (n - k) := by
  rw [List.drop_take]

/-- `Decode` on `m.Raw = mem[0:len]` (any capacity) is exactly the RFC parse of the visible bytes, and never panics. -/
theorem decodeRaw_char (mem : Bytes) (len : Nat) (hcap : len ≤ mem.length) :
    match rfcParse (mem.take len) with
    | some p => decodeRaw mem len
        = (some ⟨⟨p.method, p.cls, p.length, p.tid⟩, p.attrs.map viewOf⟩, .ok ())
    | none => ∃ d e, decodeRaw mem len = (d, .err e) := by
  have hlen : (mem.take len).length = len := by simp; omega
  unfold rfcParse decodeRaw
  simp only [hlen, messageHeaderSize]
  by_cases h20 : len < 20
  · simp only [h20, if_true]; exact ⟨_, _, rfl⟩
  · simp only [h20, if_false]
    have s1 : (⟨0, len⟩ : Sl).sub? mem.length 0 2 = some ⟨0, 2⟩ := by simp [Sl.sub?]; omega
    have s2 : (⟨0, len⟩ : Sl).sub? mem.length 2 4 = some ⟨2, 2⟩ := by simp [Sl.sub?]; omega
    have s3 : (⟨0, len⟩ : Sl).sub? mem.length 4 8 = some ⟨4, 4⟩ := by simp [Sl.sub?]; omega
    simp only [s1, s2, s3]
    have e32 : be32 ((mem.take len).drop 4) = be32 (mem.drop 4) := by
      rw [drop_take_comm, be32_take _ _ (by omega)]
    have e16 : be16 ((mem.take len).drop 2) = be16 (mem.drop 2) := by
      rw [drop_take_comm, be16_take _ _ (by omega)]
    have e0 : be16 (mem.take len) = be16 mem := be16_take _ _ (by omega)
    rw [e32, e16, e0]
    simp only [List.drop_zero, magicCookie, cookie]
    by_cases hc : be32 (mem.drop 4) = 554869826
    · simp only [hc, ne_eq, not_true_eq_false, if_false]
      by_cases hsz : len < 20 + be16 (mem.drop 2)
      · simp only [hsz, if_true]; exact ⟨_, _, rfl⟩
      · simp only [hsz, if_false]
        have s4 : (⟨0, len⟩ : Sl).sub? mem.length 8 20 = some ⟨8, 12⟩ := by simp [Sl.sub?]; omega
        have s5 : (⟨0, len⟩ : Sl).sub? mem.length 20 (20 + be16 (mem.drop 2))
            = some ⟨20, be16 (mem.drop 2)⟩ := by simp [Sl.sub?]; omega
        simp only [s4, s5]
        have hbody : ((mem.take len).drop 20).take (be16 (mem.drop 2))
            = Sl.bytes mem ⟨20, be16 (mem.drop 2)⟩ := by
          show _ = (mem.drop 20).take (be16 (mem.drop 2))
          rw [drop_take_comm, List.take_take]; congr 1; omega
        have htid : ((mem.take len).drop 8).take 12 = (mem.drop 8).take 12 := by
          rw [drop_take_comm, List.take_take]; congr 1; omega
        rw [hbody, htid]
        have key := loop_char mem (be16 (mem.drop 2)) (be16 (mem.drop 2)) 0 ⟨20, be16 (mem.drop 2)⟩ [] rfl
          (by simp only; omega) (by simp)
        simp only at key
        rw [C19.readValue_eq_rfc]
        revert key
        cases tlvs 20 (Sl.bytes mem ⟨20, be16 (mem.drop 2)⟩) with
        | none =>
          intro key; obtain ⟨e, l, hk⟩ := key
          simp only [hk]; exact ⟨_, _, rfl⟩
        | some as =>
          intro key; simp only [key, List.nil_append]
    · simp only [hc, ne_eq, not_false_eq_true, if_true]; exact ⟨_, _, rfl⟩


theorem pad4_lt (n : Nat) : pad4 n < 4 := by unfold pad4; omega
theorem pad4_mod (n : Nat) : (n + pad4 n) % 4 = 0 := by unfold pad4; omega

theorem tlvBytes_length (t : Nat) (v p : Bytes) : (tlvBytes t v p).length = 4 + v.length + p.length := by
  simp [tlvBytes, put16]; omega

/-- completeness: every padded TLV sequence is accepted and parsed back to the same attributes -/
theorem tlvs_complete (xs : List (Nat × Bytes × Bytes)) (off : Nat) (h : PadsOK xs) :
    tlvs off (serialize xs) = some (attrsOf off xs) := by
  induction xs generalizing off with
  | nil => simp [serialize, tlvs, attrsOf]
  | cons x r ih =>
    obtain ⟨t, v, p⟩ := x
    obtain ⟨ht, hv, hp, hr⟩ := h
    have e : serialize ((t, v, p) :: r)
        = UInt8.ofNat (t / 256) :: UInt8.ofNat t :: UInt8.ofNat (v.length / 256) :: UInt8.ofNat v.length
            :: (v ++ p ++ serialize r) := by
      simp [serialize, tlvBytes, put16, List.append_assoc]
    rw [e, tlvs]
    have hl : u16 (UInt8.ofNat (v.length / 256)) (UInt8.ofNat v.length) = v.length := by
      unfold u16; simp [UInt8.toNat_ofNat']; omega
    have htt : u16 (UInt8.ofNat (t / 256)) (UInt8.ofNat t) = t := by
      unfold u16; simp [UInt8.toNat_ofNat']; omega
    simp only [hl, htt]
    have hlen : ¬ (v ++ p ++ serialize r).length < v.length + pad4 v.length := by
      simp [List.length_append]; omega
    simp only [hlen, if_false]
    have hdrop : (v ++ p ++ serialize r).drop (v.length + pad4 v.length) = serialize r := by
      rw [← hp, List.append_assoc, ← List.append_assoc v p]
      have : v.length + p.length = (v ++ p).length := by simp
      rw [this, List.drop_left]
    have htake : (v ++ p ++ serialize r).take v.length = v := by
      rw [List.append_assoc, List.take_left]
    rw [hdrop, htake, ih _ hr]
    simp [attrsOf, hp]
    congr 1; omega

/-- soundness: whatever the grammar accepts is a padded TLV sequence (with some padding content) -/
theorem tlvs_sound : ∀ (n : Nat) (body : Bytes) (off : Nat) (as : List Attr), body.length = n →
    tlvs off body = some as →
    ∃ xs, PadsOK xs ∧ body = serialize xs ∧ as = attrsOf off xs := by
  intro n
  induction n using Nat.strongRecOn with
  | ind n ih =>
    intro body off as hn h
    match body, hn, h with
    | [], _, h =>
      unfold tlvs at h; simp at h; subst h; exact ⟨[], trivial, rfl, rfl⟩
    | [_], _, h | [_, _], _, h | [_, _, _], _, h => (unfold tlvs at h; simp at h)
    | t1 :: t2 :: l1 :: l2 :: rest, hn, h =>
      rw [tlvs] at h
      by_cases hlt : rest.length < u16 l1 l2 + pad4 (u16 l1 l2)
      · simp [hlt] at h
      · simp only [hlt, if_false] at h
        cases hrec : tlvs (off + 4 + (u16 l1 l2 + pad4 (u16 l1 l2))) (rest.drop (u16 l1 l2 + pad4 (u16 l1 l2))) with
        | none => simp [hrec] at h
        | some as' =>
          simp only [hrec, Option.some.injEq] at h
          obtain ⟨xs, hok, hser, has⟩ := ih _ (by simp at hn ⊢; omega) _ _ _ rfl hrec
          let v := rest.take (u16 l1 l2)
          let p := (rest.drop (u16 l1 l2)).take (pad4 (u16 l1 l2))
          have hvl : v.length = u16 l1 l2 := by simp [v]; omega
          have hpl : p.length = pad4 (u16 l1 l2) := by simp [p]; omega
          refine ⟨(u16 t1 t2, v, p) :: xs, ⟨u16_lt _ _, by rw [hvl]; exact u16_lt _ _, by rw [hvl, hpl], hok⟩, ?_, ?_⟩
          · simp only [serialize, tlvBytes, hvl, put16_u16]
            rw [← hser]
            have : rest = v ++ p ++ rest.drop (u16 l1 l2 + pad4 (u16 l1 l2)) := by
              simp only [v, p]
              rw [List.append_assoc, ← List.drop_drop, List.take_append_drop, List.take_append_drop]
            simp only [List.cons_append, List.nil_append, List.append_assoc]
            rw [List.append_assoc] at this
            rw [← this]
          · rw [← h]
            simp only [attrsOf, hvl, hpl]
            have : off + 4 + u16 l1 l2 + pad4 (u16 l1 l2) = off + 4 + (u16 l1 l2 + pad4 (u16 l1 l2)) := by omega
            rw [this, ← has]


/-- offsets of parsed attributes form the TLV chain from `pos` to `endp` -/
def AChain (endp : Nat) : Nat → List Attr → Prop
  | pos, [] => pos = endp
  | pos, a :: r => a.off = pos + 4 ∧ a.val.length = a.length ∧ a.length < 65536 ∧
      AChain endp (a.off + a.length + pad4 a.length) r

theorem serialize_cons_length (t : Nat) (v p : Bytes) (r) :
    (serialize ((t, v, p) :: r)).length = 4 + v.length + p.length + (serialize r).length := by
  simp [serialize, tlvBytes, put16]; omega

theorem attrsOf_chain (xs : List (Nat × Bytes × Bytes)) (off : Nat) (h : PadsOK xs) :
    AChain (off + (serialize xs).length) off (attrsOf off xs) := by
  induction xs generalizing off with
  | nil => simp [AChain, attrsOf, serialize]
  | cons x r ih =>
    obtain ⟨t, v, p⟩ := x
    obtain ⟨ht, hv, hp, hr⟩ := h
    simp only [attrsOf, AChain, true_and]
    refine ⟨hv, ?_⟩
    have := ih (off + 4 + v.length + p.length) hr
    rw [serialize_cons_length]
    rw [hp] at this ⊢
    have e : off + 4 + v.length + pad4 v.length + (serialize r).length
        = off + (4 + v.length + pad4 v.length + (serialize r).length) := by omega
    rw [e] at this; exact this

/-- values are the bytes at their offsets in the whole message -/
theorem attrsOf_vals (xs : List (Nat × Bytes × Bytes)) (pre suf : Bytes) :
    ∀ a ∈ attrsOf pre.length xs, a.val = ((pre ++ serialize xs ++ suf).drop a.off).take a.length := by
  induction xs generalizing pre with
  | nil => simp [attrsOf]
  | cons x r ih =>
    obtain ⟨t, v, p⟩ := x
    intro a ha
    simp only [attrsOf, List.mem_cons] at ha
    rcases ha with rfl | ha
    · simp only [serialize, tlvBytes]
      have : pre ++ (put16 t ++ put16 v.length ++ v ++ p ++ serialize r) ++ suf
          = (pre ++ put16 t ++ put16 v.length) ++ (v ++ (p ++ serialize r ++ suf)) := by
        simp [List.append_assoc]
      rw [this]
      have hl : (pre ++ put16 t ++ put16 v.length).length = pre.length + 4 := by simp [put16]
      rw [← hl, List.drop_left, List.take_left]
    · have hl : (pre ++ tlvBytes t v p).length = pre.length + 4 + v.length + p.length := by
        simp [tlvBytes, put16]; omega
      have := ih (pre ++ tlvBytes t v p) a (by rw [hl]; exact ha)
      rw [this]
      simp [serialize, List.append_assoc]

theorem AChain_bounds (endp : Nat) : ∀ (as : List Attr) (pos : Nat), AChain endp pos as →
    pos ≤ endp ∧ ∀ a ∈ as, pos + 4 ≤ a.off ∧ a.off + a.length + pad4 a.length ≤ endp := by
  intro as
  induction as with
  | nil => intro pos h; simp [AChain] at h; simp [h]
  | cons a r ih =>
    intro pos h
    obtain ⟨h1, h2, h3, h4⟩ := h
    obtain ⟨hle, hall⟩ := ih _ h4
    refine ⟨by omega, ?_⟩
    intro b hb
    simp only [List.mem_cons] at hb
    rcases hb with rfl | hb
    · exact ⟨by omega, by omega⟩
    · have := hall b hb; exact ⟨by omega, this.2⟩

theorem AChain_pairwise (endp : Nat) : ∀ (as : List Attr) (pos : Nat), AChain endp pos as →
    as.Pairwise (fun a b => a.off + a.length + pad4 a.length + 4 ≤ b.off) := by
  intro as
  induction as with
  | nil => intro _ _; exact List.Pairwise.nil
  | cons a r ih =>
    intro pos h
    obtain ⟨h1, h2, h3, h4⟩ := h
    refine List.Pairwise.cons ?_ (ih _ h4)
    intro b hb
    have := (AChain_bounds endp r _ h4).2 b hb
    omega

end Stun.DecodeProofs
