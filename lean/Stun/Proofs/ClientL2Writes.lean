/-
  L2 write budget (C11): `pot` = budget of the registered transactions + one unit per call suspended at
  ClientAgent.Start. `run2_budget`: over every L2 history, writes for handler `h` + potential ≤ potential + (M+1) per
  Start with `h`.
-/
import Stun.Proofs.ClientL2Acct
import Stun.Proofs.ClientWrites
namespace Stun.ClientProofs
open Stun Stun.Client
set_option maxHeartbeats 800000

/-! ## L2 write budget

  `pot` = attempts left over the registered transactions of handler `h` (`budget`) + one unit for every call of `h`
  suspended at `ClientAgent.Start` (it has advanced the attempt counter and has not written yet). Every write for `h`
  is paid by one unit of `pot` or by the `M + 1` units of a `Start` with that handler. -/

def owed (h : Nat) (l : List Susp) : Nat := (l.filter (fun s => s.kind == .agentStart && s.h == h)).length

def pot (M h : Nat) (k : Client2) : Nat := budget M h k.c + owed h k.susp

structure Bud (M h : Nat) (k : Client2) (r : Client2 × List COut) : Prop where
  le : wr h r.2 + pot M h r.1 ≤ pot M h k
  cfg : r.1.c.maxAttempts = k.c.maxAttempts

theorem owed_append (h : Nat) (a b : List Susp) : owed h (a ++ b) = owed h a + owed h b := by
  simp [owed, List.filter_append]

theorem owed_cons (h : Nat) (s : Susp) (l : List Susp) :
    owed h (s :: l) = (if (s.kind == .agentStart && s.h == h) = true then 1 else 0) + owed h l := by
  unfold owed
  by_cases hp : (s.kind == .agentStart && s.h == h) = true
  · simp only [List.filter_cons, hp, if_true, List.length_cons]; omega
  · simp only [List.filter_cons, hp, Bool.false_eq_true, if_false]; omega

/-- changing what waits behind the last suspended call changes nothing owed -/
theorem owed_setRest (h : Nat) (l : List Susp) (r : List (TID × CEv)) :
    owed h (l.dropLast ++ (l.getLast?.map (fun s => { s with rest := r })).toList) = owed h l := by
  cases hl : l.getLast? with
  | none =>
    have : l = [] := by simpa using hl
    subst this; rfl
  | some last =>
    have hne : l ≠ [] := by intro e; subst e; simp at hl
    have hg : l.getLast hne = last := by
      rw [List.getLast?_eq_some_getLast hne] at hl; exact Option.some.inj hl
    have hsplit := List.dropLast_concat_getLast hne
    rw [hg] at hsplit
    simp only [Option.map_some, Option.toList_some]
    conv => rhs; rw [← hsplit]
    rw [owed_append, owed_append]
    congr 1
    rw [owed_cons, owed_cons]

theorem budget_erase_le (M h : Nat) (c : Client) (hi : TInv c) (id : TID) : budget M h (c.erase id) ≤ budget M h c := by
  cases hl : c.lookup id with
  | some tx => have := budget_erase M h c hi id tx hl; omega
  | none =>
    have hk : id ∉ ckeys c := (lookup_none_iff c id).mp hl
    have : (c.erase id).t = c.t := by
      show c.t.filter (fun p => p.1 != id) = c.t
      rw [List.filter_eq_self]
      intro p hp
      have : p.1 ≠ id := fun e => hk (List.mem_map.mpr ⟨p, hp, e⟩)
      simpa using this
    rw [budget_congr M h c _ this]; exact Nat.le_refl _

theorem bud_of_l1 (M h : Nat) (k : Client2) (r : Client × List COut)
    (hb : wr h r.2 + budget M h r.1 ≤ budget M h k.c) (hc : r.1.maxAttempts = k.c.maxAttempts) :
    Bud M h k (k.lift r) :=
  ⟨by show wr h r.2 + (budget M h r.1 + owed h k.susp) ≤ budget M h k.c + owed h k.susp; omega, hc⟩

theorem callback2_bud (M h : Nat) (S) (k : Client2) (hk : Inv2 S k) (hM : k.c.maxAttempts = M) (id : TID) (e : CEv) :
    Bud M h k ((k.callback id e).1, (k.callback id e).2.1) := by
  have hcb := bud_of_l1 M h k _ (callback_budget M h k.c hk.inv hM id e)
    (callback_spec S k.c hk.inv hk.from_ id e).cfgSame.1
  unfold Client2.callback
  simp only
  cases hl : k.c.lookup id with
  | none => exact hcb
  | some tx =>
    simp only
    obtain ⟨htxid, _⟩ := found_facts S k.c hk.inv hk.from_ id tx hl
    obtain ⟨r1, _, _, r4⟩ := reinsert_facts S k.c hk.inv hk.from_ id tx hl
    have hbe := budget_erase M h k.c hk.inv id tx hl
    have hbi := budget_insert M h (k.c.erase id) { tx with attempt := tx.attempt + 1 }
    by_cases hdone : (k.c.closed || decide (k.c.maxAttempts ≤ tx.attempt) || e.isMsg) = true
    · simp only [hdone, if_true]; exact hcb
    · simp only [hdone, Bool.false_eq_true, if_false]
      have hleft : tx.attempt < M := by
        simp only [Bool.or_eq_true, decide_eq_true_eq, not_or] at hdone
        omega
      by_cases hba : k.blockAgentIds.contains id = true
      · simp only [hba, if_true]
        refine ⟨?_, rfl⟩
        simp only [Client.retransmitPre, wr_nil, pot, owed_append, owed_cons]
        by_cases hh : (tx.h == h) = true
        · simp only [hh, if_true] at hbe hbi ⊢
          simp only [owed, List.filter_nil, List.length_nil, beq_self_eq_true, Bool.true_and, if_true]
          omega
        · simp only [hh, Bool.false_eq_true, if_false] at hbe hbi ⊢
          simp only [owed, List.filter_nil, List.length_nil, Bool.and_false, Bool.false_eq_true, if_false]
          omega
      · simp only [hba, Bool.false_eq_true, if_false]
        by_cases hbw : k.blockIds.contains id = true
        · simp only [hbw, if_true]
          unfold Client.retransmitBegin
          simp only
          cases hr : (((k.c.erase id).insert { tx with attempt := tx.attempt + 1 }).agent.start id
              (nextTimeout { tx with attempt := tx.attempt + 1 }
                ((k.c.erase id).insert { tx with attempt := tx.attempt + 1 }).now)).2 with
          | some err =>
            simp only
            refine ⟨?_, rfl⟩
            have hb2 := budget_erase M h _ r1 id _ r4
            simp only [wr_call, pot]
            show 0 + (budget M h (((k.c.erase id).insert { tx with attempt := tx.attempt + 1 }).erase id) + owed h k.susp) ≤ _
            simp only at hb2 hbi hbe
            omega
          | none =>
            simp only
            refine ⟨?_, rfl⟩
            simp only [wr_write, pot, owed_append, owed_cons]
            show _ + (budget M h ((k.c.erase id).insert { tx with attempt := tx.attempt + 1 }) + _) ≤ _
            have hk0 : owed h ([] : List Susp) = 0 := rfl
            have hkind : ((SuspKind.retransmit == SuspKind.agentStart) && (tx.h == h)) = false := by simp
            simp only [hk0, hkind, Bool.false_eq_true, if_false]
            by_cases hh : (tx.h == h) = true
            · simp only [hh, if_true] at hbe hbi ⊢; omega
            · simp only [hh, Bool.false_eq_true, if_false] at hbe hbi ⊢; omega
        · simp only [hbw, Bool.false_eq_true, if_false]; exact hcb

theorem bud_nil (M h : Nat) (k : Client2) : Bud M h k (k, []) := ⟨by simp [wr_nil], rfl⟩

theorem bud_trans (M h : Nat) (k : Client2) (r1 r2 : Client2 × List COut) (b1 : Bud M h k r1) (b2 : Bud M h r1.1 r2) :
    Bud M h k (r2.1, r1.2 ++ r2.2) :=
  ⟨by rw [wr_append]; have := b1.le; have := b2.le; simp only at *; omega, by rw [b2.cfg, b1.cfg]⟩

theorem callbacks2_bud (M h : Nat) (S) (evs : List (TID × CEv)) (k : Client2) (hk : Inv2 S k) (hM : k.c.maxAttempts = M) :
    Bud M h k (k.callbacks evs) := by
  induction evs generalizing k with
  | nil => exact bud_nil M h k
  | cons ev r ih =>
    obtain ⟨id, e⟩ := ev
    have a1 := callback2_acct S k hk id e
    have b1 := callback2_bud M h S k hk hM id e
    unfold Client2.callbacks
    rcases hcb : k.callback id e with ⟨k1, o1, b⟩
    rw [hcb] at a1 b1
    simp only at a1 b1
    cases b with
    | true =>
      simp only
      refine ⟨?_, b1.cfg⟩
      have := b1.le
      simp only [pot, owed_setRest] at this ⊢
      exact this
    | false =>
      simp only
      exact bud_trans M h k (k1, o1) (k1.callbacks r) b1 (ih k1 a1.inv2 (by rw [b1.cfg, hM]))

theorem tick2_bud (M h : Nat) (S) (k : Client2) (hk : Inv2 S k) (hM : k.c.maxAttempts = M) (t : Nat) :
    Bud M h k (k.tick t) := by
  unfold Client2.tick
  simp only
  have hk' : Inv2 S { k with c := { k.c with now := t, agent := (({ k.c with now := t } : Client).agent.collect t).1 } } :=
    ⟨⟨hk.inv.keyId, hk.inv.nodup⟩, fun p hp => hk.from_ p hp, hk.susp⟩
  have := callbacks2_bud M h S ((({ k.c with now := t } : Client).agent.collect t).2.2.map (fun (e : AEvent) => (e.id, CEv.timeout))) _ hk' hM
  exact ⟨this.le, this.cfg⟩

/-! ### second halves -/

structure PieceB (M h : Nat) (c : Client) (extra : Nat) (r : Client × List COut) : Prop where
  le : wr h r.2 + budget M h r.1 ≤ budget M h c + extra
  cfg : r.1.maxAttempts = c.maxAttempts

theorem retransmitEnd_bud (M h : Nat) (c : Client) (hi : TInv c) (s : Susp) (ok : Bool) :
    PieceB M h c 0 (Client.retransmitEnd c s ok) := by
  unfold Client.retransmitEnd
  cases ok with
  | true => exact ⟨by simp [wr_nil], rfl⟩
  | false =>
    simp only [Bool.false_eq_true, if_false]
    refine ⟨?_, rfl⟩
    have := budget_erase_le M h c hi s.id
    simp only [wr_call]
    show 0 + budget M h (c.erase s.id) ≤ _
    omega

theorem retransmitPost_bud (M h : Nat) (c : Client) (hi : TInv c) (s : Susp) (inject : Bool) :
    PieceB M h c (if (s.h == h) = true then 1 else 0) (Client.retransmitPost c s inject) := by
  unfold Client.retransmitPost
  simp only
  have hle := budget_erase_le M h c hi s.id
  generalize (if inject = true then some AErr.closed else (c.agent.start s.id s.deadline).2) = err
  cases err with
  | some e =>
    simp only
    by_cases hst : (c.lookup s.id != some s.tx) = true
    · simp only [hst, if_true]
      exact ⟨by show wr h [] + budget M h c ≤ _; simp only [wr_nil]; omega, rfl⟩
    · simp only [hst, Bool.false_eq_true, if_false]
      refine ⟨?_, rfl⟩
      show wr h [COut.call s.h s.id _] + budget M h (c.erase s.id) ≤ _
      simp only [wr_call]; omega
  | none =>
    simp only
    have htw : ({ c with agent := (c.agent.start s.id s.deadline).1 }.connWrite s.tx.raw).1.t = c.t :=
      connWrite_t { c with agent := (c.agent.start s.id s.deadline).1 } s.tx.raw
    have hcfg := (connWrite_cfg { c with agent := (c.agent.start s.id s.deadline).1 } s.tx.raw)
    have hb := budget_congr M h c _ htw
    have hi' := tinv_congr c _ htw hi
    by_cases hw : ({ c with agent := (c.agent.start s.id s.deadline).1 }.connWrite s.tx.raw).2 = true
    · simp only [hw, if_true]
      refine ⟨?_, hcfg.1⟩
      show wr h [COut.write s.tx.raw (some s.h)] + budget M h _ ≤ _
      rw [wr_write, hb]; omega
    · simp only [hw, Bool.false_eq_true, if_false]
      by_cases hst : (({ c with agent := (c.agent.start s.id s.deadline).1 }.connWrite s.tx.raw).1.lookup s.id != some s.tx) = true
      · simp only [hst, if_true]
        refine ⟨?_, hcfg.1⟩
        show wr h [COut.write s.tx.raw (some s.h)] + budget M h _ ≤ _
        rw [wr_write, hb]; omega
      · simp only [hst, Bool.false_eq_true, if_false]
        refine ⟨?_, hcfg.1⟩
        have hle2 := budget_erase_le M h _ hi' s.id
        show wr h [COut.write s.tx.raw (some s.h), COut.call s.h s.id _] +
          budget M h (({ c with agent := (c.agent.start s.id s.deadline).1 }.connWrite s.tx.raw).1.erase s.id) ≤ _
        rw [wr_write_call]
        omega

theorem release2_bud (M h : Nat) (S) (k : Client2) (hk : Inv2 S k) (hM : k.c.maxAttempts = M) (ok : Bool) :
    Bud M h k (k.release ok) := by
  unfold Client2.release
  cases hsu : k.susp with
  | nil => exact bud_nil M h k
  | cons s rest =>
    simp only
    have hs := hk.susp s (by rw [hsu]; exact List.mem_cons_self)
    have hk0 : Inv2 S { k with susp := rest } :=
      ⟨hk.inv, hk.from_, fun x hx => hk.susp x (by rw [hsu]; exact List.mem_cons_of_mem _ hx)⟩
    have hpot : pot M h k = budget M h k.c + ((if (s.kind == .agentStart && s.h == h) = true then 1 else 0) + owed h rest) := by
      unfold pot; rw [hsu, owed_cons]
    have a1 : Acct S k
        (if s.kind == .agentStart then ({ k with susp := rest }).lift (Client.retransmitPost k.c s (!ok))
         else if !ok && (k.c.lookup s.id != some s.tx) then ({ k with susp := rest }, [])
         else ({ k with susp := rest }).lift (Client.retransmitEnd k.c s ok)) := by
      split
      · exact acct_of_piece S k { k with susp := rest } rfl hk0 _ (retransmitPost_piece S k.c hk.inv hk.from_ s hs (!ok))
      · split
        · exact ⟨hk0, fun h => by simp [calls], by simp⟩
        · rename_i hst
          refine acct_of_piece S k { k with susp := rest } rfl hk0 _ (retransmitEnd_piece S k.c hk.inv hk.from_ s hs ok ?_)
          intro hok
          subst hok
          exact bne_false_eq _ _ (by simpa using hst)
    have b1 : Bud M h k
        (if s.kind == .agentStart then ({ k with susp := rest }).lift (Client.retransmitPost k.c s (!ok))
         else if !ok && (k.c.lookup s.id != some s.tx) then ({ k with susp := rest }, [])
         else ({ k with susp := rest }).lift (Client.retransmitEnd k.c s ok)) := by
      split
      · rename_i hkind
        have p := retransmitPost_bud M h k.c hk.inv s (!ok)
        refine ⟨?_, p.cfg⟩
        rw [hpot]
        have := p.le
        have hkd : (s.kind == SuspKind.agentStart && s.h == h) = (s.h == h) := by
          have : (s.kind == SuspKind.agentStart) = true := by simpa using hkind
          rw [this, Bool.true_and]
        rw [hkd]
        show wr h (Client.retransmitPost k.c s (!ok)).2 + (budget M h (Client.retransmitPost k.c s (!ok)).1 + owed h rest) ≤ _
        omega
      · split
        · refine ⟨?_, rfl⟩
          rw [hpot]
          show wr h [] + (budget M h k.c + owed h rest) ≤ _
          simp only [wr_nil]; omega
        · have p := retransmitEnd_bud M h k.c hk.inv s ok
          refine ⟨?_, p.cfg⟩
          rw [hpot]
          have := p.le
          show wr h (Client.retransmitEnd k.c s ok).2 + (budget M h (Client.retransmitEnd k.c s ok).1 + owed h rest) ≤ _
          omega
    exact bud_trans M h k _ _ b1 (callbacks2_bud M h S s.rest _ a1.inv2 (by rw [b1.cfg, hM]))

/-! ### whole steps -/

structure Step2B (M h : Nat) (k : Client2) (op : COp2) (r : Client2 × Option CErr × List COut) : Prop where
  le : wr h r.2.2 + pot M h r.1 ≤ pot M h k + (M + 1) * ((starts2Of [op]).filter (fun x => x.1 == h)).length
  cfg : r.1.c.maxAttempts = k.c.maxAttempts

theorem step2b_of_bud (M h : Nat) (k : Client2) (op : COp2) (r : Client2 × List COut) (e : Option CErr)
    (b : Bud M h k r) (hno : starts2Of [op] = []) : Step2B M h k op (r.1, e, r.2) :=
  ⟨by rw [hno]; have := b.le; simp only [List.filter_nil, List.length_nil] at *; omega, b.cfg⟩

theorem startBlocked_bud (M h : Nat) (S) (k : Client2) (hk : Inv2 S k) (id : TID) (raw : Bytes) (h0 : Nat) :
    Step2B M h k (.startBlocked id raw h0) (k.startBlocked id raw h0) := by
  have hcnt : ((starts2Of [COp2.startBlocked id raw h0]).filter (fun x => x.1 == h)).length = if (h0 == h) = true then 1 else 0 := by
    by_cases hh : h0 = h <;> simp [starts2Of, hh]
  unfold Client2.startBlocked Client.startBegin
  by_cases hc : k.c.closed = true
  · simp only [hc, if_true]
    exact ⟨by show wr h [] + pot M h k ≤ _; simp only [wr_nil]; omega, rfl⟩
  · simp only [hc, Bool.false_eq_true, if_false]
    by_cases hex : (k.c.lookup id).isSome = true
    · simp only [hex, if_true]
      exact ⟨by show wr h [] + pot M h k ≤ _; simp only [wr_nil]; omega, rfl⟩
    · simp only [hex, Bool.false_eq_true, if_false]
      have hkey : id ∉ ckeys k.c := by rw [← lookup_iff]; exact hex
      have hi1 := tinv_insert k.c ⟨id, 0, k.c.rto, raw, h0, k.c.now⟩ hk.inv hkey
      have hb1 := budget_insert M h k.c ⟨id, 0, k.c.rto, raw, h0, k.c.now⟩
      have hl1 : (k.c.insert ⟨id, 0, k.c.rto, raw, h0, k.c.now⟩).lookup id = some ⟨id, 0, k.c.rto, raw, h0, k.c.now⟩ :=
        lookup_insert_self k.c ⟨id, 0, k.c.rto, raw, h0, k.c.now⟩ hkey
      simp only at hb1
      rcases hst : (k.c.insert ⟨id, 0, k.c.rto, raw, h0, k.c.now⟩).agent.start id
          (nextTimeout ⟨id, 0, k.c.rto, raw, h0, k.c.now⟩ (⟨id, 0, k.c.rto, raw, h0, k.c.now⟩ : Txn).start) with ⟨a, err⟩
      cases err with
      | some er =>
        simp only
        refine ⟨?_, rfl⟩
        have he := budget_erase_le M h _ hi1 id
        show wr h [] + (budget M h ((k.c.insert ⟨id, 0, k.c.rto, raw, h0, k.c.now⟩).erase id) + owed h k.susp) ≤
          (budget M h k.c + owed h k.susp) + _
        have he2 := budget_erase M h _ hi1 id _ hl1
        simp only at he2
        rw [hcnt, wr_nil]
        by_cases hh : (h0 == h) = true
        · simp only [hh, if_true] at he2 hb1 ⊢; omega
        · simp only [hh, Bool.false_eq_true, if_false] at he2 hb1 ⊢; omega
      | none =>
        simp only
        refine ⟨?_, rfl⟩
        show wr h [COut.write raw (some h0)] + (budget M h (k.c.insert ⟨id, 0, k.c.rto, raw, h0, k.c.now⟩) +
          owed h (k.susp ++ [{ kind := .start, h := h0, id := id, tx := ⟨id, 0, k.c.rto, raw, h0, k.c.now⟩ }])) ≤
          (budget M h k.c + owed h k.susp) + _
        rw [hcnt, wr_write, owed_append, owed_cons]
        have hk0 : owed h ([] : List Susp) = 0 := rfl
        have hkind : ((SuspKind.start == SuspKind.agentStart) && (h0 == h)) = false := by simp
        simp only [hk0, hkind, Bool.false_eq_true, if_false]
        by_cases hh : (h0 == h) = true
        · simp only [hh, if_true] at hb1 ⊢; omega
        · simp only [hh, Bool.false_eq_true, if_false] at hb1 ⊢; omega

theorem releaseStart_bud (M h : Nat) (S) (k : Client2) (hk : Inv2 S k) (ok : Bool)
    (hkind : (k.susp.head?.map (·.kind)) = some SuspKind.start) :
    Step2B M h k (.release ok) ((k.releaseStart ok).1, (k.releaseStart ok).2, []) := by
  have hno : starts2Of [COp2.release ok] = [] := rfl
  unfold Client2.releaseStart
  cases hsu : k.susp with
  | nil => rw [hsu] at hkind; simp at hkind
  | cons s rest =>
    simp only
    rw [hsu] at hkind
    have hsk : s.kind = .start := by simpa using hkind
    have hpot : pot M h k = budget M h k.c + owed h rest := by
      unfold pot; rw [hsu, owed_cons, hsk]; simp
    unfold Client.startEnd
    cases ok with
    | true =>
      simp only [if_true]
      refine ⟨?_, rfl⟩
      rw [hpot, hno]
      show wr h [] + (budget M h k.c + owed h rest) ≤ _
      simp only [wr_nil, List.filter_nil, List.length_nil]; omega
    | false =>
      simp only [Bool.false_eq_true, if_false]
      refine ⟨?_, rfl⟩
      have := budget_erase_le M h k.c hk.inv s.id
      rw [hpot, hno]
      show wr h [] + (budget M h (k.c.erase s.id) + owed h rest) ≤ _
      simp only [wr_nil, List.filter_nil, List.length_nil]; omega

theorem deliverDecoded_bud (M h : Nat) (S) (k : Client2) (hk : Inv2 S k) (hM : k.c.maxAttempts = M) (tid : TID) (raw : Bytes) :
    Bud M h k (k.lift (k.c.deliverDecoded tid raw)) := by
  unfold Client.deliverDecoded
  split
  · exact bud_nil M h k
  · have hi' : TInv { k.c with agent := (k.c.agent.process tid).1 } := ⟨hk.inv.keyId, hk.inv.nodup⟩
    have hb := callback_budget M h { k.c with agent := (k.c.agent.process tid).1 } hi' hM tid (.msg raw)
    have hs := callback_spec S { k.c with agent := (k.c.agent.process tid).1 } hi' (fun p hp => hk.from_ p hp) tid (.msg raw)
    exact bud_of_l1 M h k _ hb hs.cfgSame.1

theorem step2_bud (M h : Nat) (S) (k : Client2) (hk : Inv2 S k) (hM : k.c.maxAttempts = M) (op : COp2) :
    Step2B M h k op (k.step op) := by
  cases op with
  | l1 op1 =>
    have hl1 : Step2B M h k (.l1 op1) ({ k with c := (k.c.step op1).1 }, (k.c.step op1).2.1, (k.c.step op1).2.2) := by
      have sb := step_budget M h S k.c hk.inv hk.from_ hM op1
      rw [← starts2Of_l1] at sb
      exact ⟨by show wr h (k.c.step op1).2.2 + (budget M h (k.c.step op1).1 + owed h k.susp) ≤ (budget M h k.c + owed h k.susp) + _; omega,
        step_maxAttempts S k.c hk.inv hk.from_ op1⟩
    cases op1 with
    | tick t => exact step2b_of_bud M h k _ (k.tick t) none (tick2_bud M h S k hk hM t) rfl
    | start id raw h => exact hl1
    | deliver d => exact hl1
    | clock t => exact hl1
    | failWrite id => exact hl1
    | setRTO r => exact hl1
    | close => exact hl1
  | blockWrite id => exact step2b_of_bud M h k _ ({ k with blockIds := k.blockIds ++ [id] }, []) none ⟨by simp [wr_nil, pot], rfl⟩ rfl
  | blockAgent id => exact step2b_of_bud M h k _ ({ k with blockAgentIds := k.blockAgentIds ++ [id] }, []) none ⟨by simp [wr_nil, pot], rfl⟩ rfl
  | release ok =>
    simp only [Client2.step]
    split
    · rename_i hkind
      exact releaseStart_bud M h S k hk ok (by simpa using hkind)
    · exact step2b_of_bud M h k _ (k.release ok) none (release2_bud M h S k hk hM ok) rfl
  | startBlocked id raw h0 => exact startBlocked_bud M h S k hk id raw h0
  | deliverDecoded tid raw =>
    exact step2b_of_bud M h k _ (k.lift (k.c.deliverDecoded tid raw)) none (deliverDecoded_bud M h S k hk hM tid raw) rfl

/-- whole L2 histories: writes for `h` + potential ≤ potential + (M+1) per `Start` with `h` -/
theorem run2_budget (M h : Nat) (ops : List COp2) : ∀ (S) (k : Client2), Inv2 S k → k.c.maxAttempts = M →
    wr h (k.run ops).2 + pot M h (k.run ops).1 ≤ pot M h k + (M + 1) * startCount2 h ops := by
  induction ops with
  | nil => intro S k _ _; simp [Client2.run, wr_nil, startCount2, starts2Of]
  | cons op r ih =>
    intro S k hk hM
    have s := step2_spec S k hk op
    have sb := step2_bud M h S k hk hM op
    have ib := ih (starts2Of [op] ++ S) (k.step op).1 s.inv2 (by rw [sb.cfg, hM])
    have hsc : startCount2 h (op :: r) = ((starts2Of [op]).filter (fun x => x.1 == h)).length + startCount2 h r := by
      unfold startCount2; rw [starts2Of_cons, List.filter_append, List.length_append]
    simp only [Client2.run, wr_append]
    rw [hsc, Nat.mul_add]
    have := sb.le
    omega

end Stun.ClientProofs
