import Stun.Proofs.CanonicalDecode
namespace Stun.BuildProofs
open Stun Stun.Msg Stun.Spec Stun.DecodeProofs
set_option maxHeartbeats 800000

/-- two message objects that agree on everything observable (but may differ in capacity and in the stale bytes
    beyond the visible length) -/
structure SameObs (m1 m2 : Msg) : Prop where
  c1 : Canonical m1
  c2 : Canonical m2
  method : m1.method = m2.method
  cls : m1.cls = m2.cls
  tid : m1.tid = m2.tid
  attrs : m1.attrs = m2.attrs

theorem SameObs.length {m1 m2 : Msg} (h : SameObs m1 m2) : m1.length = m2.length := by
  rw [h.c1.length, h.c2.length, h.attrs]

theorem SameObs.raw {m1 m2 : Msg} (h : SameObs m1 m2) : m1.raw = m2.raw := by
  rw [h.c1.raw, h.c2.raw]; simp only [headerL, h.method, h.cls, h.tid, h.attrs, h.length]

theorem adds_congr (s : Setter) (m1 m2 : Msg) (h : m1.tid = m2.tid) : Setter.adds s m1 = Setter.adds s m2 := by
  cases s <;> simp [Setter.adds, h]

theorem setType_fields (m : Msg) (me c : Nat) :
    (m.setType me c).method = me ∧ (m.setType me c).cls = c ∧ (m.setType me c).tid = m.tid ∧
    (m.setType me c).attrs = m.attrs := by
  unfold Msg.setType Msg.writeType Msg.grow; simp only; split <;> (try split) <;> exact ⟨rfl, rfl, rfl, rfl⟩

/-- every setter acts on the observable state only: same outcome, same resulting observable state -/
theorem setter_sameObs (mac : Bytes → Bytes → Bytes) (hmac : ∀ k x, (mac k x).length = 20)
    (s : Setter) (m1 m2 : Msg) (h : SameObs m1 m2) (hf : SetterFits s m1) :
    (s.addTo mac m1).2 = (s.addTo mac m2).2 ∧ SameObs (s.addTo mac m1).1 (s.addTo mac m2).1 := by
  have hf2 : SetterFits s m2 := by
    cases s <;> simp only [SetterFits, ← adds_congr _ m1 m2 h.tid, ← h.length] at hf ⊢ <;> exact hf
  have k1 := setter_canonical mac hmac s m1 h.c1 hf
  have k2 := setter_canonical mac hmac s m2 h.c2 hf2
  have gen : ∀ (s : Setter), (match s with | .msgType _ _ | .tid _ | .integrity _ | .fingerprint => False | _ => True) →
      Canonical (s.addTo mac m1).1 → Canonical (s.addTo mac m2).1 → SetterFits s m1 →
      (s.addTo mac m1).2 = (s.addTo mac m2).2 ∧ SameObs (s.addTo mac m1).1 (s.addTo mac m2).1 := by
    intro s hs k1 k2 hf
    have a1 := setter_adds mac s m1 hs
    have a2 := setter_adds mac s m2 hs
    rw [← adds_congr s m1 m2 h.tid] at a2
    cases ha : Setter.adds s m1 with
    | none =>
      rw [ha] at a1 a2
      obtain ⟨e1, he1⟩ := a1; obtain ⟨e2, he2⟩ := a2
      -- the error kind is a function of the setter's own argument
      have : e1 = e2 := by
        cases s <;> simp_all [Setter.adds, Setter.addTo, textAddToAs, xorAddToAs, mappedAddToAs, errorCodeAddTo,
          errorCodeDefaultAddTo, unknownAddTo, checkOverflow]
        all_goals (first | (split at he1 <;> split at he2 <;> simp_all) | skip)
      rw [he1, he2, this]; exact ⟨rfl, h⟩
    | some tv =>
      obtain ⟨t, v⟩ := tv
      rw [ha] at a1 a2
      rw [a1] at k1 ⊢; rw [a2] at k2 ⊢
      have hl1 := h.c1.rawLen; have hl2 := h.c2.rawLen
      have fit : m1.length + 4 + v.length + 3 < 4294967296 := by
        have : SetterFits s m1 := hf
        cases s <;> simp_all [SetterFits] <;> omega
      obtain ⟨_, _, _, _, r5, r6, r7, r8⟩ := add_spec m1 t v (by omega) h.c1.cap fit
      obtain ⟨_, _, _, _, q5, q6, q7, q8⟩ := add_spec m2 t v (by omega) h.c2.cap (by rw [← h.length]; exact fit)
      exact ⟨rfl, ⟨k1, k2, by rw [r6, q6, h.method], by rw [r7, q7, h.cls], by rw [r8, q8, h.tid], by rw [r5, q5, h.attrs]⟩⟩
  cases s with
  | msgType me c =>
    obtain ⟨f1, f2, f3, f4⟩ := setType_fields m1 me c
    obtain ⟨g1, g2, g3, g4⟩ := setType_fields m2 me c
    exact ⟨rfl, ⟨k1, k2, by simp only [Setter.addTo]; rw [f1, g1], by simp only [Setter.addTo]; rw [f2, g2],
      by simp only [Setter.addTo]; rw [f3, g3, h.tid], by simp only [Setter.addTo]; rw [f4, g4, h.attrs]⟩⟩
  | tid id =>
    exact ⟨rfl, ⟨k1, k2, h.method, h.cls, rfl, h.attrs⟩⟩
  | integrity key =>
    simp only [Setter.addTo] at k1 k2 ⊢
    by_cases hfp : m1.attrs.any (fun a => a.typ == attrFingerprint) = true
    · have hfp2 : m2.attrs.any (fun a => a.typ == attrFingerprint) = true := by rw [← h.attrs]; exact hfp
      simp only [integrityAddTo, hfp, hfp2, if_true]; exact ⟨trivial, h⟩
    · have hfp1 : m1.attrs.any (fun a => a.typ == attrFingerprint) = false := by simpa using hfp
      have hfp2 : m2.attrs.any (fun a => a.typ == attrFingerprint) = false := by rw [← h.attrs]; exact hfp1
      obtain ⟨i1, _, i3, i4, i5, i6⟩ := integrity_canonical mac hmac key m1 h.c1 hfp1 hf
      obtain ⟨j1, _, j3, j4, j5, j6⟩ := integrity_canonical mac hmac key m2 h.c2 hfp2 hf2
      refine ⟨by rw [i1, j1], ⟨k1, k2, by rw [i4, j4, h.method], by rw [i5, j5, h.cls], by rw [i6, j6, h.tid], ?_⟩⟩
      rw [i3, j3]; simp only [headerL, h.method, h.cls, h.tid, h.attrs, h.length]
  | fingerprint =>
    simp only [Setter.addTo] at k1 k2 ⊢
    obtain ⟨i1, _, i3, i4, i5, i6⟩ := fingerprint_canonical m1 h.c1 hf
    obtain ⟨j1, _, j3, j4, j5, j6⟩ := fingerprint_canonical m2 h.c2 hf2
    refine ⟨by rw [i1, j1], ⟨k1, k2, by rw [i4, j4, h.method], by rw [i5, j5, h.cls], by rw [i6, j6, h.tid], ?_⟩⟩
    rw [i3, j3]; simp only [headerL, h.method, h.cls, h.tid, h.attrs, h.length]
  | raw t v => exact gen _ trivial k1 k2 hf
  | text k v => exact gen _ trivial k1 k2 hf
  | xorAddr a ip p => exact gen _ trivial k1 k2 hf
  | mapAddr a ip p => exact gen _ trivial k1 k2 hf
  | errorCode c r => exact gen _ trivial k1 k2 hf
  | errorCodeDefault c => exact gen _ trivial k1 k2 hf
  | unknownAttrs ts => exact gen _ trivial k1 k2 hf

end Stun.BuildProofs
