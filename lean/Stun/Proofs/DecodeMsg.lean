import Stun.Proofs.Decode
import Stun.Model.Message
namespace Stun.DecodeProofs
open Stun Stun.Spec
set_option maxHeartbeats 400000

/-- everything `rfcParse` returns, unpacked -/
theorem rfcParse_some {bs : Bytes} {p : Parsed} (h : rfcParse bs = some p) :
    20 ≤ bs.length ∧ be32 (bs.drop 4) = cookie ∧ p.length = be16 (bs.drop 2) ∧ 20 + p.length ≤ bs.length ∧
    tlvs 20 ((bs.drop 20).take p.length) = some p.attrs ∧
    p.method = fig3Method (be16 bs) ∧ p.cls = fig3Class (be16 bs) ∧ p.tid = (bs.drop 8).take 12 := by
  unfold rfcParse at h
  by_cases h1 : bs.length < 20
  · simp [h1] at h
  · simp only [h1, if_false] at h
    by_cases h2 : be32 (bs.drop 4) ≠ cookie
    · simp [h2] at h
    · simp only [h2, if_false] at h
      by_cases h3 : bs.length < 20 + be16 (bs.drop 2)
      · simp [h3] at h
      · simp only [h3, if_false] at h
        cases ht : tlvs 20 ((bs.drop 20).take (be16 (bs.drop 2))) with
        | none => simp [ht] at h
        | some as =>
          simp only [ht, Option.some.injEq] at h
          subst h
          simp only [ne_eq, Decidable.not_not] at h2
          exact ⟨by omega, h2, rfl, by simp only; omega, ht, rfl, rfl, rfl⟩

/-- the value bytes `rfcParse` reports are the message's own bytes at the reported offsets -/
theorem rfcParse_vals {bs : Bytes} {p : Parsed} (h : rfcParse bs = some p) :
    ∀ a ∈ p.attrs, a.val = (bs.drop a.off).take a.length := by
  obtain ⟨h20, _, _, hsz, ht, _, _, _⟩ := rfcParse_some h
  obtain ⟨xs, hok, hser, has⟩ := tlvs_sound _ _ _ _ rfl ht
  have hpre : (bs.take 20).length = 20 := by simp; omega
  have hsplit : bs = bs.take 20 ++ serialize xs ++ bs.drop (20 + p.length) := by
    rw [← hser]
    have : bs.drop (20 + p.length) = (bs.drop 20).drop p.length := by rw [List.drop_drop]
    rw [this, List.append_assoc, List.take_append_drop, List.take_append_drop]
  intro a ha
  rw [has] at ha
  have := attrsOf_vals xs (bs.take 20) (bs.drop (20 + p.length)) a (by rw [hpre]; exact ha)
  rw [← hsplit] at this
  exact this

/-- the chain of offsets `rfcParse` reports: first value at 24, each next one after the padded previous value,
    the last one ending exactly at the declared length -/
theorem rfcParse_chain {bs : Bytes} {p : Parsed} (h : rfcParse bs = some p) :
    AChain (20 + p.length) 20 p.attrs := by
  obtain ⟨h20, _, _, hsz, ht, _, _, _⟩ := rfcParse_some h
  obtain ⟨xs, hok, hser, has⟩ := tlvs_sound _ _ _ _ rfl ht
  have := attrsOf_chain xs 20 hok
  rw [← hser, ← has] at this
  have hl : ((bs.drop 20).take p.length).length = p.length := by simp; omega
  rw [hl] at this; exact this

theorem viewToAttr_viewOf (mem : Bytes) (a : Attr) (h : a.val = (mem.drop a.off).take a.length) :
    Msg.viewToAttr mem (viewOf a) = ⟨a.typ, a.length, a.val⟩ := by
  simp [Msg.viewToAttr, viewOf, Sl.bytes, h]

def attrOfSpec (a : Attr) : RawAttr := ⟨a.typ, a.length, a.val⟩

/-- message-level: `(*Message).Decode` in terms of the RFC parse of `m.Raw`, whatever the capacity and the
    previous contents of the struct -/
theorem decode_char (m : Msg) (hcap : m.len ≤ m.mem.length) :
    match rfcParse m.raw with
    | some p => m.decode = ({ m with method := p.method, cls := p.cls, length := p.length, tid := p.tid,
                                      attrs := p.attrs.map attrOfSpec }, .ok ())
    | none => ∃ m' e, m.decode = (m', .err e) := by
  have key := decodeRaw_char m.mem m.len hcap
  unfold Msg.raw
  cases hp : rfcParse (m.mem.take m.len) with
  | none =>
    rw [hp] at key; obtain ⟨d, e, hk⟩ := key
    unfold Msg.decode; rw [hk]
    cases d with
    | none => exact ⟨_, _, rfl⟩
    | some d => exact ⟨_, _, rfl⟩
  | some p =>
    rw [hp] at key
    unfold Msg.decode; rw [key]
    simp only [List.map_map]
    have hv := rfcParse_vals hp
    have : p.attrs.map (Msg.viewToAttr m.mem ∘ viewOf) = p.attrs.map attrOfSpec := by
      apply List.map_congr_left
      intro a ha
      have h1 := hv a ha
      -- offsets are inside the visible part, so dropping from mem or from the visible prefix agrees
      have hch := rfcParse_chain hp
      have hb := (AChain_bounds _ _ _ hch).2 a ha
      obtain ⟨_, _, _, hsz, _, _, _, _⟩ := rfcParse_some hp
      have hlen : (m.mem.take m.len).length = m.len := by simp; omega
      have h2 : ((m.mem.take m.len).drop a.off).take a.length = (m.mem.drop a.off).take a.length := by
        rw [drop_take_comm, List.take_take]; congr 1; omega
      simp only [Function.comp]
      rw [viewToAttr_viewOf _ _ (by rw [← h2]; exact h1)]; rfl
    rw [this]

end Stun.DecodeProofs
