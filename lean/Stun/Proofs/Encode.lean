/-
  `Encode` (= truncate, WriteHeader, Length := 0, WriteAttributes) reproduces the canonical bytes of the struct.
-/
import Stun.Proofs.SameObs
namespace Stun.BuildProofs
open Stun Stun.Msg Stun.Spec
set_option maxHeartbeats 800000

def AttrsWF (as : List RawAttr) : Prop := ∀ a ∈ as, a.length = a.val.length ∧ a.typ < 65536 ∧ a.val.length < 65536

theorem body_append_list (x y : List RawAttr) : body (x ++ y) = body x ++ body y := by
  unfold body
  induction x with
  | nil => simp [serialize]
  | cons a r ih => simp only [List.cons_append, List.map_cons, serialize, ih, List.append_assoc]

theorem body_single (a : RawAttr) : (body [a]).length = 4 + a.val.length + pad4 a.val.length := by
  simp [body, serialize, wireOf, tlvBytes, put16, zeros]; omega

/-- re-adding a list of well-formed attributes to a canonical message appends exactly them -/
theorem fold_add_canonical (as : List RawAttr) (m : Msg) (hwf : AttrsWF as) (hC : Canonical m)
    (hfit : (body (m.attrs ++ as)).length < 65536) :
    Canonical (as.foldl (fun m a => m.add a.typ a.val) m) ∧
    (as.foldl (fun m a => m.add a.typ a.val) m).attrs = m.attrs ++ as ∧
    (as.foldl (fun m a => m.add a.typ a.val) m).method = m.method ∧
    (as.foldl (fun m a => m.add a.typ a.val) m).cls = m.cls ∧
    (as.foldl (fun m a => m.add a.typ a.val) m).tid = m.tid := by
  induction as generalizing m with
  | nil => simp only [List.foldl_nil, List.append_nil]; exact ⟨hC, trivial, trivial, trivial, trivial⟩
  | cons a r ih =>
    simp only [List.foldl_cons]
    obtain ⟨w1, w2, w3⟩ := hwf a List.mem_cons_self
    have hlen := hC.length
    have hsz : (body (m.attrs ++ a :: r)).length = (body m.attrs).length + (4 + a.val.length + pad4 a.val.length) + (body r).length := by
      have : m.attrs ++ a :: r = m.attrs ++ ([a] ++ r) := by simp
      rw [this, body_append_list, body_append_list, List.length_append, List.length_append, body_single]; omega
    have hfit1 : m.length + 4 + a.val.length + pad4 a.val.length < 65536 := by rw [hlen]; omega
    have hC1 := canonical_add m _ a.typ a.val hC w2 hfit1
    obtain ⟨_, _, _, _, r5, r6, r7, r8⟩ := add_spec m a.typ a.val (by have := hC.rawLen; omega) hC.cap
      (by have := pad4_lt' a.val.length; omega)
    have ha : (⟨a.typ, a.val.length % 65536, a.val⟩ : RawAttr) = a := by
      rw [Nat.mod_eq_of_lt w3]; cases a; simp_all
    have hattrs1 : (m.add a.typ a.val).attrs = m.attrs ++ [a] := by rw [r5, ha]
    have hfit' : (body ((m.add a.typ a.val).attrs ++ r)).length < 65536 := by
      rw [hattrs1, List.append_assoc]; simpa using hfit
    obtain ⟨i1, i2, i3, i4, i5⟩ := ih (m.add a.typ a.val) (fun x hx => hwf x (List.mem_cons_of_mem _ hx)) hC1 hfit'
    exact ⟨i1, by rw [i2, hattrs1, List.append_assoc]; rfl, by rw [i3, r6], by rw [i4, r7], by rw [i5, r8]⟩

/-- the state in which `WriteAttributes` starts inside `Encode`: a header (still carrying the old length bytes), no
    attributes, Length 0 -/
theorem encode_start (m : Msg) (htid : m.tid.length = 12) :
    CanonicalL ({ ({ m with len := 0 } : Msg).writeHeader with length := 0, attrs := [] }) (put16 m.length) ∧
    ({ ({ m with len := 0 } : Msg).writeHeader with length := 0, attrs := [] } : Msg).method = m.method ∧
    ({ ({ m with len := 0 } : Msg).writeHeader with length := 0, attrs := [] } : Msg).cls = m.cls ∧
    ({ ({ m with len := 0 } : Msg).writeHeader with length := 0, attrs := [] } : Msg).tid = m.tid := by
  obtain ⟨w1, w2, w3, w4, w5, w6, w7, w8⟩ := writeHeader_spec ({ m with len := 0 } : Msg) (Nat.zero_le _) htid
  simp only at w1 w2 w3 w4 w5 w6 w7 w8
  have e : ({ m with len := 0 } : Msg).raw.drop 20 = [] := by simp [Msg.raw]
  refine ⟨⟨w3, by simp only; rw [w8]; exact htid, rfl, ?_, by simp [body, serialize], by simp, by simp⟩, w6, w7, w8⟩
  show ({ m with len := 0 } : Msg).writeHeader.raw = _
  rw [w1, e]
  simp only [headerL, w6, w7, w8, body, serialize, List.map_nil, List.append_nil]

/-- `Encode` on a struct whose attribute list is well-formed and fits 16 bits (and whose Length is 0 if it has no
    attributes): the raw bytes are the canonical encoding of the struct, the struct's content is unchanged -/
theorem encode_canonical (m : Msg) (htid : m.tid.length = 12) (hwf : AttrsWF m.attrs)
    (hfit : (body m.attrs).length < 65536) (hne : m.attrs ≠ [] ∨ m.length = 0) :
    Canonical m.encode ∧ m.encode.attrs = m.attrs ∧ m.encode.method = m.method ∧ m.encode.cls = m.cls ∧
    m.encode.tid = m.tid := by
  obtain ⟨s0, sm, sc, st⟩ := encode_start m htid
  unfold Msg.encode Msg.writeAttributes
  simp only
  generalize hS0 : ({ ({ m with len := 0 } : Msg).writeHeader with length := 0, attrs := [] } : Msg) = S0 at *
  have hattrs0 : ({ m with len := 0 } : Msg).writeHeader.attrs = m.attrs :=
    (writeHeader_spec ({ m with len := 0 } : Msg) (Nat.zero_le _) htid).2.2.2.2.1
  rw [hattrs0]
  have hS0attrs : S0.attrs = [] := by rw [← hS0]
  have hS0len : S0.length = 0 := by rw [← hS0]
  cases hm : m.attrs with
  | nil =>
    simp only [List.foldl_nil]
    have hl : m.length = 0 := by rcases hne with h | h; exact absurd hm h; exact h
    rw [hl] at s0
    have : ({ S0 with attrs := [] } : Msg) = S0 := by cases S0; simp_all
    rw [this]
    refine ⟨?_, trivial, sm, sc, st⟩
    unfold Canonical; rw [hS0len]; exact s0
  | cons a r =>
    rw [hm] at hwf hfit
    simp only [List.foldl_cons]
    obtain ⟨w1, w2, w3⟩ := hwf a List.mem_cons_self
    have hsz : (body (a :: r)).length = (4 + a.val.length + pad4 a.val.length) + (body r).length := by
      have : a :: r = [a] ++ r := rfl
      rw [this, body_append_list, List.length_append, body_single]
    have hC1 := canonical_add S0 _ a.typ a.val s0 w2 (by rw [hS0len]; omega)
    obtain ⟨_, _, _, _, r5, r6, r7, r8⟩ := add_spec S0 a.typ a.val (by have := s0.rawLen; omega) s0.cap
      (by have := pad4_lt' a.val.length; rw [hS0len]; omega)
    have ha : (⟨a.typ, a.val.length % 65536, a.val⟩ : RawAttr) = a := by
      rw [Nat.mod_eq_of_lt w3]; cases a; simp_all
    have hattrs1 : (S0.add a.typ a.val).attrs = [a] := by rw [r5, ha, hS0attrs]; rfl
    obtain ⟨i1, i2, i3, i4, i5⟩ := fold_add_canonical r (S0.add a.typ a.val)
      (fun x hx => hwf x (List.mem_cons_of_mem _ hx)) hC1 (by rw [hattrs1]; exact hfit)
    rw [hattrs1] at i2
    have hsame : ({ (r.foldl (fun m a => m.add a.typ a.val) (S0.add a.typ a.val)) with attrs := a :: r } : Msg)
        = r.foldl (fun m a => m.add a.typ a.val) (S0.add a.typ a.val) := by
      generalize (r.foldl (fun m a => m.add a.typ a.val) (S0.add a.typ a.val)) = x at *
      cases x; simp_all
    rw [hsame]
    exact ⟨i1, trivial, by rw [i3, r6, sm], by rw [i4, r7, sc], by rw [i5, r8, st]⟩

/-- on a canonical message `Encode` reproduces the very same bytes: decode-then-encode and encode-then-encode are
    the identity on canonical raw bytes -/
theorem encode_of_canonical (m : Msg) (h : Canonical m) : m.encode.raw = m.raw ∧ Canonical m.encode := by
  have hne : m.attrs ≠ [] ∨ m.length = 0 := by
    cases ha : m.attrs with
    | nil => right; have := h.length; rw [ha] at this; simpa [body, serialize] using this
    | cons a r => left; simp
  obtain ⟨e1, e2, e3, e4, e5⟩ := encode_canonical m h.tidLen h.attrs (by rw [← h.length]; exact h.fits) hne
  exact ⟨(SameObs.raw ⟨e1, h, e3, e4, e5, e2⟩), e1⟩

end Stun.BuildProofs
