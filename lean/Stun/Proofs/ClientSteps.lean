import Stun.Proofs.ClientCallback
namespace Stun.ClientProofs
open Stun Stun.Client
set_option maxHeartbeats 800000

theorem cbSpec_withAgent (S) (c : Client) (a : Agent) (r : Client × List COut) (h : CbSpec S { c with agent := a } r) :
    CbSpec S c r :=
  ⟨h.inv, h.from_, h.count, h.closedSame, h.cfgSame, ⟨h.outs.call, h.outs.write, h.outs.writeNone, h.outs.fallback, h.outs.noConnClose⟩⟩

theorem callbacks_spec (S) (evs : List (TID × CEv)) (c : Client) (hi : TInv c) (hf : FromStarts S c) :
    CbSpec S c (c.callbacks evs) := by
  induction evs generalizing c with
  | nil =>
    exact ⟨hi, hf, fun h => by simp [Client.callbacks, calls], rfl, ⟨rfl, rfl, rfl, rfl, rfl⟩,
      ⟨by simp [Client.callbacks], by simp [Client.callbacks], by simp [Client.callbacks], by simp [Client.callbacks],
       by simp [Client.callbacks]⟩⟩
  | cons ev r ih =>
    obtain ⟨id, e⟩ := ev
    have s1 := callback_spec S c hi hf id e
    have s2 := ih (c.callback id e).1 s1.inv s1.from_
    simp only [Client.callbacks]
    refine ⟨s2.inv, s2.from_, ?_, by rw [s2.closedSame, s1.closedSame], ?_, ⟨?_, ?_, ?_, ?_, ?_⟩⟩
    · intro h; rw [calls_append]; have e1 := s1.count h; have e2 := s2.count h
      show _ + pend h ((c.callback id e).1.callbacks r).1 = _; omega
    · obtain ⟨a1, a2, a3, a4, a5⟩ := s1.cfgSame; obtain ⟨b1, b2, b3, b4, b5⟩ := s2.cfgSame
      exact ⟨by rw [b1, a1], by rw [b2, a2], by rw [b3, a3], by rw [b4, a4], by rw [b5, a5]⟩
    · intro h id' e' hm
      rcases List.mem_append.mp hm with hm | hm
      · exact s1.outs.call h id' e' hm
      · exact s2.outs.call h id' e' hm
    · intro raw h hm
      rcases List.mem_append.mp hm with hm | hm
      · exact s1.outs.write raw h hm
      · exact s2.outs.write raw h hm
    · intro raw hm
      rcases List.mem_append.mp hm with hm | hm
      · exact s1.outs.writeNone raw hm
      · exact s2.outs.writeNone raw hm
    · intro id' e' hm
      rcases List.mem_append.mp hm with hm | hm
      · exact s1.outs.fallback id' e' hm
      · have := s2.outs.fallback id' e' hm; rw [s1.cfgSame.2.2.2.1] at this; exact this
    · intro hm
      rcases List.mem_append.mp hm with hm | hm
      · exact s1.outs.noConnClose hm
      · exact s2.outs.noConnClose hm

theorem tick_spec (S) (c : Client) (hi : TInv c) (hf : FromStarts S c) (t : Nat) :
    TInv (c.tick t).1 ∧ FromStarts S (c.tick t).1 ∧ (∀ h, calls h (c.tick t).2 + pend h (c.tick t).1 = pend h c) ∧
    (c.tick t).1.closed = c.closed ∧ OutsOK S c (c.tick t).2 := by
  unfold Client.tick
  simp only
  have s := callbacks_spec S (((c.agent.collect t).2.2).map (fun e => (e.id, CEv.timeout)))
    { c with now := t, agent := (c.agent.collect t).1 } (tinv_congr c _ rfl hi) (fun p hp => hf p hp)
  exact ⟨s.inv, s.from_, s.count, s.closedSame, s.outs.call, s.outs.write, s.outs.writeNone, s.outs.fallback, s.outs.noConnClose⟩

theorem readFrom_raw (d : Bytes) : (readerMsg.readFrom d).1.raw = d.take 1024 := by
  unfold Msg.readFrom Msg.decode
  simp only [readerMsg, List.length_replicate]
  split <;> (simp only [Msg.raw]; rw [List.take_left])

theorem deliver_spec (S) (c : Client) (hi : TInv c) (hf : FromStarts S c) (d : Bytes) :
    TInv (c.deliver d).1 ∧ FromStarts S (c.deliver d).1 ∧
    (∀ h, calls h (c.deliver d).2 + pend h (c.deliver d).1 = pend h c) ∧
    (c.deliver d).1.closed = c.closed ∧ OutsOK S c (c.deliver d).2 := by
  have triv : TInv c ∧ FromStarts S c ∧ (∀ h, calls h ([] : List COut) + pend h c = pend h c) ∧ c.closed = c.closed ∧
      OutsOK S c [] :=
    ⟨hi, hf, fun h => by simp [calls], rfl, ⟨by simp, by simp, by simp, by simp, by simp⟩⟩
  unfold Client.deliver
  split
  · unfold Client.deliverDecoded
    split
    · exact triv
    · have s := callback_spec S { c with agent := (c.agent.process (readerMsg.readFrom d).1.tid).1 }
        (tinv_congr c _ rfl hi) (fun p hp => hf p hp) (readerMsg.readFrom d).1.tid (.msg (readerMsg.readFrom d).1.raw)
      exact ⟨s.inv, s.from_, s.count, s.closedSame,
        ⟨s.outs.call, s.outs.write, s.outs.writeNone, s.outs.fallback, s.outs.noConnClose⟩⟩
  · exact triv

/-- the Message a handler sees is exactly the received datagram (the first 1024 bytes fit the reader's buffer):
    any `msg` event produced by `deliver d` carries `d.take 1024` -/
theorem deliver_msg_is_datagram (c : Client) (d : Bytes) (x : COut) (hx : x ∈ (c.deliver d).2) :
    ∀ h id raw, x = .call h id (.msg raw) → raw = d.take 1024 := by
  intro h id raw hxe
  subst hxe
  unfold Client.deliver at hx
  split at hx
  · unfold Client.deliverDecoded at hx
    split at hx
    · simp at hx
    · -- the only msg event a callback can emit is the event it was given
      rw [readFrom_raw] at hx
      have : ∀ (c : Client) (tid : TID) (e : CEv) (h : Nat) (id : TID) (raw : Bytes),
          COut.call h id (.msg raw) ∈ (c.callback tid e).2 → e = .msg raw := by
        intro c tid e h id raw hm
        unfold Client.callback at hm
        split at hm
        · split at hm <;> simp at hm
        · split at hm
          · simp only [List.mem_singleton, COut.call.injEq] at hm; exact hm.2.2.symm
          · unfold Client.retransmit at hm
            simp only at hm
            split at hm
            · simp only [List.mem_singleton, COut.call.injEq] at hm
              split at hm <;> simp at hm
            · split at hm
              · simp at hm
              · simp only [List.mem_cons, reduceCtorEq, COut.call.injEq, List.not_mem_nil, or_false, false_or] at hm
                split at hm <;> simp at hm
      have := this _ _ _ _ _ _ hx
      simpa using this.symm
  · simp at hx

theorem fromStarts_mono (S S' : List (Nat × TID × Bytes)) (c : Client) (h : FromStarts S c) (hs : ∀ x ∈ S, x ∈ S') :
    FromStarts S' c := fun p hp => hs _ (h p hp)

/-- `Start` with a handler: no handler is invoked by the call itself; on success exactly one entry for the handler
    is added; on a `client closed`, `exists` (client table) or write error nothing stays registered; the only
    possible write is the message itself -/
theorem start_spec (S) (c : Client) (hi : TInv c) (hf : FromStarts S c) (id : TID) (raw : Bytes) (h : Nat) :
    TInv (c.start id raw (some h)).1 ∧ FromStarts ((h, id, raw) :: S) (c.start id raw (some h)).1 ∧ (∀ h', calls h' (c.start id raw (some h)).2.2 = 0) ∧ (c.start id raw (some h)).1.closed = c.closed ∧
    (∀ x ∈ (c.start id raw (some h)).2.2, x = COut.write raw (some h)) ∧
    ((c.start id raw (some h)).2.1 = none → ∀ h', pend h' (c.start id raw (some h)).1 = pend h' c + (if h == h' then 1 else 0)) ∧
    (((c.start id raw (some h)).2.1 = some .clientClosed ∨ (c.start id raw (some h)).2.1 = some .write ∨ (c.start id raw (some h)).2.1 = some .stopErr ∨ (c.lookup id).isSome = true) →
        ∀ h', pend h' (c.start id raw (some h)).1 = pend h' c) ∧
    (∀ h', pend h' (c.start id raw (some h)).1 ≤ pend h' c + (if h == h' then 1 else 0)) ∧
    (∀ h', h' ≠ h → pend h' (c.start id raw (some h)).1 = pend h' c) := by
  have hmono : FromStarts ((h, id, raw) :: S) c := fromStarts_mono S _ c hf (fun x hx => List.mem_cons_of_mem _ hx)
  have nocalls : ∀ h' : Nat, calls h' ([] : List COut) = 0 := fun _ => rfl
  have nocallsW : ∀ h' : Nat, calls h' [COut.write raw (some h)] = 0 := fun _ => by simp [calls]
  unfold Client.start
  by_cases hc : c.closed = true
  · rw [if_pos hc]
    refine ⟨hi, hmono, nocalls, rfl, by simp, ?_, fun _ _ => rfl, fun h' => by show pend h' c ≤ _; omega, fun _ _ => rfl⟩
    intro hh; simp at hh
  · rw [if_neg hc]
    simp only
    by_cases hex : (c.lookup id).isSome = true
    · rw [if_pos hex]
      refine ⟨hi, hmono, nocalls, rfl, by simp, ?_, fun _ _ => rfl, fun h' => by show pend h' c ≤ _; omega, fun _ _ => rfl⟩
      intro hh; simp at hh
    · rw [if_neg hex]
      have hk : id ∉ ckeys c := by rw [← lookup_iff]; exact hex
      have hi1 := tinv_insert c ⟨id, 0, c.rto, raw, h, c.now⟩ hi hk
      have hp1 : ∀ h', pend h' (c.insert ⟨id, 0, c.rto, raw, h, c.now⟩) = pend h' c + (if h == h' then 1 else 0) :=
        fun h' => pend_insert c ⟨id, 0, c.rto, raw, h, c.now⟩ h'
      have hf1 : FromStarts ((h, id, raw) :: S) (c.insert ⟨id, 0, c.rto, raw, h, c.now⟩) := by
        intro p hp
        simp only [Client.insert, List.mem_append, List.mem_singleton] at hp
        rcases hp with hp | rfl
        · exact List.mem_cons_of_mem _ (hf p hp)
        · exact List.mem_cons_self
      have hl1 : (c.insert ⟨id, 0, c.rto, raw, h, c.now⟩).lookup id = some ⟨id, 0, c.rto, raw, h, c.now⟩ :=
        lookup_insert_self c ⟨id, 0, c.rto, raw, h, c.now⟩ hk
      generalize hc1 : c.insert ⟨id, 0, c.rto, raw, h, c.now⟩ = c1 at *
      have hc1closed : c1.closed = c.closed := by subst hc1; rfl
      cases hs : (c1.agent.start id (nextTimeout ⟨id, 0, c.rto, raw, h, c.now⟩ c.now)) with
      | mk a err =>
        cases err with
        | some er =>
          simp only
          -- the entry just inserted is removed again (deleteIfCurrent): the table is as before
          have hback : ∀ h', pend h' (c1.erase id) = pend h' c := by
            intro h'
            have e1 := pend_erase c1 hi1 id _ hl1 h'
            have e2 := hp1 h'
            simp only at e1
            omega
          refine ⟨tinv_erase c1 id hi1, fromStarts_erase _ c1 id hf1, nocalls, hc1closed, by simp, ?_, ?_, ?_,
            fun h' _ => hback h'⟩
          · intro hh; split at hh <;> simp at hh
          · intro _ h'; exact hback h'
          · intro h'; show pend h' (c1.erase id) ≤ _; rw [hback]; omega
        | none =>
          simp only
          generalize hc2 : ({ c1 with agent := a } : Client) = c2
          have ht2 : c2.t = c1.t := by subst hc2; rfl
          have hc2closed : c2.closed = c.closed := by subst hc2; exact hc1closed
          have hwt := connWrite_t c2 raw
          have hwc := connWrite_closed c2 raw
          by_cases hok : (c2.connWrite raw).2 = true
          · simp only [hok, if_true]
            have htw : (c2.connWrite raw).1.t = c1.t := by rw [hwt, ht2]
            have hother : ∀ h', h' ≠ h → pend h' (c2.connWrite raw).1 = pend h' c := by
              intro h' hne; rw [pend_congr c1 _ htw, hp1]
              have : (h == h') = false := by simpa using (Ne.symm hne)
              simp [this]
            refine ⟨tinv_congr c1 _ htw hi1, fun p hp => hf1 p (by rw [← htw]; exact hp), nocallsW,
              by rw [hwc]; exact hc2closed, by simp, ?_, ?_, ?_, hother⟩
            · intro _ h'; show pend h' (c2.connWrite raw).1 = _; rw [pend_congr c1 _ htw, hp1]
            · intro hh; rcases hh with hh | hh | hh | hh
              · simp at hh
              · simp at hh
              · simp at hh
              · exact absurd hh hex
            · intro h'; show pend h' (c2.connWrite raw).1 ≤ _; rw [pend_congr c1 _ htw, hp1]; exact Nat.le_refl _
          · simp only [hok, Bool.false_eq_true, if_false]
            have htw : (c2.connWrite raw).1.t = c1.t := by rw [hwt, ht2]
            have hi3 := tinv_congr c1 _ htw hi1
            have hl3 : (c2.connWrite raw).1.lookup id = some ⟨id, 0, c.rto, raw, h, c.now⟩ := by
              unfold Client.lookup; rw [htw]; exact hl1
            have hpe := pend_erase _ hi3 id _ hl3
            have hpend : ∀ h', pend h' ((c2.connWrite raw).1.erase id) = pend h' c := by
              intro h'; have e1 := hpe h'; have e2 := hp1 h'; have e3 := pend_congr c1 _ htw h'
              have e4 : (if (({ id := id, attempt := 0, rto := c.rto, raw := raw, h := h, start := c.now } : Txn).h == h') = true
                  then 1 else 0) = (if (h == h') = true then (1 : Nat) else 0) := rfl
              rw [e4] at e1
              omega
            refine ⟨tinv_congr ((c2.connWrite raw).1.erase id) _ rfl (tinv_erase _ id hi3), ?_, nocallsW, ?_, by simp,
              ?_, ?_, ?_, fun h' _ => hpend h'⟩
            · intro p hp
              have hp' : p ∈ ((c2.connWrite raw).1.erase id).t := hp
              have := (List.mem_filter.mp hp').1
              rw [htw] at this; exact hf1 p this
            · show ((c2.connWrite raw).1.erase id).closed = c.closed
              show (c2.connWrite raw).1.closed = c.closed
              rw [hwc]; exact hc2closed
            · intro hh; split at hh <;> simp at hh
            · intro _ h'; exact hpend h'
            · intro h'; show pend h' ((c2.connWrite raw).1.erase id) ≤ _; rw [hpend]; omega

/-- a closed client never retransmits: a callback either finds nothing, or completes the transaction it finds -/
theorem callback_closed (c : Client) (id : TID) (e : CEv) (h : c.closed = true) :
    c.callback id e = match c.lookup id with
      | none => (c, [])
      | some tx => (c.erase id, [.call tx.h id e]) := by
  unfold Client.callback
  cases c.lookup id with
  | none => simp [h]
  | some tx => simp [h]

/-- … so the callbacks of a closed client only invoke handlers (with the events given), keep it closed and leave its
    agent alone -/
theorem callbacks_closed (c : Client) (hc : c.closed = true) (evs : List (TID × CEv)) :
    (c.callbacks evs).1.closed = true ∧ (c.callbacks evs).1.agent = c.agent ∧
    (c.callbacks evs).1.closeConn = c.closeConn ∧ (c.callbacks evs).1.agentCloseErr = c.agentCloseErr ∧
    (c.callbacks evs).1.connCloseErr = c.connCloseErr ∧
    ∀ x ∈ (c.callbacks evs).2, ∃ h id e, (id, e) ∈ evs ∧ x = COut.call h id e := by
  induction evs generalizing c with
  | nil => exact ⟨hc, rfl, rfl, rfl, rfl, by simp [Client.callbacks]⟩
  | cons ev r ih =>
    obtain ⟨id, e⟩ := ev
    have hcb := callback_closed c id e hc
    simp only [Client.callbacks]
    cases hl : c.lookup id with
    | none =>
      rw [hl] at hcb; simp only at hcb
      rw [hcb]
      obtain ⟨i1, i2, i3, i4, i5, i6⟩ := ih c hc
      refine ⟨i1, i2, i3, i4, i5, ?_⟩
      intro x hx
      simp only [List.nil_append] at hx
      obtain ⟨h, id', e', hm, rfl⟩ := i6 x hx
      exact ⟨h, id', e', List.mem_cons_of_mem _ hm, rfl⟩
    | some tx =>
      rw [hl] at hcb; simp only at hcb
      rw [hcb]
      obtain ⟨i1, i2, i3, i4, i5, i6⟩ := ih (c.erase id) hc
      refine ⟨i1, i2, i3, i4, i5, ?_⟩
      intro x hx
      simp only [List.cons_append, List.nil_append, List.mem_cons] at hx
      rcases hx with rfl | hx
      · exact ⟨tx.h, id, e, List.mem_cons_self, rfl⟩
      · obtain ⟨h, id', e', hm, rfl⟩ := i6 x hx
        exact ⟨h, id', e', List.mem_cons_of_mem _ hm, rfl⟩

/-- `Close`: the client and its agent are closed; the transactions still registered with the agent are completed
    with ErrAgentClosed (the only handler invocations; nothing is written); the connection is closed once iff the
    client owns it; a second `Close` reports ErrClientClosed and does nothing -/
theorem close_spec (c : Client) :
    (c.closed = true → c.close = (c, some .clientClosed, [])) ∧
    (c.closed = false →
      (c.close).1.closed = true ∧ (c.close).1.agent.closed = true ∧
      ((c.close).2.1 = none ∨ (c.close).2.1 = some .closeErr) ∧
      (∀ x ∈ (c.close).2.2, (∃ h id, x = COut.call h id .agentClosed) ∨ (x = COut.connClose ∧ c.closeConn = true)) ∧
      ((c.close).2.2.filter (fun x => x == COut.connClose)).length = (if c.closeConn then 1 else 0)) := by
  constructor
  · intro h; unfold Client.close; simp [h]
  · intro h
    unfold Client.close
    simp only [h, Bool.false_eq_true, if_false]
    obtain ⟨k1, k2, k3, k4, k5, k6⟩ := callbacks_closed { c with closed := true, agent := (c.agent.close).1 } rfl
      (((c.agent.close).2.2).map (fun e => (e.id, CEv.agentClosed)))
    have hag : (c.agent.close).1.closed = true := by unfold Agent.close; split <;> simp_all
    have hcalls : ∀ x ∈ (({ c with closed := true, agent := (c.agent.close).1 } : Client).callbacks
        (((c.agent.close).2.2).map (fun e => (e.id, CEv.agentClosed)))).2, ∃ h id, x = COut.call h id .agentClosed := by
      intro x hx
      obtain ⟨h', id', e', hm, rfl⟩ := k6 x hx
      simp only [List.mem_map] at hm
      obtain ⟨ev, _, hev⟩ := hm
      simp only [Prod.mk.injEq] at hev
      exact ⟨h', id', by rw [← hev.2]⟩
    have hnocc : ((({ c with closed := true, agent := (c.agent.close).1 } : Client).callbacks
        (((c.agent.close).2.2).map (fun e => (e.id, CEv.agentClosed)))).2.filter (fun x => x == COut.connClose)).length = 0 := by
      rw [List.length_eq_zero_iff, List.filter_eq_nil_iff]
      intro x hx
      obtain ⟨h', id', rfl⟩ := hcalls x hx
      simp
    simp only at k1 k2 k3 k4 k5
    generalize hr : (({ c with closed := true, agent := (c.agent.close).1 } : Client).callbacks
        (((c.agent.close).2.2).map (fun e => (e.id, CEv.agentClosed)))) = r at *
    refine ⟨k1, by rw [k2]; exact hag, ?_, ?_, ?_⟩
    · split <;> simp
    · intro x hx
      rw [k3] at hx
      by_cases hcc : c.closeConn = true
      · rw [if_pos hcc] at hx
        simp only [List.mem_append, List.mem_singleton] at hx
        rcases hx with hx | rfl
        · exact Or.inl (hcalls x hx)
        · exact Or.inr ⟨rfl, hcc⟩
      · rw [if_neg hcc] at hx
        exact Or.inl (hcalls x hx)
    · rw [k3]
      by_cases hcc : c.closeConn = true
      · rw [if_pos hcc, if_pos hcc, List.filter_append, List.length_append, hnocc]; simp
      · rw [if_neg hcc, if_neg hcc, hnocc]

def startsOf : List COp → List (Nat × TID × Bytes)
  | [] => []
  | .start id raw (some h) :: r => (h, id, raw) :: startsOf r
  | _ :: r => startsOf r

/-- run a history; returns the final client and, per operation, its returned error and outputs -/
def run (c : Client) : List COp → Client × List (COp × Option CErr × List COut)
  | [] => (c, [])
  | op :: r =>
    let s := c.step op
    let rest := run s.1 r
    (rest.1, (op, s.2.1, s.2.2) :: rest.2)

def allOuts (tr : List (COp × Option CErr × List COut)) : List COut := tr.flatMap (fun x => x.2.2)

/-- one step of any kind: the table invariant and the provenance of entries are kept; every handler invocation and
    every write that belongs to a transaction is justified by a `Start` (of this step or an earlier one) with that
    handler, id and message; handler invocations are balanced against pending entries -/
theorem step_spec (S) (c : Client) (hi : TInv c) (hf : FromStarts S c) (op : COp) :
    TInv (c.step op).1 ∧ FromStarts (startsOf [op] ++ S) (c.step op).1 ∧
    (∀ h id e, COut.call h id e ∈ (c.step op).2.2 → ∃ raw, (h, id, raw) ∈ startsOf [op] ++ S) ∧
    (∀ raw h, COut.write raw (some h) ∈ (c.step op).2.2 → ∃ id, (h, id, raw) ∈ startsOf [op] ++ S) ∧
    (∀ h, calls h (c.step op).2.2 + pend h (c.step op).1 ≤
            pend h c + ((startsOf [op]).filter (fun x => x.1 == h)).length) := by
  cases op with
  | start id raw handler =>
    cases handler with
    | some h =>
      obtain ⟨a1, a2, a3, a4, a5, a6, a7, a8, _⟩ := start_spec S c hi hf id raw h
      refine ⟨a1, a2, ?_, ?_, ?_⟩
      · intro h' id' e hm; have := a5 _ hm; simp at this
      · intro raw' h' hm; have := a5 _ hm
        simp only [COut.write.injEq, Option.some.injEq] at this
        exact ⟨id, by rw [this.1, this.2]; exact List.mem_cons_self⟩
      · intro h'
        have e1 := a3 h'; have e2 := a8 h'
        simp only [Client.step, startsOf, List.filter_cons, List.filter_nil]
        by_cases hh : (h == h') = true <;> simp [hh] at e2 ⊢ <;> omega
    | none =>
      have ht : (c.start id raw none).1.t = c.t ∧ ∀ x ∈ (c.start id raw none).2.2, x = COut.write raw none := by
        unfold Client.start
        by_cases hc : c.closed = true
        · rw [if_pos hc]; exact ⟨rfl, by simp⟩
        · rw [if_neg hc]; exact ⟨connWrite_t c raw, by simp⟩
      obtain ⟨t1, t2⟩ := ht
      simp only [Client.step]
      refine ⟨tinv_congr c _ t1 hi, fun p hp => hf p (by rw [← t1]; exact hp), ?_, ?_, ?_⟩
      · intro h id' e hm; have := t2 _ hm; simp at this
      · intro raw' h hm; have := t2 _ hm; simp at this
      · intro h
        have : calls h (c.start id raw none).2.2 = 0 := by
          unfold calls; rw [List.length_eq_zero_iff, List.filter_eq_nil_iff]
          intro x hx; rw [t2 x hx]; simp
        rw [this, pend_congr c _ t1]; simp [startsOf]
  | deliver d =>
    obtain ⟨a1, a2, a3, a4, a5⟩ := deliver_spec S c hi hf d
    simp only [Client.step, startsOf, List.nil_append, List.filter_nil, List.length_nil, Nat.add_zero]
    exact ⟨a1, a2, a5.call, a5.write, fun h => Nat.le_of_eq (a3 h)⟩
  | tick t =>
    obtain ⟨a1, a2, a3, a4, a5⟩ := tick_spec S c hi hf t
    simp only [Client.step, startsOf, List.nil_append, List.filter_nil, List.length_nil, Nat.add_zero]
    exact ⟨a1, a2, a5.call, a5.write, fun h => Nat.le_of_eq (a3 h)⟩
  | clock t =>
    exact ⟨tinv_congr c _ rfl hi, fun p hp => hf p hp, by simp [Client.step], by simp [Client.step],
      fun h => by simp [Client.step, calls, startsOf, pend]⟩
  | failWrite id =>
    exact ⟨tinv_congr c _ rfl hi, fun p hp => hf p hp, by simp [Client.step], by simp [Client.step],
      fun h => by simp [Client.step, calls, startsOf, pend]⟩
  | setRTO r =>
    exact ⟨tinv_congr c _ rfl hi, fun p hp => hf p hp, by simp [Client.step, Client.setRTO], by simp [Client.step, Client.setRTO],
      fun h => by simp [Client.step, calls, startsOf, pend, Client.setRTO]⟩
  | close =>
    by_cases hc : c.closed = true
    · have := (close_spec c).1 hc
      simp only [Client.step, this]
      exact ⟨hi, fun p hp => hf p hp, by simp, by simp, fun h => by simp [calls, startsOf]⟩
    · have hcf : c.closed = false := by simpa using hc
      -- Close runs the closed-event callbacks on the closed client, then (maybe) closes the connection
      have cs := callbacks_spec S (((c.agent.close).2.2).map (fun e => (e.id, CEv.agentClosed)))
        { c with closed := true, agent := (c.agent.close).1 } (tinv_congr c _ rfl hi) (fun p hp => hf p hp)
      have hp : ∀ h, pend h ({ c with closed := true, agent := (c.agent.close).1 } : Client) = pend h c := fun _ => rfl
      simp only [Client.step]
      unfold Client.close
      simp only [hcf, Bool.false_eq_true, if_false]
      generalize hr : (({ c with closed := true, agent := (c.agent.close).1 } : Client).callbacks
        (((c.agent.close).2.2).map (fun e => (e.id, CEv.agentClosed)))) = r at *
      refine ⟨cs.inv, cs.from_, ?_, ?_, ?_⟩
      · intro h id e hm
        have : COut.call h id e ∈ r.2 := by
          split at hm
          · simp only [List.mem_append, List.mem_singleton, reduceCtorEq, or_false] at hm; exact hm
          · exact hm
        obtain ⟨raw, hr⟩ := cs.outs.call h id e this
        exact ⟨raw, by simp only [startsOf, List.nil_append]; exact hr⟩
      · intro raw h hm
        have : COut.write raw (some h) ∈ r.2 := by
          split at hm
          · simp only [List.mem_append, List.mem_singleton, reduceCtorEq, or_false] at hm; exact hm
          · exact hm
        obtain ⟨id, hr⟩ := cs.outs.write raw h this
        exact ⟨id, by simp only [startsOf, List.nil_append]; exact hr⟩
      · intro h
        have e1 := cs.count h
        have e2 := hp h
        simp only [startsOf, List.filter_nil, List.length_nil, Nat.add_zero]
        split
        · rw [calls_append]
          have : calls h [COut.connClose] = 0 := by simp [calls]
          rw [this]; omega
        · omega

end Stun.ClientProofs
