/-
  L2, messages (C12): the only message a handler can be given is the datagram processed by that very step, under the
  datagram's transaction id - whatever is suspended and whatever waits behind suspended calls (`RestOK`: only timeouts
  wait there). `run2_msg` lifts it to every L2 history.
-/
import Stun.Proofs.ClientL2Acct
import Stun.Proofs.ClientSteps
namespace Stun.ClientProofs
open Stun Stun.Client
set_option maxHeartbeats 800000

/-! ### L2: the only message a handler can see is the datagram just processed, under the datagram's id -/

/-- no handler invocation with a message -/
def NoMsg (outs : List COut) : Prop := ∀ h id raw, COut.call h id (.msg raw) ∉ outs

theorem noMsg_nil : NoMsg [] := by intro h id raw hm; simp at hm
theorem noMsg_append (a b : List COut) (ha : NoMsg a) (hb : NoMsg b) : NoMsg (a ++ b) := by
  intro h id raw hm
  rcases List.mem_append.mp hm with hm | hm
  · exact ha h id raw hm
  · exact hb h id raw hm

/-- the only message a callback can hand to a handler is the event it was given, under the id it was given -/
theorem callback_msg (c : Client) (tid : TID) (e : CEv) (h : Nat) (id : TID) (raw : Bytes)
    (hm : COut.call h id (.msg raw) ∈ (c.callback tid e).2) : e = .msg raw ∧ id = tid := by
  unfold Client.callback at hm
  split at hm
  · split at hm <;> simp at hm
  · split at hm
    · simp only [List.mem_singleton, COut.call.injEq] at hm; exact ⟨hm.2.2.symm, hm.2.1⟩
    · unfold Client.retransmit at hm
      simp only at hm
      split at hm
      · simp only [List.mem_singleton, COut.call.injEq] at hm
        split at hm <;> simp at hm
      · split at hm
        · simp at hm
        · simp only [List.mem_cons, reduceCtorEq, COut.call.injEq, List.not_mem_nil, or_false, false_or] at hm
          split at hm <;> simp at hm

theorem callback2_msg (k : Client2) (tid : TID) (e : CEv) (h : Nat) (id : TID) (raw : Bytes)
    (hm : COut.call h id (.msg raw) ∈ (k.callback tid e).2.1) : e = .msg raw ∧ id = tid := by
  have hl1 : COut.call h id (.msg raw) ∈ (k.lift (k.c.callback tid e)).2 → e = .msg raw ∧ id = tid :=
    fun hx => callback_msg k.c tid e h id raw hx
  unfold Client2.callback at hm
  simp only at hm
  split at hm
  · exact hl1 hm
  · split at hm
    · exact hl1 hm
    · split at hm
      · simp at hm
      · split at hm
        · unfold Client.retransmitBegin at hm
          simp only at hm
          split at hm
          · rename_i heq
            split at heq
            · simp only [Prod.mk.injEq] at heq
              obtain ⟨_, ho, _⟩ := heq
              rw [← ho] at hm
              simp only [List.mem_singleton, COut.call.injEq] at hm
              split at hm <;> simp at hm
            · simp at heq
          · rename_i heq
            split at heq
            · simp at heq
            · simp only [Prod.mk.injEq] at heq
              obtain ⟨_, ho, _⟩ := heq
              rw [← ho] at hm
              simp at hm
        · exact hl1 hm

/-- events that are not messages never produce a message invocation, however the calls suspend -/
theorem callbacks2_noMsg (evs : List (TID × CEv)) (hev : ∀ ev ∈ evs, ev.2.isMsg = false) (k : Client2) :
    NoMsg (k.callbacks evs).2 := by
  induction evs generalizing k with
  | nil => exact noMsg_nil
  | cons ev r ih =>
    obtain ⟨id, e⟩ := ev
    have he : e.isMsg = false := hev (id, e) List.mem_cons_self
    have h1 : NoMsg (k.callback id e).2.1 := by
      intro h id' raw hm
      have := (callback2_msg k id e h id' raw hm).1
      rw [this] at he; simp [CEv.isMsg] at he
    unfold Client2.callbacks
    rcases hcb : k.callback id e with ⟨k1, o1, b⟩
    rw [hcb] at h1
    cases b with
    | true => exact h1
    | false =>
      simp only
      exact noMsg_append _ _ h1 (ih (fun ev hev' => hev ev (List.mem_cons_of_mem _ hev')) k1)

/-- what waits behind suspended calls are timeouts of the same `Collect`, never messages -/
def RestOK (k : Client2) : Prop := ∀ s ∈ k.susp, ∀ ev ∈ s.rest, ev.2.isMsg = false

theorem callback2_susp (k : Client2) (tid : TID) (e : CEv) :
    (k.callback tid e).1.susp = k.susp ∨ ∃ s, s.rest = [] ∧ (k.callback tid e).1.susp = k.susp ++ [s] := by
  unfold Client2.callback
  simp only
  split
  · exact Or.inl rfl
  · split
    · exact Or.inl rfl
    · split
      · exact Or.inr ⟨_, rfl, rfl⟩
      · split
        · unfold Client.retransmitBegin
          simp only
          split
          · rename_i heq
            exact Or.inl rfl
          · rename_i heq
            split at heq
            · simp at heq
            · simp only [Prod.mk.injEq] at heq
              obtain ⟨_, _, hs⟩ := heq
              refine Or.inr ⟨_, ?_, rfl⟩
              have := Option.some.inj hs
              rw [← this]
        · exact Or.inl rfl

theorem restOK_of_susp (k k' : Client2) (hk : RestOK k)
    (h : k'.susp = k.susp ∨ ∃ s, s.rest = [] ∧ k'.susp = k.susp ++ [s]) : RestOK k' := by
  intro s hs ev hev
  rcases h with h | ⟨s0, hs0, h⟩
  · rw [h] at hs; exact hk s hs ev hev
  · rw [h] at hs
    rcases List.mem_append.mp hs with hs | hs
    · exact hk s hs ev hev
    · simp only [List.mem_singleton] at hs; subst hs; rw [hs0] at hev; simp at hev

theorem callbacks2_restOK (evs : List (TID × CEv)) (hev : ∀ ev ∈ evs, ev.2.isMsg = false) (k : Client2) (hk : RestOK k) :
    RestOK (k.callbacks evs).1 := by
  induction evs generalizing k with
  | nil => exact hk
  | cons ev r ih =>
    obtain ⟨id, e⟩ := ev
    have hs := callback2_susp k id e
    have hk1 := restOK_of_susp k _ hk hs
    have hr : ∀ ev ∈ r, ev.2.isMsg = false := fun ev h => hev ev (List.mem_cons_of_mem _ h)
    unfold Client2.callbacks
    rcases hcb : k.callback id e with ⟨k1, o1, b⟩
    rw [hcb] at hk1
    cases b with
    | true =>
      simp only
      intro s hsm ev' hev'
      simp only [List.mem_append] at hsm
      rcases hsm with hsm | hsm
      · exact hk1 s (List.dropLast_subset _ hsm) ev' hev'
      · cases hl : k1.susp.getLast? with
        | none => simp [hl] at hsm
        | some last =>
          simp only [hl, Option.map_some, Option.toList_some, List.mem_singleton] at hsm
          subst hsm
          exact hr ev' hev'
    | false =>
      simp only
      exact ih hr k1 hk1

theorem callbacks_noMsg (evs : List (TID × CEv)) (hev : ∀ ev ∈ evs, ev.2.isMsg = false) (c : Client) :
    NoMsg (c.callbacks evs).2 := by
  induction evs generalizing c with
  | nil => exact noMsg_nil
  | cons ev r ih =>
    obtain ⟨id, e⟩ := ev
    have he : e.isMsg = false := hev (id, e) List.mem_cons_self
    have h1 : NoMsg (c.callback id e).2 := by
      intro h id' raw hm
      have := (callback_msg c id e h id' raw hm).1
      rw [this] at he; simp [CEv.isMsg] at he
    simp only [Client.callbacks]
    exact noMsg_append _ _ h1 (ih (fun ev hev' => hev ev (List.mem_cons_of_mem _ hev')) _)

theorem start_noCall (c : Client) (id0 : TID) (raw0 : Bytes) (hd : Option Nat) :
    ∀ h id e, COut.call h id e ∉ (c.start id0 raw0 hd).2.2 := by
  intro h id e hm
  unfold Client.start at hm
  split at hm
  · simp at hm
  · split at hm
    · simp only at hm
      split at hm
      · simp at hm
      · split at hm
        · simp at hm
        · split at hm <;> simp at hm
    · simp at hm

theorem close_noMsg (c : Client) : NoMsg c.close.2.2 := by
  unfold Client.close
  split
  · exact noMsg_nil
  · simp only
    have h1 := callbacks_noMsg ((({ c with closed := true } : Client).agent.close).2.2.map (fun (e : AEvent) => (e.id, CEv.agentClosed)))
      (by intro ev hev; simp only [List.mem_map] at hev; obtain ⟨a, _, rfl⟩ := hev; rfl)
      { c with closed := true, agent := (({ c with closed := true } : Client).agent.close).1 }
    split
    · exact noMsg_append _ _ h1 (by intro h id raw hm; simp at hm)
    · exact h1

theorem retransmitEnd_noMsg (c : Client) (s : Susp) (ok : Bool) : NoMsg (Client.retransmitEnd c s ok).2 := by
  intro h id raw hm
  unfold Client.retransmitEnd at hm
  split at hm
  · simp at hm
  · simp only [List.mem_singleton, COut.call.injEq] at hm
    split at hm <;> simp at hm

theorem retransmitPost_noMsg (c : Client) (s : Susp) (inject : Bool) : NoMsg (Client.retransmitPost c s inject).2 := by
  intro h id raw hm
  unfold Client.retransmitPost at hm
  simp only at hm
  split at hm
  · split at hm
    · simp at hm
    · simp only [List.mem_singleton, COut.call.injEq] at hm
      split at hm <;> simp at hm
  · split at hm
    · simp at hm
    · split at hm
      · simp at hm
      · simp only [List.mem_cons, reduceCtorEq, COut.call.injEq, List.not_mem_nil, or_false, false_or] at hm
        split at hm <;> simp at hm

/-- where a message invocation can come from: the datagram processed by this very step -/
def MsgSrc (op : COp2) (id : TID) (raw : Bytes) : Prop :=
  op = .deliverDecoded id raw ∨
  ∃ d, op = .l1 (.deliver d) ∧ raw = d.take 1024 ∧ id = (readerMsg.readFrom d).1.tid ∧ (readerMsg.readFrom d).2 = .ok ()

theorem deliverDecoded_msg (c : Client) (tid : TID) (raw0 : Bytes) (h : Nat) (id : TID) (raw : Bytes)
    (hm : COut.call h id (.msg raw) ∈ (c.deliverDecoded tid raw0).2) : raw = raw0 ∧ id = tid := by
  unfold Client.deliverDecoded at hm
  split at hm
  · simp at hm
  · obtain ⟨h1, h2⟩ := callback_msg _ tid (.msg raw0) h id raw hm
    exact ⟨by simpa using h1.symm, h2⟩

theorem release2_restOK_noMsg (k : Client2) (hk : RestOK k) (ok : Bool) :
    RestOK (k.release ok).1 ∧ NoMsg (k.release ok).2 := by
  unfold Client2.release
  cases hsu : k.susp with
  | nil => exact ⟨by intro s hs; rw [hsu] at hs; simp at hs, noMsg_nil⟩
  | cons s rest =>
    simp only
    have hsr : ∀ ev ∈ s.rest, ev.2.isMsg = false := hk s (by rw [hsu]; exact List.mem_cons_self)
    have hk0 : ∀ x ∈ rest, ∀ ev ∈ x.rest, ev.2.isMsg = false :=
      fun x hx => hk x (by rw [hsu]; exact List.mem_cons_of_mem _ hx)
    have key : RestOK (if s.kind == .agentStart then ({ k with susp := rest }).lift (Client.retransmitPost k.c s (!ok))
         else if !ok && (k.c.lookup s.id != some s.tx) then ({ k with susp := rest }, [])
         else ({ k with susp := rest }).lift (Client.retransmitEnd k.c s ok)).1 ∧
        NoMsg (if s.kind == .agentStart then ({ k with susp := rest }).lift (Client.retransmitPost k.c s (!ok))
         else if !ok && (k.c.lookup s.id != some s.tx) then ({ k with susp := rest }, [])
         else ({ k with susp := rest }).lift (Client.retransmitEnd k.c s ok)).2 := by
      split
      · exact ⟨hk0, retransmitPost_noMsg k.c s (!ok)⟩
      · split
        · exact ⟨hk0, noMsg_nil⟩
        · exact ⟨hk0, retransmitEnd_noMsg k.c s ok⟩
    exact ⟨callbacks2_restOK s.rest hsr _ key.1, noMsg_append _ _ key.2 (callbacks2_noMsg s.rest hsr _)⟩

theorem step_l1_deliver_eq (k : Client2) (d : Bytes) :
    k.step (.l1 (.deliver d)) = ({ k with c := (k.c.deliver d).1 }, none, (k.c.deliver d).2) := by
  simp [Client2.step, Client.step]

/-- one L2 step: a handler is given a message only by the step that processes that datagram, under its id -/
theorem step2_msg (k : Client2) (hk : RestOK k) (op : COp2) :
    RestOK (k.step op).1 ∧ ∀ h id raw, COut.call h id (.msg raw) ∈ (k.step op).2.2 → MsgSrc op id raw := by
  have none_of : ∀ (r : Client2 × Option CErr × List COut), NoMsg r.2.2 →
      ∀ h id raw, COut.call h id (.msg raw) ∈ r.2.2 → MsgSrc op id raw :=
    fun r hn h id raw hm => absurd hm (hn h id raw)
  cases op with
  | l1 op1 =>
    cases op1 with
    | tick t =>
      have hev : ∀ ev ∈ (((({ k.c with now := t } : Client).agent.collect t).2.2).map (fun (e : AEvent) => (e.id, CEv.timeout))),
          ev.2.isMsg = false := by
        intro ev hev; simp only [List.mem_map] at hev; obtain ⟨a, _, rfl⟩ := hev; rfl
      refine ⟨?_, ?_⟩
      · exact callbacks2_restOK _ hev _ hk
      · intro h id raw hm
        exact absurd hm (callbacks2_noMsg _ hev _ h id raw)
    | start id0 raw0 hd =>
      exact ⟨hk, fun h id raw hm => absurd hm (start_noCall k.c id0 raw0 hd h id (.msg raw))⟩
    | deliver d =>
      rw [step_l1_deliver_eq]
      refine ⟨fun s hs => hk s hs, ?_⟩
      intro h id raw hm
      simp only at hm
      unfold Client.deliver at hm
      split at hm
      · rename_i hok
        obtain ⟨h1, h2⟩ := deliverDecoded_msg _ _ _ h id raw hm
        exact Or.inr ⟨d, rfl, by rw [h1, readFrom_raw], h2, hok⟩
      · simp at hm
    | clock t => exact ⟨hk, fun h id raw hm => by simp [Client2.step, Client.step] at hm⟩
    | failWrite id0 => exact ⟨hk, fun h id raw hm => by simp [Client2.step, Client.step] at hm⟩
    | setRTO r => exact ⟨hk, fun h id raw hm => by simp [Client2.step, Client.step] at hm⟩
    | close => exact ⟨hk, fun h id raw hm => absurd hm (close_noMsg k.c h id raw)⟩
  | blockWrite id0 => exact ⟨hk, fun h id raw hm => by simp [Client2.step] at hm⟩
  | blockAgent id0 => exact ⟨hk, fun h id raw hm => by simp [Client2.step] at hm⟩
  | release ok =>
    simp only [Client2.step]
    split
    · refine ⟨?_, fun h id raw hm => by simp at hm⟩
      unfold Client2.releaseStart
      cases hsu : k.susp with
      | nil => intro s hs; rw [hsu] at hs; simp at hs
      | cons s rest => exact fun x hx => hk x (by rw [hsu]; exact List.mem_cons_of_mem _ hx)
    · obtain ⟨r1, r2⟩ := release2_restOK_noMsg k hk ok
      exact ⟨r1, fun h id raw hm => absurd hm (r2 h id raw)⟩
  | startBlocked id0 raw0 h0 =>
    simp only [Client2.step]
    unfold Client2.startBlocked Client.startBegin
    by_cases hc : k.c.closed = true
    · simp only [hc, if_true]
      exact ⟨hk, fun h id raw hm => by simp at hm⟩
    · simp only [hc, Bool.false_eq_true, if_false]
      by_cases hex : (k.c.lookup id0).isSome = true
      · simp only [hex, if_true]
        exact ⟨hk, fun h id raw hm => by simp at hm⟩
      · simp only [hex, Bool.false_eq_true, if_false]
        rcases hst : (k.c.insert ⟨id0, 0, k.c.rto, raw0, h0, k.c.now⟩).agent.start id0
            (nextTimeout ⟨id0, 0, k.c.rto, raw0, h0, k.c.now⟩ (⟨id0, 0, k.c.rto, raw0, h0, k.c.now⟩ : Txn).start) with ⟨a, err⟩
        cases err with
        | some er => exact ⟨hk, fun h id raw hm => by simp at hm⟩
        | none =>
          refine ⟨?_, fun h id raw hm => by simp at hm⟩
          exact restOK_of_susp k _ hk (Or.inr ⟨_, rfl, rfl⟩)
  | deliverDecoded tid raw0 =>
    refine ⟨hk, ?_⟩
    intro h id raw hm
    obtain ⟨h1, h2⟩ := deliverDecoded_msg k.c tid raw0 h id raw hm
    exact Or.inl (by rw [h1, h2])

/-- whole L2 histories: every message a handler is given is a datagram of the history, under the datagram's id -/
theorem run2_msg (ops : List COp2) : ∀ (k : Client2), RestOK k →
    ∀ h id raw, COut.call h id (.msg raw) ∈ (k.run ops).2 → ∃ op ∈ ops, MsgSrc op id raw := by
  induction ops with
  | nil => intro k _ h id raw hm; simp [Client2.run] at hm
  | cons op r ih =>
    intro k hk h id raw hm
    obtain ⟨s1, s2⟩ := step2_msg k hk op
    simp only [Client2.run, List.mem_append] at hm
    rcases hm with hm | hm
    · exact ⟨op, List.mem_cons_self, s2 h id raw hm⟩
    · obtain ⟨op', ho, hs⟩ := ih _ s1 h id raw hm
      exact ⟨op', List.mem_cons_of_mem _ ho, hs⟩

end Stun.ClientProofs
