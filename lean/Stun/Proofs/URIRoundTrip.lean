/-
  C17, helper lemmas for the round trip: strconv (atoi ∘ itoa), net.SplitHostPort ∘ net.JoinHostPort, and url.Parse on
  the rootless strings URI.String produces for registered-name hosts.
-/
import Stun.Properties.C17
namespace Stun.C17
open Stun Stun.URI

/-! ### decimal digits: atoi ∘ itoa -/

def digitsVal (ds : Str) : Nat := ds.foldl (fun acc d => acc * 10 + (d.toNat - 48)) 0

theorem digitsVal_append (a : Str) (d : UInt8) : digitsVal (a ++ [d]) = digitsVal a * 10 + (d.toNat - 48) := by
  simp [digitsVal, List.foldl_append]

theorem digitChar_props (k : Nat) (hk : k < 10) :
    isDigit (chr (Nat.digitChar k)) = true ∧ (chr (Nat.digitChar k)).toNat - 48 = k ∧
    chr (Nat.digitChar k) ≠ chr '-' ∧ chr (Nat.digitChar k) ≠ chr '+' ∧ chr (Nat.digitChar k) ≠ chr ':' := by
  have : k = 0 ∨ k = 1 ∨ k = 2 ∨ k = 3 ∨ k = 4 ∨ k = 5 ∨ k = 6 ∨ k = 7 ∨ k = 8 ∨ k = 9 := by omega
  rcases this with h | h | h | h | h | h | h | h | h | h <;> subst h <;> decide

/-- the decimal representation: digits only, value n, non-empty -/
theorem toDigits_spec (n : Nat) :
    ((Nat.toDigits 10 n).map chr).all isDigit = true ∧ digitsVal ((Nat.toDigits 10 n).map chr) = n ∧
    (Nat.toDigits 10 n).map chr ≠ [] ∧
    (∀ b ∈ (Nat.toDigits 10 n).map chr, b ≠ chr '-' ∧ b ≠ chr '+' ∧ b ≠ chr ':') := by
  induction n using Nat.strongRecOn with
  | _ n ih =>
    rw [Nat.toDigits_eq_if (by decide : 1 < 10)]
    split
    · rename_i hlt
      obtain ⟨p1, p2, p3, p4, p5⟩ := digitChar_props n hlt
      refine ⟨by simp [p1], by simp [digitsVal, p2], by simp, ?_⟩
      intro b hb; simp at hb; subst hb; exact ⟨p3, p4, p5⟩
    · rename_i hge
      have hlt : n / 10 < n := Nat.div_lt_self (by omega) (by decide)
      obtain ⟨i1, i2, i3, i4⟩ := ih (n / 10) hlt
      obtain ⟨p1, p2, p3, p4, p5⟩ := digitChar_props (n % 10) (Nat.mod_lt n (by decide))
      simp only [List.map_append, List.map_cons, List.map_nil]
      refine ⟨by simp [List.all_append, i1, p1], ?_, by simp, ?_⟩
      · rw [digitsVal_append, i2, p2]; omega
      · intro b hb
        simp only [List.mem_append, List.mem_singleton] at hb
        rcases hb with hb | hb
        · exact i4 b hb
        · subst hb; exact ⟨p3, p4, p5⟩

theorem itoaNat_spec (n : Nat) :
    (itoaNat n).all isDigit = true ∧ digitsVal (itoaNat n) = n ∧ itoaNat n ≠ [] ∧
    (∀ b ∈ itoaNat n, b ≠ chr '-' ∧ b ≠ chr '+' ∧ b ≠ chr ':') := by
  have hrepr : itoaNat n = (Nat.toDigits 10 n).map chr := by
    simp [itoaNat, Nat.toString_eq_repr, Nat.toList_repr]
  rw [hrepr]; exact toDigits_spec n

theorem atoi_itoa (p : Int) (h0 : 0 ≤ p) (h1 : p ≤ 65535) : atoi (itoa p) = some p := by
  have hn : itoa p = itoaNat p.natAbs := by simp [itoa]; omega
  obtain ⟨s1, s2, s3, s4⟩ := itoaNat_spec p.natAbs
  rw [hn]
  unfold atoi
  cases hd : itoaNat p.natAbs with
  | nil => exact absurd hd s3
  | cons c r =>
    have hc := s4 c (by rw [hd]; exact List.mem_cons_self)
    have e1 : (c == chr '-') = false := by simpa using hc.1
    have e2 : (c == chr '+') = false := by simpa using hc.2.1
    simp only [e1, e2, Bool.false_eq_true, if_false]
    rw [← hd]
    have hne : (itoaNat p.natAbs == []) = false := by cases h : itoaNat p.natAbs <;> simp_all
    simp only [hne, s1, Bool.not_true, Bool.or_self, Bool.false_eq_true, if_false]
    have hv : List.foldl (fun acc d => acc * 10 + (d.toNat - 48)) 0 (itoaNat p.natAbs) = p.natAbs := s2
    rw [hv]
    have : p.natAbs ≤ 9223372036854775807 := by omega
    simp only [this, if_true]
    congr 1; omega

/-! ### string lemmas -/

theorem cut_not_mem (sep : UInt8) (s : Str) (h : sep ∉ s) : cut sep s = (s, [], false) := by
  induction s with
  | nil => rfl
  | cons c r ih =>
    have hc : (c == sep) = false := by
      have : c ≠ sep := fun e => h (e ▸ List.mem_cons_self)
      simpa using this
    have hr : sep ∉ r := fun hm => h (List.mem_cons_of_mem _ hm)
    simp only [cut, hc, Bool.false_eq_true, if_false, ih hr]

theorem cut_append (sep : UInt8) (a b : Str) (h : sep ∉ a) : cut sep (a ++ sep :: b) = (a, b, true) := by
  induction a with
  | nil => simp [cut]
  | cons c r ih =>
    have hc : (c == sep) = false := by
      have : c ≠ sep := fun e => h (e ▸ List.mem_cons_self)
      simpa using this
    have hr : sep ∉ r := fun hm => h (List.mem_cons_of_mem _ hm)
    simp only [List.cons_append, cut, hc, Bool.false_eq_true, if_false, ih hr]

theorem contains_false_of_not_mem (c : UInt8) (s : Str) (h : c ∉ s) : s.contains c = false := by
  simpa using h

/-- the last ':' of `a ++ ':' :: b` is at position `a.length` when `b` has none -/
theorem lastIndex_append (sep : UInt8) (a b : Str) (hb : sep ∉ b) :
    lastIndex sep (a ++ sep :: b) = some a.length := by
  unfold lastIndex
  have hz : (a ++ sep :: b).zipIdx = a.zipIdx ++ (sep, a.length) :: b.zipIdx (a.length + 1) := by
    rw [List.zipIdx_append]; simp [List.zipIdx_cons]
  rw [hz, List.filter_append, List.filter_cons]
  have hbf : (b.zipIdx (a.length + 1)).filter (fun p => p.1 == sep) = [] := by
    rw [List.filter_eq_nil_iff]
    intro p hp
    have : p.1 ∈ b := List.fst_mem_of_mem_zipIdx hp
    have hne : p.1 ≠ sep := fun e => hb (e ▸ this)
    simpa using hne
  simp [hbf]

theorem splitHostPort_join (host ds : Str)
    (hh : ∀ b ∈ host, b ≠ chr ':' ∧ b ≠ chr '[' ∧ b ≠ chr ']')
    (hd : ∀ b ∈ ds, b ≠ chr ':' ∧ b ≠ chr '[' ∧ b ≠ chr ']') :
    splitHostPort (host ++ chr ':' :: ds) = .ok (host, ds) := by
  have hcolon : chr ':' ∉ ds := fun hm => (hd _ hm).1 rfl
  have hall : ∀ b ∈ host ++ chr ':' :: ds, b ≠ chr '[' ∧ b ≠ chr ']' := by
    intro b hb
    simp only [List.mem_append, List.mem_cons] at hb
    rcases hb with hb | hb | hb
    · exact ⟨(hh b hb).2.1, (hh b hb).2.2⟩
    · subst hb; exact ⟨by decide, by decide⟩
    · exact ⟨(hd b hb).2.1, (hd b hb).2.2⟩
  have hhead : ((host ++ chr ':' :: ds).head? == some (chr '[')) = false := by
    cases host with
    | nil => simp; decide
    | cons c r =>
      have := (hh c List.mem_cons_self).2.1
      simpa using this
  unfold splitHostPort
  rw [lastIndex_append _ _ _ hcolon]
  simp only [hhead, Bool.false_eq_true, if_false]
  have htake : (host ++ chr ':' :: ds).take host.length = host := by simp
  rw [htake]
  have hc1 : host.contains (chr ':') = false :=
    contains_false_of_not_mem _ _ (fun hm => (hh _ hm).1 rfl)
  have hc2 : ((host ++ chr ':' :: ds).drop 0).contains (chr '[') = false :=
    contains_false_of_not_mem _ _ (fun hm => (hall _ (by simpa using hm)).1 rfl)
  have hc3 : ((host ++ chr ':' :: ds).drop 0).contains (chr ']') = false :=
    contains_false_of_not_mem _ _ (fun hm => (hall _ (by simpa using hm)).2 rfl)
  simp only [hc1, hc2, hc3, Bool.false_eq_true, if_false]
  have hdrop : (host ++ chr ':' :: ds).drop (host.length + 1) = ds := by
    rw [List.drop_append]; simp
  rw [hdrop]

/-! ### the characters of registered names -/

def isRegChar (b : UInt8) : Bool := isAlpha b || isDigit b || b == chr '.' || b == chr '-' || b == chr '_'

theorem forall_uint8 (P : UInt8 → Prop) (h : ∀ n, n < 256 → P (UInt8.ofNat n)) : ∀ b, P b := by
  intro b
  have := h b.toNat (UInt8.toNat_lt b)
  simpa using this

/-- what a registered-name character is not: a delimiter of the URI syntax, or a control character -/
theorem regChar_props : ∀ b : UInt8, isRegChar b = true →
    (b ≠ chr '#' ∧ b ≠ chr '?' ∧ b ≠ chr '/' ∧ b ≠ chr ':' ∧ b ≠ chr '[' ∧ b ≠ chr ']' ∧
     (b.toNat < 0x20 || b.toNat == 0x7f) = false) := by
  apply forall_uint8
  decide +kernel

theorem digit_props : ∀ b : UInt8, isDigit b = true →
    (b ≠ chr '#' ∧ b ≠ chr '?' ∧ b ≠ chr '/' ∧ b ≠ chr ':' ∧ b ≠ chr '[' ∧ b ≠ chr ']' ∧
     (b.toNat < 0x20 || b.toNat == 0x7f) = false) := by
  apply forall_uint8
  decide +kernel

/-! ### url.Parse on what URI.String produces -/

theorem str_stun : Scheme.stun.str = [115, 116, 117, 110] := by decide
theorem str_stuns : Scheme.stuns.str = [115, 116, 117, 110, 115] := by decide
theorem str_turn : Scheme.turn.str = [116, 117, 114, 110] := by decide
theorem str_turns : Scheme.turns.str = [116, 117, 114, 110, 115] := by decide

theorem getScheme_sch (sch : Scheme) (rest : Str) : getScheme (sch.str ++ chr ':' :: rest) = some (sch.str, rest) := by
  have hc : chr ':' = 58 := by decide
  cases sch
  · rw [str_stun, hc]; simp [getScheme, getSchemeAux, isAlpha, isDigit, chr]
  · rw [str_stuns, hc]; simp [getScheme, getSchemeAux, isAlpha, isDigit, chr]
  · rw [str_turn, hc]; simp [getScheme, getSchemeAux, isAlpha, isDigit, chr]
  · rw [str_turns, hc]; simp [getScheme, getSchemeAux, isAlpha, isDigit, chr]

theorem sch_lower (sch : Scheme) : sch.str.map toLowerB = sch.str := by cases sch <;> decide
theorem sch_ne_nil (sch : Scheme) : sch.str ≠ [] := by cases sch <;> decide
theorem sch_ne_star (sch : Scheme) (r : Str) : (sch.str ++ chr ':' :: r == lit "*") = false := by
  cases sch <;> simp [str_stun, str_stuns, str_turn, str_turns, lit, chr]
theorem sch_clean (sch : Scheme) : ∀ b ∈ sch.str, b ≠ chr '#' ∧ (b.toNat < 0x20 || b.toNat == 0x7f) = false := by
  cases sch <;> decide
theorem newSchemeType_str (sch : Scheme) : newSchemeType sch.str = some sch := by cases sch <;> decide

/-- a character that may appear after the scheme without ending the URL or being a control character -/
def Plain (b : UInt8) : Prop := b ≠ chr '#' ∧ (b.toNat < 0x20 || b.toNat == 0x7f) = false

/-- `url.Parse` of `scheme:opaque` / `scheme:opaque?query` built from plain characters -/
theorem urlParse_rootless (sch : Scheme) (opq q : Str) (withQ : Bool)
    (hopq : ∀ b ∈ opq, Plain b ∧ b ≠ chr '?') (_hne : opq ≠ []) (hhead : opq.head? ≠ some (chr '/'))
    (hq : ∀ b ∈ q, Plain b ∧ b ≠ chr '?') (hqne : withQ = true → q ≠ []) (hq0 : withQ = false → q = []) :
    urlParse (sch.str ++ chr ':' :: (opq ++ (if withQ then chr '?' :: q else []))) = .rootless sch.str opq q := by
  have hallplain : ∀ b ∈ sch.str ++ chr ':' :: (opq ++ (if withQ then chr '?' :: q else [])), Plain b := by
    intro b hb
    simp only [List.mem_append, List.mem_cons] at hb
    rcases hb with hb | hb | hb | hb
    · exact sch_clean sch b hb
    · subst hb; exact ⟨by decide, by decide⟩
    · exact (hopq b hb).1
    · cases withQ with
      | false => simp at hb
      | true =>
        simp only [if_true, List.mem_cons] at hb
        rcases hb with hb | hb
        · subst hb; exact ⟨by decide, by decide⟩
        · exact (hq b hb).1
  have hnohash : chr '#' ∉ sch.str ++ chr ':' :: (opq ++ (if withQ then chr '?' :: q else [])) :=
    fun hm => (hallplain _ hm).1 rfl
  have hctl : containsCTL (sch.str ++ chr ':' :: (opq ++ (if withQ then chr '?' :: q else []))) = false := by
    unfold containsCTL
    rw [List.any_eq_false]
    intro b hb
    rw [(hallplain b hb).2]; simp
  unfold urlParse
  rw [cut_not_mem _ _ hnohash]
  simp only [hctl, Bool.false_eq_true, if_false, sch_ne_star, getScheme_sch, sch_lower]
  have hqmark_opq : chr '?' ∉ opq := fun hm => (hopq _ hm).2 rfl
  have hqmark_q : chr '?' ∉ q := fun hm => (hq _ hm).2 rfl
  cases withQ with
  | false =>
    have hq' := hq0 rfl
    subst hq'
    simp only [Bool.false_eq_true, if_false, List.append_nil]
    have hlast : (opq.getLast? == some (chr '?')) = false := by
      cases hl : opq.getLast? with
      | none => simp
      | some c =>
        have hmem : c ∈ opq := List.mem_of_getLast? hl
        have : c ≠ chr '?' := (hopq c hmem).2
        simpa using this
    simp only [hlast, Bool.false_and, Bool.false_eq_true, if_false, cut_not_mem _ _ hqmark_opq]
    simp [hhead, sch_ne_nil]
  | true =>
    have hqn := hqne rfl
    simp only [if_true]
    have hlast : ((opq ++ chr '?' :: q).getLast? == some (chr '?')) = false := by
      have : (opq ++ chr '?' :: q).getLast? = q.getLast? := by
        rw [List.getLast?_append]; cases hq2 : q with
        | nil => exact absurd hq2 hqn
        | cons c r =>
          have : ((chr '?' :: c :: r).getLast?).isSome = true := by simp
          cases hx : (chr '?' :: c :: r).getLast? with
          | none => rw [hx] at this; simp at this
          | some v => simp [List.getLast?_cons_cons] at hx ⊢; simp [hx]
      rw [this]
      cases hl : q.getLast? with
      | none => simp
      | some c =>
        have hmem : c ∈ q := List.mem_of_getLast? hl
        have : c ≠ chr '?' := (hq c hmem).2
        simpa using this
    simp only [hlast, Bool.false_and, Bool.false_eq_true, if_false, cut_append _ _ _ hqmark_opq]
    have hh : (opq.head? ≠ some (chr '/')) := hhead
    simp [hh, sch_ne_nil]
/-! ### the query part -/

instance : DecidablePred Plain := fun b => by unfold Plain; infer_instance

theorem query_clean (p : Proto) : ∀ b ∈ lit "transport=" ++ p.str, Plain b ∧ b ≠ chr '?' := by
  cases p <;> decide


theorem badEscape_plain' (s : Str) (h : ∀ b ∈ s, b ≠ chr '%') : badEscape s = false := by
  induction s with
  | nil => simp [badEscape]
  | cons c r ih =>
    have hc : (c == chr '%') = false := by simpa using h c List.mem_cons_self
    unfold badEscape; simp only [hc, Bool.false_eq_true, if_false]
    exact ih (fun b hb => h b (List.mem_cons_of_mem _ hb))

theorem unescape_go_plain (s : Str) (h : ∀ b ∈ s, b ≠ chr '%' ∧ b ≠ chr '+') : queryUnescape.go s = s := by
  induction s with
  | nil => simp [queryUnescape.go]
  | cons c r ih =>
    have hc : (c == chr '%') = false := by simpa using (h c List.mem_cons_self).1
    have hp : (c == chr '+') = false := by simpa using (h c List.mem_cons_self).2
    unfold queryUnescape.go; simp only [hc, hp, Bool.false_eq_true, if_false]
    rw [ih (fun b hb => h b (List.mem_cons_of_mem _ hb))]

theorem queryUnescape_plain (s : Str) (h : ∀ b ∈ s, b ≠ chr '%' ∧ b ≠ chr '+') : queryUnescape s = some s := by
  simp [queryUnescape, badEscape_plain' s (fun b hb => (h b hb).1), unescape_go_plain s h]

theorem parseQuery_transport (p : Proto) :
    parseQuery (lit "transport=" ++ p.str) = ([(lit "transport", [p.str])], false) := by
  have c1 : cut (chr '&') (lit "transport=" ++ p.str) = (lit "transport=" ++ p.str, [], false) := by cases p <;> decide
  have c2 : cut (chr '=') (lit "transport=" ++ p.str) = (lit "transport", p.str, true) := by cases p <;> decide
  have q1 : queryUnescape (lit "transport") = some (lit "transport") := queryUnescape_plain _ (by decide)
  have q2 : queryUnescape p.str = some p.str := queryUnescape_plain _ (by cases p <;> decide)
  have hl : (lit "transport=" ++ p.str).length + 1 = 12 + 1 + 1 := by cases p <;> decide
  have hne : ((lit "transport=" ++ p.str) == []) = false := by cases p <;> decide
  have hsemi : (lit "transport=" ++ p.str).contains (chr ';') = false := by cases p <;> decide
  rw [parseQuery, hl, parseQueryAux]
  simp only [hne, c1, hsemi, c2, q1, q2, Bool.false_eq_true, if_false, List.any_nil, List.nil_append]
  rw [parseQueryAux]; simp

theorem parseProto_transport (p : Proto) : parseProto (lit "transport=" ++ p.str) = .ok (some p) := by
  unfold parseProto
  rw [parseQuery_transport]
  cases p <;> rfl

/-! ### net.SplitHostPort on the bracketed form -/

theorem index_append (sep : UInt8) (a b : Str) (ha : sep ∉ a) : index sep (a ++ sep :: b) = some a.length := by
  unfold index
  induction a with
  | nil => simp [List.findIdx?_cons]
  | cons c r ih =>
    have hc : (c == sep) = false := by
      have : c ≠ sep := fun e => ha (e ▸ List.mem_cons_self)
      simpa using this
    have := ih (fun hm => ha (List.mem_cons_of_mem _ hm))
    simp [List.findIdx?_cons, hc, this]

theorem splitHostPort_join_bracket (host ds : Str)
    (hh : ∀ b ∈ host, b ≠ chr '[' ∧ b ≠ chr ']')
    (hd : ∀ b ∈ ds, b ≠ chr ':' ∧ b ≠ chr '[' ∧ b ≠ chr ']') :
    splitHostPort (chr '[' :: (host ++ chr ']' :: chr ':' :: ds)) = .ok (host, ds) := by
  have hcolon : chr ':' ∉ ds := fun hm => (hd _ hm).1 rfl
  have hshape : chr '[' :: (host ++ chr ']' :: chr ':' :: ds) = (chr '[' :: (host ++ [chr ']'])) ++ chr ':' :: ds := by simp
  have hshape2 : chr '[' :: (host ++ chr ']' :: chr ':' :: ds) = (chr '[' :: host) ++ chr ']' :: (chr ':' :: ds) := by simp
  have hidx : index (chr ']') (chr '[' :: (host ++ chr ']' :: chr ':' :: ds)) = some (host.length + 1) := by
    rw [hshape2, index_append]
    · simp
    · intro hm
      simp only [List.mem_cons] at hm
      rcases hm with hm | hm
      · exact absurd hm (by decide)
      · exact (hh _ hm).2 rfl
  have hlast : lastIndex (chr ':') (chr '[' :: (host ++ chr ']' :: chr ':' :: ds)) = some (host.length + 2) := by
    rw [hshape, lastIndex_append _ _ _ hcolon]; simp
  unfold splitHostPort
  rw [hlast]
  simp only [hidx, List.head?_cons, beq_self_eq_true, if_true]
  have hlen : (host.length + 1 + 1 == (chr '[' :: (host ++ chr ']' :: chr ':' :: ds)).length) = false := by
    simp
  simp only [hlen, Bool.false_eq_true, if_false]
  have hd1 : (chr '[' :: (host ++ chr ']' :: chr ':' :: ds)).drop 1 = host ++ chr ']' :: chr ':' :: ds := by simp
  have hhost : ((chr '[' :: (host ++ chr ']' :: chr ':' :: ds)).drop 1).take (host.length + 1 - 1) = host := by
    rw [hd1]; simp
  have hc2 : ((chr '[' :: (host ++ chr ']' :: chr ':' :: ds)).drop 1).contains (chr '[') = false := by
    rw [hd1]
    apply contains_false_of_not_mem
    intro hm
    simp only [List.mem_append, List.mem_cons] at hm
    rcases hm with hm | hm | hm | hm
    · exact (hh _ hm).1 rfl
    · exact absurd hm (by decide)
    · exact absurd hm (by decide)
    · exact (hd _ hm).2.1 rfl
  have hd2 : (chr '[' :: (host ++ chr ']' :: chr ':' :: ds)).drop (host.length + 1 + 1) = chr ':' :: ds := by
    rw [hshape2]; rw [List.drop_append]; simp
  have hc3 : ((chr '[' :: (host ++ chr ']' :: chr ':' :: ds)).drop (host.length + 1 + 1)).contains (chr ']') = false := by
    rw [hd2]
    apply contains_false_of_not_mem
    intro hm
    simp only [List.mem_cons] at hm
    rcases hm with hm | hm
    · exact absurd hm (by decide)
    · exact (hd _ hm).2.2 rfl
  have hd3 : (chr '[' :: (host ++ chr ']' :: chr ':' :: ds)).drop (host.length + 2 + 1) = ds := by
    rw [hshape]; rw [List.drop_append]; simp
  simp only [hhost, hc2, hc3, hd3, Bool.false_eq_true, if_false]

/-! ### what url.Parse leaves in the opaque part -/

theorem cut_fst_spec (sep : UInt8) (s : Str) :
    sep ∉ (cut sep s).1 ∧ (∀ b ∈ (cut sep s).1, b ∈ s) := by
  induction s with
  | nil => simp [cut]
  | cons c r ih =>
    unfold cut
    by_cases hc : c == sep
    · simp [hc]
    · simp only [hc, Bool.false_eq_true, if_false]
      have hne : c ≠ sep := by simpa using hc
      constructor
      · intro hm
        simp only [List.mem_cons] at hm
        rcases hm with hm | hm
        · exact hne hm.symm
        · exact ih.1 hm
      · intro b hb
        simp only [List.mem_cons] at hb
        rcases hb with hb | hb
        · exact hb ▸ List.mem_cons_self
        · exact List.mem_cons_of_mem _ (ih.2 b hb)

theorem getSchemeAux_rest (orig : Str) (i : Nat) (acc s : Str) (sch rest : Str)
    (hs : ∀ b ∈ s, b ∈ orig) (h : getSchemeAux orig i acc s = some (sch, rest)) : ∀ b ∈ rest, b ∈ orig := by
  induction s generalizing i acc with
  | nil => simp [getSchemeAux] at h; rw [← h.2]; exact fun b hb => hb
  | cons c r ih =>
    have hr : ∀ b ∈ r, b ∈ orig := fun b hb => hs b (List.mem_cons_of_mem _ hb)
    unfold getSchemeAux at h
    split at h
    · exact ih _ _ hr h
    · split at h
      · split at h
        · simp at h; rw [← h.2]; exact fun b hb => hb
        · exact ih _ _ hr h
      · split at h
        · split at h
          · simp at h
          · simp at h; rw [← h.2]; exact hr
        · simp at h; rw [← h.2]; exact fun b hb => hb

theorem getScheme_rest (u sch rest : Str) (h : getScheme u = some (sch, rest)) : ∀ b ∈ rest, b ∈ u :=
  getSchemeAux_rest u 0 [] u sch rest (fun _ hb => hb) h

theorem dropLast_no_sep (sep : UInt8) (s : Str) (hl : s.getLast? = some sep) (hc : count sep s = 1) :
    sep ∉ s.dropLast := by
  have hs : s = s.dropLast ++ [sep] := by
    cases hne : s with
    | nil => simp [hne] at hl
    | cons c r =>
      have hn : s ≠ [] := by rw [hne]; simp
      have hg : s.getLast hn = sep := by
        rw [List.getLast?_eq_some_getLast hn] at hl; exact Option.some.inj hl
      have := List.dropLast_concat_getLast hn
      rw [hg] at this
      rw [← hne]; exact this.symm
  intro hm
  unfold count at hc
  rw [hs, List.filter_append, List.length_append] at hc
  have h1 : ([sep].filter (· == sep)).length = 1 := by simp
  have h2 : 0 < (s.dropLast.filter (· == sep)).length := by
    apply List.length_pos_of_mem (a := sep)
    simp [List.mem_filter, hm]
  omega

theorem urlParse_opq_chars (raw scheme opq q : Str) (h : urlParse raw = .rootless scheme opq q) :
    ∀ b ∈ opq, Plain b ∧ b ≠ chr '?' := by
  unfold urlParse at h
  obtain ⟨hnohash, hsub⟩ := cut_fst_spec (chr '#') raw
  rcases hcut : cut (chr '#') raw with ⟨u, frag, fnd⟩
  rw [hcut] at hnohash hsub h
  simp only at hnohash hsub h
  split at h
  · simp at h
  · rename_i hctl
    split at h
    · split at h <;> simp at h
    · cases hg : getScheme u with
      | none => simp [hg] at h
      | some p =>
        obtain ⟨sc, rest⟩ := p
        simp only [hg] at h
        have hrest := getScheme_rest u sc rest hg
        have hplain : ∀ b ∈ u, Plain b := by
          intro b hb
          refine ⟨fun e => hnohash (e ▸ hb), ?_⟩
          have : containsCTL u = false := by simpa using hctl
          unfold containsCTL at this
          rw [List.any_eq_false] at this
          simpa using this b hb
        by_cases hcond : (rest.getLast? == some (chr '?') && count (chr '?') rest == 1) = true
        · simp only [hcond, if_true] at h
          have hc' := hcond
          simp only [Bool.and_eq_true, beq_iff_eq] at hc'
          split at h
          · split at h
            · split at h
              · simp at h
              · simp only [UrlLite.rootless.injEq] at h
                obtain ⟨_, ho, _⟩ := h
                subst ho
                intro b hb
                have hbm : b ∈ rest := List.dropLast_subset rest hb
                exact ⟨hplain b (hrest b hbm), fun e => dropLast_no_sep (chr '?') rest hc'.1 hc'.2 (e ▸ hb)⟩
            · simp at h
          · simp at h
        · simp only [hcond, Bool.false_eq_true, if_false] at h
          obtain ⟨hnoq, hqsub⟩ := cut_fst_spec (chr '?') rest
          split at h
          · split at h
            · split at h
              · simp at h
              · simp only [UrlLite.rootless.injEq] at h
                obtain ⟨_, ho, _⟩ := h
                subst ho
                intro b hb
                exact ⟨hplain b (hrest b (hqsub b hb)), fun e => hnoq (e ▸ hb)⟩
            · simp at h
          · simp at h

/-! ### what net.SplitHostPort returns as the host -/

theorem index_take (sep : UInt8) (l : Str) (e : Nat) (h : index sep l = some e) : sep ∉ l.take e := by
  unfold index at h
  induction l generalizing e with
  | nil => simp
  | cons c r ih =>
    rw [List.findIdx?_cons] at h
    by_cases hc : c == sep
    · simp [hc] at h; subst h; simp
    · simp only [hc, Bool.false_eq_true, if_false] at h
      cases hr : List.findIdx? (fun x => x == sep) r with
      | none => simp [hr] at h
      | some k =>
        simp [hr] at h; subst h
        have hne : c ≠ sep := by simpa using hc
        intro hm
        simp only [List.take_succ_cons, List.mem_cons] at hm
        rcases hm with hm | hm
        · exact hne hm.symm
        · exact ih k hr hm

theorem not_mem_of_contains_false (c : UInt8) (s : Str) (h : s.contains c = false) : c ∉ s := by
  intro hm
  have : s.contains c = true := by simpa using hm
  rw [h] at this; cases this

/-- the host `SplitHostPort` returns is made of bytes of its input and contains no bracket -/
theorem splitHostPort_host (hp host p : Str) (h : splitHostPort hp = .ok (host, p)) :
    (∀ b ∈ host, b ∈ hp) ∧ (∀ b ∈ host, b ≠ chr '[' ∧ b ≠ chr ']') := by
  unfold splitHostPort at h
  cases hl : lastIndex (chr ':') hp with
  | none => simp [hl] at h
  | some i =>
    simp only [hl] at h
    by_cases hb : (hp.head? == some (chr '[')) = true
    · simp only [hb, if_true] at h
      cases he : index (chr ']') hp with
      | none => simp [he] at h
      | some e =>
        simp only [he] at h
        split at h
        · simp at h
        · split at h
          · split at h
            · simp at h
            · split at h
              · simp at h
              · rename_i hno1 hno2
                simp only [Except.ok.injEq, Prod.mk.injEq] at h
                obtain ⟨hh, _⟩ := h
                have hopen : chr '[' ∉ hp.drop 1 := not_mem_of_contains_false _ _ (by simpa using hno1)
                have hsub1 : ∀ b ∈ host, b ∈ hp.drop 1 := by
                  intro b hbm; rw [← hh] at hbm; exact List.mem_of_mem_take hbm
                have hclose : chr ']' ∉ hp.take e := index_take _ _ _ he
                have hsub2 : ∀ b ∈ host, b ∈ hp.take e := by
                  intro b hbm
                  rw [← hh] at hbm
                  cases hp with
                  | nil => simp at hbm
                  | cons c r =>
                    cases e with
                    | zero => simp at hbm
                    | succ k =>
                      simp only [List.drop_succ_cons, List.drop_zero, Nat.add_sub_cancel] at hbm
                      simp only [List.take_succ_cons, List.mem_cons]
                      exact Or.inr hbm
                exact ⟨fun b hbm => List.mem_of_mem_drop (hsub1 b hbm),
                  fun b hbm => ⟨fun e' => hopen (e' ▸ hsub1 b hbm), fun e' => hclose (e' ▸ hsub2 b hbm)⟩⟩
          · split at h <;> simp at h
    · simp only [hb, Bool.false_eq_true, if_false] at h
      split at h
      · simp at h
      · split at h
        · simp at h
        · split at h
          · simp at h
          · rename_i hno1 hno2
            simp only [Except.ok.injEq, Prod.mk.injEq] at h
            obtain ⟨hh, _⟩ := h
            have hopen : chr '[' ∉ hp := by
              have := not_mem_of_contains_false (chr '[') (hp.drop 0) (by simpa using hno1)
              simpa using this
            have hclose : chr ']' ∉ hp := by
              have := not_mem_of_contains_false (chr ']') (hp.drop 0) (by simpa using hno2)
              simpa using this
            have hsub : ∀ b ∈ host, b ∈ hp := by
              intro b hbm; rw [← hh] at hbm; exact List.mem_of_mem_take hbm
            exact ⟨hsub, fun b hbm => ⟨fun e' => hopen (e' ▸ hsub b hbm), fun e' => hclose (e' ▸ hsub b hbm)⟩⟩

end Stun.C17
