/-
  Write budget of the client (C11): over a whole history, a request is written at most maxAttempts+1 times.
  Potential argument: `budget M h c` = sum over the registered transactions of handler `h` of the attempts they have
  left; every write for `h` is paid for either by a `Start` with that handler (M+1 units) or by one unit of budget.
-/
import Stun.Proofs.ClientHistory
namespace Stun.ClientProofs
open Stun Stun.Client
set_option maxHeartbeats 800000

/-- writes that belong to handler `h` -/
def wr (h : Nat) (outs : List COut) : Nat :=
  (outs.filter (fun o => match o with | .write _ (some h') => h' == h | _ => false)).length

theorem wr_append (h : Nat) (a b : List COut) : wr h (a ++ b) = wr h a + wr h b := by
  simp [wr, List.filter_append]

theorem wr_nil (h : Nat) : wr h [] = 0 := rfl

theorem wr_write (h h' : Nat) (raw : Bytes) : wr h [COut.write raw (some h')] = if h' == h then 1 else 0 := by
  by_cases hh : h' = h <;> simp [wr, hh]

theorem wr_write_call (h h' h'' : Nat) (raw : Bytes) (id : TID) (e : CEv) :
    wr h [COut.write raw (some h'), COut.call h'' id e] = if h' == h then 1 else 0 := by
  by_cases hh : h' = h <;> simp [wr, hh]

theorem wr_call (h h' : Nat) (id : TID) (e : CEv) : wr h [COut.call h' id e] = 0 := by simp [wr]
theorem wr_fallback (h : Nat) (id : TID) (e : CEv) : wr h [COut.fallback id e] = 0 := by simp [wr]
theorem wr_writeNone (h : Nat) (raw : Bytes) : wr h [COut.write raw none] = 0 := by simp [wr]

/-- attempts left, summed over the registered transactions of handler `h` -/
def budget (M h : Nat) (c : Client) : Nat :=
  ((c.t.filter (fun p => p.2.h == h)).map (fun p => M - p.2.attempt)).sum

theorem budget_congr (M h : Nat) (c c' : Client) (ht : c'.t = c.t) : budget M h c' = budget M h c := by
  unfold budget; rw [ht]

theorem budget_insert (M h : Nat) (c : Client) (tx : Txn) :
    budget M h (c.insert tx) = budget M h c + (if tx.h == h then M - tx.attempt else 0) := by
  simp only [budget, Client.insert, List.filter_append, List.map_append, List.sum_append, List.filter_cons, List.filter_nil]
  by_cases hh : tx.h == h <;> simp [hh]

theorem budget_erase (M h : Nat) (c : Client) (hi : TInv c) (id : TID) (tx : Txn) (hl : c.lookup id = some tx) :
    budget M h (c.erase id) + (if tx.h == h then M - tx.attempt else 0) = budget M h c := by
  obtain ⟨l1, l2, hs, h1, h2⟩ := lookup_split c hi id tx hl
  have e1 : l1.filter (fun p => p.1 != id) = l1 := by
    rw [List.filter_eq_self]; intro q hq; simpa using h1 q hq
  have e2 : l2.filter (fun p => p.1 != id) = l2 := by
    rw [List.filter_eq_self]; intro q hq; simpa using h2 q hq
  have et : (c.erase id).t = l1 ++ l2 := by
    show c.t.filter (fun p => p.1 != id) = _
    rw [hs, List.filter_append, List.filter_cons, e1, e2]; simp
  unfold budget
  rw [et, hs]
  simp only [List.filter_append, List.map_append, List.sum_append, List.filter_cons]
  by_cases hh : (tx.h == h) = true
  · simp only [hh, if_true, List.map_cons, List.sum_cons]; omega
  · simp only [hh, Bool.false_eq_true, if_false]; omega

/-- the retransmission of a transaction that still has attempts left pays for its write with one unit -/
theorem retransmit_budget (M h : Nat) (c : Client) (hi : TInv c) (tx : Txn) (id : TID) (htx : tx.id = id)
    (hk : id ∉ ckeys c) (hleft : tx.attempt < M) :
    wr h (retransmit c tx id).2 + budget M h (retransmit c tx id).1 ≤
      budget M h c + (if tx.h == h then M - tx.attempt else 0) := by
  have hk' : ({ tx with attempt := tx.attempt + 1 } : Txn).id ∉ ckeys c := by simpa [htx] using hk
  have hi1 := tinv_insert c { tx with attempt := tx.attempt + 1 } hi hk'
  have hb1 := budget_insert M h c { tx with attempt := tx.attempt + 1 }
  have hl1 : (c.insert { tx with attempt := tx.attempt + 1 }).lookup id = some { tx with attempt := tx.attempt + 1 } := by
    have := lookup_insert_self c { tx with attempt := tx.attempt + 1 } hk'
    simpa [htx] using this
  simp only at hb1
  unfold Client.retransmit
  simp only
  generalize hc1 : c.insert { tx with attempt := tx.attempt + 1 } = c1 at *
  cases hs : (c1.agent.start id (nextTimeout { tx with attempt := tx.attempt + 1 } c1.now)).2 with
  | some err =>
    simp only
    have he := budget_erase M h c1 hi1 id _ hl1
    simp only at he
    rw [wr_call]
    by_cases hh : (tx.h == h) = true
    · simp only [hh, if_true] at he hb1 ⊢; omega
    · simp only [hh, Bool.false_eq_true, if_false] at he hb1 ⊢; omega
  | none =>
    simp only
    generalize hc2 : ({ c1 with agent := (c1.agent.start id (nextTimeout { tx with attempt := tx.attempt + 1 } c1.now)).1 } : Client) = c2
    have ht2 : c2.t = c1.t := by subst hc2; rfl
    have hwt := connWrite_t c2 tx.raw
    have htw : (c2.connWrite tx.raw).1.t = c1.t := by rw [hwt, ht2]
    by_cases hok : (c2.connWrite tx.raw).2 = true
    · simp only [hok, if_true]
      rw [wr_write, budget_congr M h c1 _ htw]
      by_cases hh : (tx.h == h) = true
      · simp only [hh, if_true] at hb1 ⊢; omega
      · simp only [hh, Bool.false_eq_true, if_false] at hb1 ⊢; omega
    · simp only [hok, Bool.false_eq_true, if_false]
      have hi3 := tinv_congr c1 _ htw hi1
      have hl3 : (c2.connWrite tx.raw).1.lookup id = some { tx with attempt := tx.attempt + 1 } := by
        unfold Client.lookup; rw [htw]; exact hl1
      have he := budget_erase M h _ hi3 id _ hl3
      simp only at he
      rw [wr_write_call]
      have hb3 : budget M h (c2.connWrite tx.raw).1 = budget M h c1 := budget_congr M h c1 _ htw
      have hbe : budget M h ({ (c2.connWrite tx.raw).1.erase id with agent := (((c2.connWrite tx.raw).1.erase id).agent.stop id).1 } : Client)
          = budget M h ((c2.connWrite tx.raw).1.erase id) := budget_congr M h _ _ rfl
      rw [hbe]
      by_cases hh : (tx.h == h) = true
      · simp only [hh, if_true] at he hb1 ⊢; omega
      · simp only [hh, Bool.false_eq_true, if_false] at he hb1 ⊢; omega

/-- one run of `handleAgentCallback` never writes more than the budget it consumes -/
theorem callback_budget (M h : Nat) (c : Client) (hi : TInv c) (hM : c.maxAttempts = M) (id : TID) (e : CEv) :
    wr h (c.callback id e).2 + budget M h (c.callback id e).1 ≤ budget M h c := by
  unfold Client.callback
  cases hl : c.lookup id with
  | none =>
    simp only
    by_cases hfb : (!c.closed && c.hasFallback && e != .stopped) = true
    · simp only [hfb, if_true, wr_fallback]; omega
    · simp only [hfb, Bool.false_eq_true, if_false, wr_nil]; omega
  | some tx =>
    simp only
    obtain ⟨k, hmem, hk⟩ := lookup_mem c id tx hl
    have htxid : tx.id = id := by have := hi.keyId _ hmem; simp only at this; rw [← this, hk]
    have hie := tinv_erase c id hi
    have hbe := budget_erase M h c hi id tx hl
    by_cases hdone : (c.closed || decide (c.maxAttempts ≤ tx.attempt) || e.isMsg) = true
    · simp only [hdone, if_true, wr_call]; omega
    · simp only [hdone, Bool.false_eq_true, if_false]
      have hleft : tx.attempt < M := by
        simp only [Bool.or_eq_true, decide_eq_true_eq, not_or] at hdone
        omega
      have hk' : id ∉ ckeys (c.erase id) := by rw [ckeys_erase]; simp
      have := retransmit_budget M h (c.erase id) hie tx id htxid hk' hleft
      omega

theorem callbacks_budget (M h : Nat) (S) (evs : List (TID × CEv)) (c : Client) (hi : TInv c) (hf : FromStarts S c)
    (hM : c.maxAttempts = M) :
    wr h (c.callbacks evs).2 + budget M h (c.callbacks evs).1 ≤ budget M h c := by
  induction evs generalizing c with
  | nil => simp only [Client.callbacks, wr_nil]; omega
  | cons ev r ih =>
    obtain ⟨id, e⟩ := ev
    have s1 := callback_spec S c hi hf id e
    have b1 := callback_budget M h c hi hM id e
    have b2 := ih (c.callback id e).1 s1.inv s1.from_ (by rw [s1.cfgSame.1, hM])
    simp only [Client.callbacks, wr_append]
    omega

theorem tick_budget (M h : Nat) (S) (c : Client) (hi : TInv c) (hf : FromStarts S c) (hM : c.maxAttempts = M) (t : Nat) :
    wr h (c.tick t).2 + budget M h (c.tick t).1 ≤ budget M h c := by
  unfold Client.tick
  simp only
  exact callbacks_budget M h S _ { c with now := t, agent := (c.agent.collect t).1 } (tinv_congr c _ rfl hi)
    (fun p hp => hf p hp) hM

theorem deliver_budget (M h : Nat) (c : Client) (hi : TInv c) (hM : c.maxAttempts = M) (d : Bytes) :
    wr h (c.deliver d).2 + budget M h (c.deliver d).1 ≤ budget M h c := by
  unfold Client.deliver
  split
  · unfold Client.deliverDecoded
    split
    · simp only [wr_nil]; omega
    · exact callback_budget M h { c with agent := (c.agent.process (readerMsg.readFrom d).1.tid).1 }
        (tinv_congr c _ rfl hi) hM _ _
  · simp only [wr_nil]; omega

/-- `Close` writes nothing and leaves the table alone (every callback returns at once: the client is closed) -/
theorem close_budget (M h : Nat) (S) (c : Client) (hi : TInv c) (hf : FromStarts S c) (hM : c.maxAttempts = M) :
    wr h (c.close).2.2 + budget M h (c.close).1 ≤ budget M h c := by
  unfold Client.close
  by_cases hc : c.closed = true
  · simp only [hc, if_true, wr_nil]; omega
  · simp only [hc, Bool.false_eq_true, if_false]
    have b := callbacks_budget M h S ((c.agent.close.2.2).map (fun e => (e.id, CEv.agentClosed)))
      { c with closed := true, agent := c.agent.close.1 } (tinv_congr c _ rfl hi) (fun p hp => hf p hp) hM
    split
    · rw [wr_append]
      have : wr h [COut.connClose] = 0 := by simp [wr]
      rw [this]; exact b
    · exact b

/-- `Start` with a handler brings M+1 units for that handler: one for the first write, M for retransmissions -/
theorem start_budget (M h : Nat) (c : Client) (hi : TInv c) (id : TID) (raw : Bytes) (h0 : Nat) :
    wr h (c.start id raw (some h0)).2.2 + budget M h (c.start id raw (some h0)).1 ≤
      budget M h c + (if h0 == h then M + 1 else 0) := by
  unfold Client.start
  by_cases hc : c.closed = true
  · rw [if_pos hc]; simp only [wr_nil]; omega
  · rw [if_neg hc]
    simp only
    by_cases hex : (c.lookup id).isSome = true
    · rw [if_pos hex]; simp only [wr_nil]; omega
    · rw [if_neg hex]
      have hk : id ∉ ckeys c := by rw [← lookup_iff]; exact hex
      have hi1 := tinv_insert c ⟨id, 0, c.rto, raw, h0, c.now⟩ hi hk
      have hb1 := budget_insert M h c ⟨id, 0, c.rto, raw, h0, c.now⟩
      have hl1 : (c.insert ⟨id, 0, c.rto, raw, h0, c.now⟩).lookup id = some ⟨id, 0, c.rto, raw, h0, c.now⟩ :=
        lookup_insert_self c ⟨id, 0, c.rto, raw, h0, c.now⟩ hk
      simp only at hb1
      generalize hc1 : c.insert ⟨id, 0, c.rto, raw, h0, c.now⟩ = c1 at *
      cases hs : (c1.agent.start id (nextTimeout ⟨id, 0, c.rto, raw, h0, c.now⟩ c.now)) with
      | mk a err =>
        cases err with
        | some er =>
          simp only [wr_nil]
          have he := budget_erase M h c1 hi1 id _ hl1
          simp only at he
          by_cases hh : (h0 == h) = true
          · simp only [hh, if_true] at he hb1 ⊢; omega
          · simp only [hh, Bool.false_eq_true, if_false] at he hb1 ⊢; omega
        | none =>
          simp only
          generalize hc2 : ({ c1 with agent := a } : Client) = c2
          have ht2 : c2.t = c1.t := by subst hc2; rfl
          have hwt := connWrite_t c2 raw
          have htw : (c2.connWrite raw).1.t = c1.t := by rw [hwt, ht2]
          by_cases hok : (c2.connWrite raw).2 = true
          · simp only [hok, if_true]
            rw [wr_write, budget_congr M h c1 _ htw]
            by_cases hh : (h0 == h) = true
            · simp only [hh, if_true] at hb1 ⊢; omega
            · simp only [hh, Bool.false_eq_true, if_false] at hb1 ⊢; omega
          · simp only [hok, Bool.false_eq_true, if_false]
            have hi3 := tinv_congr c1 _ htw hi1
            have hl3 : (c2.connWrite raw).1.lookup id = some ⟨id, 0, c.rto, raw, h0, c.now⟩ := by
              unfold Client.lookup; rw [htw]; exact hl1
            have he := budget_erase M h _ hi3 id _ hl3
            simp only at he
            rw [wr_write]
            have hb3 : budget M h (c2.connWrite raw).1 = budget M h c1 := budget_congr M h c1 _ htw
            have hbe : budget M h ({ (c2.connWrite raw).1.erase id with agent := (((c2.connWrite raw).1.erase id).agent.stop id).1 } : Client)
                = budget M h ((c2.connWrite raw).1.erase id) := budget_congr M h _ _ rfl
            rw [hbe]
            by_cases hh : (h0 == h) = true
            · simp only [hh, if_true] at he hb1 ⊢; omega
            · simp only [hh, Bool.false_eq_true, if_false] at he hb1 ⊢; omega

/-- an indication is not a transaction: its write belongs to no handler -/
theorem indicate_budget (M h : Nat) (c : Client) (id : TID) (raw : Bytes) :
    wr h (c.start id raw none).2.2 + budget M h (c.start id raw none).1 ≤ budget M h c := by
  unfold Client.start
  by_cases hc : c.closed = true
  · rw [if_pos hc]; simp only [wr_nil]; omega
  · rw [if_neg hc]; simp only [wr_writeNone, budget_congr M h c _ (connWrite_t c raw)]; omega

theorem maxAttempts_callbacks (S) (evs : List (TID × CEv)) (c : Client) (hi : TInv c) (hf : FromStarts S c) :
    (c.callbacks evs).1.maxAttempts = c.maxAttempts := (callbacks_spec S evs c hi hf).cfgSame.1

/-- no operation changes the attempt limit -/
theorem step_maxAttempts (S) (c : Client) (hi : TInv c) (hf : FromStarts S c) (op : COp) :
    (c.step op).1.maxAttempts = c.maxAttempts := by
  cases op with
  | start id raw handler =>
    simp only [Client.step]
    unfold Client.start
    by_cases hc : c.closed = true
    · rw [if_pos hc]
    · rw [if_neg hc]
      cases handler with
      | none => simp only; exact (connWrite_cfg c raw).1
      | some h0 =>
        simp only
        by_cases hex : (c.lookup id).isSome = true
        · rw [if_pos hex]
        · rw [if_neg hex]
          split
          · rfl
          · split
            · exact (connWrite_cfg _ raw).1
            · exact (connWrite_cfg _ raw).1
  | deliver d =>
    simp only [Client.step]
    unfold Client.deliver
    split
    · unfold Client.deliverDecoded
      split
      · rfl
      · exact (callback_spec S { c with agent := (c.agent.process (readerMsg.readFrom d).1.tid).1 }
          (tinv_congr c _ rfl hi) (fun p hp => hf p hp) _ _).cfgSame.1
    · rfl
  | tick t =>
    simp only [Client.step, Client.tick]
    exact maxAttempts_callbacks S _ { c with now := t, agent := (c.agent.collect t).1 } (tinv_congr c _ rfl hi)
      (fun p hp => hf p hp)
  | clock t => rfl
  | failWrite id => rfl
  | setRTO r => rfl
  | close =>
    simp only [Client.step]
    unfold Client.close
    by_cases hc : c.closed = true
    · rw [if_pos hc]
    · rw [if_neg hc]
      simp only
      exact maxAttempts_callbacks S _ { c with closed := true, agent := c.agent.close.1 } (tinv_congr c _ rfl hi)
        (fun p hp => hf p hp)

/-- one operation of any kind -/
theorem step_budget (M h : Nat) (S) (c : Client) (hi : TInv c) (hf : FromStarts S c) (hM : c.maxAttempts = M) (op : COp) :
    wr h (c.step op).2.2 + budget M h (c.step op).1 ≤
      budget M h c + (M + 1) * ((startsOf [op]).filter (fun x => x.1 == h)).length := by
  cases op with
  | start id raw handler =>
    cases handler with
    | some h0 =>
      have := start_budget M h c hi id raw h0
      simp only [Client.step, startsOf, List.filter_cons, List.filter_nil]
      by_cases hh : (h0 == h) = true
      · simp only [hh, if_true, List.length_cons, List.length_nil] at this ⊢; omega
      · simp only [hh, Bool.false_eq_true, if_false, List.length_nil] at this ⊢; omega
    | none =>
      have := indicate_budget M h c id raw
      simp only [Client.step, startsOf, List.filter_nil, List.length_nil]; omega
  | deliver d =>
    have := deliver_budget M h c hi hM d
    simp only [Client.step, startsOf, List.filter_nil, List.length_nil]; omega
  | tick t =>
    have := tick_budget M h S c hi hf hM t
    simp only [Client.step, startsOf, List.filter_nil, List.length_nil]; omega
  | clock t =>
    have hb : budget M h (c.step (.clock t)).1 = budget M h c := budget_congr M h c _ rfl
    simp only [startsOf, List.filter_nil, List.length_nil]
    have hw : wr h (c.step (.clock t)).2.2 = 0 := rfl
    omega
  | failWrite id =>
    have hb : budget M h (c.step (.failWrite id)).1 = budget M h c := budget_congr M h c _ rfl
    simp only [startsOf, List.filter_nil, List.length_nil]
    have hw : wr h (c.step (.failWrite id)).2.2 = 0 := rfl
    omega
  | setRTO r =>
    have hb : budget M h (c.step (.setRTO r)).1 = budget M h c := budget_congr M h c _ rfl
    simp only [startsOf, List.filter_nil, List.length_nil]
    have hw : wr h (c.step (.setRTO r)).2.2 = 0 := rfl
    omega
  | close =>
    have := close_budget M h S c hi hf hM
    simp only [Client.step, startsOf, List.filter_nil, List.length_nil]; omega

/-- whole histories, from any consistent state -/
theorem run_budget (M h : Nat) (ops : List COp) : ∀ (S) (c : Client), TInv c → FromStarts S c → c.maxAttempts = M →
    wr h (allOuts (run c ops).2) + budget M h (run c ops).1 ≤ budget M h c + (M + 1) * startCount h ops := by
  induction ops with
  | nil => intro S c _ _ _; simp [run, allOuts, wr, startCount, startsOf]
  | cons op r ih =>
    intro S c hi hf hM
    obtain ⟨s1, s2, _⟩ := step_spec S c hi hf op
    have sb := step_budget M h S c hi hf hM op
    have hM' : (c.step op).1.maxAttempts = M := by rw [step_maxAttempts S c hi hf op, hM]
    have ib := ih (startsOf [op] ++ S) (c.step op).1 s1 s2 hM'
    have hsc : startCount h (op :: r) = ((startsOf [op]).filter (fun x => x.1 == h)).length + startCount h r := by
      unfold startCount; rw [startsOf_cons op r, List.filter_append, List.length_append]
    simp only [run, allOuts_cons, wr_append]
    rw [hsc, Nat.mul_add]
    omega

end Stun.ClientProofs
