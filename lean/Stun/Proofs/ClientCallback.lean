import Stun.Proofs.ClientBase
namespace Stun.ClientProofs
open Stun Stun.Client
set_option maxHeartbeats 800000

theorem connWrite_t (c : Client) (raw : Bytes) : (c.connWrite raw).1.t = c.t := by
  unfold Client.connWrite; split <;> rfl
theorem connWrite_closed (c : Client) (raw : Bytes) : (c.connWrite raw).1.closed = c.closed := by
  unfold Client.connWrite; split <;> rfl
theorem connWrite_agent (c : Client) (raw : Bytes) : (c.connWrite raw).1.agent = c.agent := by
  unfold Client.connWrite; split <;> rfl
theorem connWrite_cfg (c : Client) (raw : Bytes) :
    (c.connWrite raw).1.maxAttempts = c.maxAttempts ∧ (c.connWrite raw).1.closeConn = c.closeConn ∧
    (c.connWrite raw).1.now = c.now ∧ (c.connWrite raw).1.hasFallback = c.hasFallback ∧
    (c.connWrite raw).1.rto = c.rto := by
  unfold Client.connWrite; split <;> exact ⟨rfl, rfl, rfl, rfl, rfl⟩

theorem tinv_congr (c c' : Client) (h : c'.t = c.t) (hi : TInv c) : TInv c' :=
  ⟨by rw [h]; exact hi.keyId, by unfold ckeys; rw [h]; exact hi.nodup⟩
theorem pend_congr (c c' : Client) (h : c'.t = c.t) (x : Nat) : pend x c' = pend x c := by unfold pend; rw [h]
theorem ckeys_congr (c c' : Client) (h : c'.t = c.t) : ckeys c' = ckeys c := by unfold ckeys; rw [h]

theorem lookup_insert_self (c : Client) (tx : Txn) (hk : tx.id ∉ ckeys c) : (c.insert tx).lookup tx.id = some tx := by
  simp only [Client.lookup, Client.insert, List.find?_append]
  have : c.t.find? (fun p => p.1 == tx.id) = none := by
    rw [List.find?_eq_none]; intro p hp
    have : p.1 ≠ tx.id := fun e => hk (List.mem_map.mpr ⟨p, hp, e⟩)
    simpa using this
  simp [this]

/-- what one run of `handleAgentCallback` / `retransmit` may do -/
structure StepSpec (c : Client) (id : TID) (h0 : Nat) (raw0 : Bytes) (extra : Nat → Nat) (r : Client × List COut) : Prop where
  inv : TInv r.1
  count : ∀ h, calls h r.2 + pend h r.1 = pend h c + extra h
  closedSame : r.1.closed = c.closed
  cfgSame : r.1.maxAttempts = c.maxAttempts ∧ r.1.closeConn = c.closeConn ∧ r.1.now = c.now ∧
            r.1.hasFallback = c.hasFallback ∧ r.1.rto = c.rto
  callOwn : ∀ h id' e', COut.call h id' e' ∈ r.2 → id' = id ∧ h = h0
  writeOwn : ∀ raw h, COut.write raw h ∈ r.2 → raw = raw0 ∧ h = some h0
  noFallback : ∀ id' e', COut.fallback id' e' ∉ r.2
  noConnClose : COut.connClose ∉ r.2
  keys : ∀ id', id' ≠ id → (id' ∈ ckeys r.1 ↔ id' ∈ ckeys c)
  entries : ∀ p ∈ r.1.t, p ∈ c.t ∨ (p.2.h = h0 ∧ p.2.id = id ∧ p.2.raw = raw0)

theorem calls_single_call (h h' : Nat) (id : TID) (e : CEv) :
    calls h [COut.call h' id e] = if h' == h then 1 else 0 := by
  by_cases hh : h' = h <;> simp [calls, hh]

theorem calls_write_call (h h' : Nat) (id : TID) (e : CEv) (raw : Bytes) (x : Option Nat) :
    calls h [COut.write raw x, COut.call h' id e] = if h' == h then 1 else 0 := by
  by_cases hh : h' = h <;> simp [calls, hh]

theorem retransmit_spec (c : Client) (hi : TInv c) (tx : Txn) (id : TID) (htx : tx.id = id) (hk : id ∉ ckeys c) :
    StepSpec c id tx.h tx.raw (fun h => if tx.h == h then 1 else 0) (retransmit c tx id) := by
  have hk' : ({ tx with attempt := tx.attempt + 1 } : Txn).id ∉ ckeys c := by simpa [htx] using hk
  have hi1 := tinv_insert c { tx with attempt := tx.attempt + 1 } hi hk'
  have hp1 := pend_insert c { tx with attempt := tx.attempt + 1 }
  have hl1 : (c.insert { tx with attempt := tx.attempt + 1 }).lookup id = some { tx with attempt := tx.attempt + 1 } := by
    have := lookup_insert_self c { tx with attempt := tx.attempt + 1 } hk'
    simpa [htx] using this
  have hkeys1 : ∀ id', id' ≠ id → (id' ∈ ckeys (c.insert { tx with attempt := tx.attempt + 1 }) ↔ id' ∈ ckeys c) := by
    intro id' hne; rw [ckeys_insert]; simp only [htx]
    exact ⟨fun h => h.elim (fun x => x) (fun h => absurd h hne), Or.inl⟩
  have hc1cfg : (c.insert { tx with attempt := tx.attempt + 1 }).maxAttempts = c.maxAttempts ∧
      (c.insert { tx with attempt := tx.attempt + 1 }).closeConn = c.closeConn ∧
      (c.insert { tx with attempt := tx.attempt + 1 }).now = c.now ∧
      (c.insert { tx with attempt := tx.attempt + 1 }).hasFallback = c.hasFallback ∧
      (c.insert { tx with attempt := tx.attempt + 1 }).rto = c.rto ∧
      (c.insert { tx with attempt := tx.attempt + 1 }).closed = c.closed := ⟨rfl, rfl, rfl, rfl, rfl, rfl⟩
  have hcount : ∀ h, (if ({ tx with attempt := tx.attempt + 1 } : Txn).h == h then 1 else 0)
      = (if tx.h == h then (1 : Nat) else 0) := fun _ => rfl
  have hent1 : ∀ p ∈ (c.insert { tx with attempt := tx.attempt + 1 }).t,
      p ∈ c.t ∨ (p.2.h = tx.h ∧ p.2.id = id ∧ p.2.raw = tx.raw) := by
    intro p hp
    simp only [Client.insert, List.mem_append, List.mem_singleton] at hp
    rcases hp with hp | rfl
    · exact Or.inl hp
    · exact Or.inr ⟨rfl, htx, rfl⟩
  unfold Client.retransmit
  simp only
  generalize hc1 : c.insert { tx with attempt := tx.attempt + 1 } = c1 at *
  cases hs : (c1.agent.start id (nextTimeout { tx with attempt := tx.attempt + 1 } c1.now)).2 with
  | some err =>
    simp only
    have hpe := pend_erase c1 hi1 id _ hl1
    refine ⟨tinv_erase c1 id hi1, ?_, hc1cfg.2.2.2.2.2, ?_, ?_, by simp, by simp, by simp, ?_, ?_⟩
    rotate_right
    · intro p hp; exact hent1 p (List.mem_filter.mp hp).1
    · intro h; rw [calls_single_call]; have e1 := hpe h; have e2 := hp1 h; rw [hcount] at e1 e2
      show _ + pend h (c1.erase id) = _; omega
    · exact ⟨hc1cfg.1, hc1cfg.2.1, hc1cfg.2.2.1, hc1cfg.2.2.2.1, hc1cfg.2.2.2.2.1⟩
    · intro h id' e' hm; simp only [List.mem_singleton, COut.call.injEq] at hm; exact ⟨hm.2.1, hm.1⟩
    · intro id' hne; rw [ckeys_erase]
      exact ⟨fun h => (hkeys1 id' hne).mp h.1, fun h => ⟨(hkeys1 id' hne).mpr h, hne⟩⟩
  | none =>
    simp only
    generalize hc2 : ({ c1 with agent := (c1.agent.start id (nextTimeout { tx with attempt := tx.attempt + 1 } c1.now)).1 } : Client) = c2
    have ht2 : c2.t = c1.t := by subst hc2; rfl
    have hwt := connWrite_t c2 tx.raw
    have hwc := connWrite_closed c2 tx.raw
    have hwcfg := connWrite_cfg c2 tx.raw
    have hc2cfg : c2.maxAttempts = c.maxAttempts ∧ c2.closeConn = c.closeConn ∧ c2.now = c.now ∧
        c2.hasFallback = c.hasFallback ∧ c2.rto = c.rto ∧ c2.closed = c.closed := by
      subst hc2; exact hc1cfg
    by_cases hok : (c2.connWrite tx.raw).2 = true
    · simp only [hok, if_true]
      have htw : (c2.connWrite tx.raw).1.t = c1.t := by rw [hwt, ht2]
      refine ⟨tinv_congr c1 _ htw hi1, ?_, by rw [hwc]; exact hc2cfg.2.2.2.2.2, ?_, by simp, ?_, by simp, by simp, ?_, ?_⟩
      rotate_right
      · intro p hp; rw [htw] at hp; exact hent1 p hp
      · intro h; rw [pend_congr c1 _ htw]; have e2 := hp1 h; rw [hcount] at e2
        have : calls h [COut.write tx.raw (some tx.h)] = 0 := by simp [calls]
        rw [this]; omega
      · obtain ⟨a, b, c', d, e⟩ := hwcfg; obtain ⟨a2, b2, c2', d2, e2, _⟩ := hc2cfg
        exact ⟨by rw [a, a2], by rw [b, b2], by rw [c', c2'], by rw [d, d2], by rw [e, e2]⟩
      · intro raw h hm; simp only [List.mem_singleton, COut.write.injEq] at hm; exact hm
      · intro id' hne; rw [ckeys_congr c1 _ htw]; exact hkeys1 id' hne
    · simp only [hok, Bool.false_eq_true, if_false]
      have htw : (c2.connWrite tx.raw).1.t = c1.t := by rw [hwt, ht2]
      have hi3 := tinv_congr c1 _ htw hi1
      have hl3 : (c2.connWrite tx.raw).1.lookup id = some { tx with attempt := tx.attempt + 1 } := by
        unfold Client.lookup; rw [htw]; exact hl1
      have hpe := pend_erase _ hi3 id _ hl3
      refine ⟨tinv_congr ((c2.connWrite tx.raw).1.erase id) _ rfl (tinv_erase _ id hi3), ?_, ?_, ?_, ?_, ?_, by simp, by simp, ?_, ?_⟩
      rotate_right
      · intro p hp
        have hp' : p ∈ ((c2.connWrite tx.raw).1.erase id).t := hp
        have := (List.mem_filter.mp hp').1
        rw [htw] at this; exact hent1 p this
      · intro h; rw [calls_write_call]
        have e1 := hpe h; have e2 := hp1 h; have e3 := pend_congr c1 _ htw h
        rw [hcount] at e1 e2
        show _ + pend h ((c2.connWrite tx.raw).1.erase id) = _
        omega
      · show ((c2.connWrite tx.raw).1.erase id).closed = c.closed
        show (c2.connWrite tx.raw).1.closed = c.closed
        rw [hwc]; exact hc2cfg.2.2.2.2.2
      · obtain ⟨a, b, c', d, e⟩ := hwcfg; obtain ⟨a2, b2, c2', d2, e2, _⟩ := hc2cfg
        exact ⟨by show (c2.connWrite tx.raw).1.maxAttempts = _; rw [a, a2],
               by show (c2.connWrite tx.raw).1.closeConn = _; rw [b, b2],
               by show (c2.connWrite tx.raw).1.now = _; rw [c', c2'],
               by show (c2.connWrite tx.raw).1.hasFallback = _; rw [d, d2],
               by show (c2.connWrite tx.raw).1.rto = _; rw [e, e2]⟩
      · intro h id' e' hm
        simp only [List.mem_cons, List.mem_singleton, COut.call.injEq, reduceCtorEq, false_or, List.not_mem_nil, or_false] at hm
        exact ⟨hm.2.1, hm.1⟩
      · intro raw h hm
        simp only [List.mem_cons, COut.write.injEq, reduceCtorEq, List.not_mem_nil, or_false] at hm
        exact hm
      · intro id' hne
        show id' ∈ ckeys ((c2.connWrite tx.raw).1.erase id) ↔ _
        rw [ckeys_erase, ckeys_congr c1 _ htw]
        exact ⟨fun h => (hkeys1 id' hne).mp h.1, fun h => ⟨(hkeys1 id' hne).mpr h, hne⟩⟩

/-- provenance of the entries of a table: every entry carries a (handler, id, raw) triple from `S` and is keyed by
    its id; attempts never exceed the limit `n` -/
def FromStarts (S : List (Nat × TID × Bytes)) (c : Client) : Prop :=
  ∀ p ∈ c.t, (p.2.h, p.2.id, p.2.raw) ∈ S

/-- all outputs of an event are justified by table entries / the start list -/
structure OutsOK (S : List (Nat × TID × Bytes)) (c : Client) (outs : List COut) : Prop where
  call : ∀ h id e, COut.call h id e ∈ outs → ∃ raw, (h, id, raw) ∈ S
  write : ∀ raw h, COut.write raw (some h) ∈ outs → ∃ id, (h, id, raw) ∈ S
  writeNone : ∀ raw, COut.write raw none ∉ outs
  fallback : ∀ id e, COut.fallback id e ∈ outs → c.hasFallback = true ∧ e ≠ .stopped
  noConnClose : COut.connClose ∉ outs

theorem fromStarts_erase (S) (c : Client) (id : TID) (h : FromStarts S c) : FromStarts S (c.erase id) :=
  fun p hp => h p (List.mem_filter.mp hp).1

/-- one run of `handleAgentCallback` -/
structure CbSpec (S : List (Nat × TID × Bytes)) (c : Client) (r : Client × List COut) : Prop where
  inv : TInv r.1
  from_ : FromStarts S r.1
  count : ∀ h, calls h r.2 + pend h r.1 = pend h c
  closedSame : r.1.closed = c.closed
  cfgSame : r.1.maxAttempts = c.maxAttempts ∧ r.1.closeConn = c.closeConn ∧ r.1.now = c.now ∧
            r.1.hasFallback = c.hasFallback ∧ r.1.rto = c.rto
  outs : OutsOK S c r.2

theorem callback_spec (S) (c : Client) (hi : TInv c) (hf : FromStarts S c) (id : TID) (e : CEv) :
    CbSpec S c (c.callback id e) := by
  unfold Client.callback
  have triv : CbSpec S c (c, []) :=
    ⟨hi, hf, fun h => by simp [calls], rfl, ⟨rfl, rfl, rfl, rfl, rfl⟩, ⟨by simp, by simp, by simp, by simp, by simp⟩⟩
  cases hl : c.lookup id with
  | none =>
    simp only
    by_cases hfb : (!c.closed && c.hasFallback && e != .stopped) = true
    · simp only [hfb, if_true]
      simp only [Bool.and_eq_true, bne_iff_ne, ne_eq, Bool.not_eq_true'] at hfb
      refine ⟨hi, hf, fun h => by simp [calls], rfl, ⟨rfl, rfl, rfl, rfl, rfl⟩, ⟨by simp, by simp, by simp, ?_, by simp⟩⟩
      intro id' e' hm
      simp only [List.mem_singleton, COut.fallback.injEq] at hm
      exact ⟨hfb.1.2, by rw [hm.2]; exact hfb.2⟩
    · simp only [hfb, Bool.false_eq_true, if_false]; exact triv
  | some tx =>
    simp only
    obtain ⟨k, hmem, hk⟩ := lookup_mem c id tx hl
    have htxid : tx.id = id := by have := hi.keyId _ hmem; simp only at this; rw [← this, hk]
    have hS : (tx.h, tx.id, tx.raw) ∈ S := hf _ hmem
    have hie := tinv_erase c id hi
    have hpe := pend_erase c hi id tx hl
    have hfe := fromStarts_erase S c id hf
    by_cases hdone : (c.closed || decide (c.maxAttempts ≤ tx.attempt) || e.isMsg) = true
    · simp only [hdone, if_true]
      refine ⟨hie, hfe, ?_, rfl, ⟨rfl, rfl, rfl, rfl, rfl⟩, ⟨?_, by simp, by simp, by simp, by simp⟩⟩
      · intro h; rw [calls_single_call]; have := hpe h; show _ + pend h (c.erase id) = _; omega
      · intro h id' e' hm
        simp only [List.mem_singleton, COut.call.injEq] at hm
        exact ⟨tx.raw, by rw [hm.1, hm.2.1, ← htxid]; exact hS⟩
    · simp only [hdone, Bool.false_eq_true, if_false]
      have hk' : id ∉ ckeys (c.erase id) := by rw [ckeys_erase]; simp
      have rs := retransmit_spec (c.erase id) hie tx id htxid hk'
      refine ⟨rs.inv, ?_, ?_, rs.closedSame, rs.cfgSame, ⟨?_, ?_, ?_, ?_, rs.noConnClose⟩⟩
      · -- entries of the result: old ones, or the re-inserted transaction with the same handler, id and raw
        intro p hp
        rcases rs.entries p hp with h1 | ⟨h1, h2, h3⟩
        · exact hfe p h1
        · rw [h1, h2, h3, ← htxid]; exact hS
      · intro h; have := rs.count h; have := hpe h; omega
      · intro h id' e' hm
        obtain ⟨h1, h2⟩ := rs.callOwn h id' e' hm
        exact ⟨tx.raw, by rw [h1, h2, ← htxid]; exact hS⟩
      · intro raw h hm
        obtain ⟨h1, h2⟩ := rs.writeOwn raw (some h) hm
        simp only [Option.some.injEq] at h2
        exact ⟨tx.id, by rw [h1, h2]; exact hS⟩
      · intro raw hm
        have := (rs.writeOwn raw none hm).2; simp at this
      · intro id' e' hm; exact absurd hm (rs.noFallback id' e')

end Stun.ClientProofs
