import Stun.Proofs.Canonical
import Stun.Properties.C02
import Stun.Properties.C01
namespace Stun.BuildProofs
open Stun Stun.Msg Stun.Spec Stun.DecodeProofs
set_option maxHeartbeats 400000

/-- how a struct attribute comes back from the decoder: same length and value; the type through the 0x8020 alias -/
def aliasAttr (a : RawAttr) : RawAttr := ⟨compat a.typ, a.length, a.val⟩

theorem padsOK_wire (as : List RawAttr)
    (h : ∀ a ∈ as, a.length = a.val.length ∧ a.typ < 65536 ∧ a.val.length < 65536) : PadsOK (as.map wireOf) := by
  induction as with
  | nil => trivial
  | cons a r ih =>
    have ha := h a List.mem_cons_self
    refine ⟨ha.2.1, ha.2.2, by simp [zeros], ih (fun b hb => h b (List.mem_cons_of_mem _ hb))⟩

theorem attrsOf_wire (as : List RawAttr) (off : Nat)
    (h : ∀ a ∈ as, a.length = a.val.length ∧ a.typ < 65536 ∧ a.val.length < 65536) :
    (attrsOf off (as.map wireOf)).map attrOfSpec = as.map aliasAttr := by
  induction as generalizing off with
  | nil => rfl
  | cons a r ih =>
    have ha := h a List.mem_cons_self
    simp only [List.map_cons, wireOf, attrsOf, attrOfSpec, aliasAttr, ha.1]
    rw [← ih _ (fun b hb => h b (List.mem_cons_of_mem _ hb))]

/-- the RFC parse of a canonical message's raw bytes is the struct's content -/
theorem canonical_rfcParse (m : Msg) (h : Canonical m) (hm : m.method < 4096) (hc : m.cls < 4) :
    rfcParse m.raw = some ⟨m.method, m.cls, m.length, m.tid, attrsOf 20 (m.attrs.map wireOf)⟩ := by
  have hok := padsOK_wire m.attrs h.attrs
  have hhl : (headerL m (put16 m.length)).length = 20 := headerL_length m _ h.tidLen rfl
  have hvl : typeValue m.method m.cls < 65536 := by have := C19.value_lt_2_14 m.method m.cls hm hc; omega
  have key := C02.rfcParse_complete (headerL m (put16 m.length)) [] (m.attrs.map wireOf) hhl
    (by simp only [headerL, List.append_assoc]
        have : (put16 (typeValue m.method m.cls) ++ (put16 m.length ++ (put32 magicCookie ++ m.tid))).drop 4
            = put32 magicCookie ++ m.tid := by simp [put16]
        rw [this]; exact be32_put32_append _ (by decide) _)
    (by simp only [headerL, List.append_assoc]
        have : (put16 (typeValue m.method m.cls) ++ (put16 m.length ++ (put32 magicCookie ++ m.tid))).drop 2
            = put16 m.length ++ (put32 magicCookie ++ m.tid) := by simp [put16]
        rw [this, be16_put16_append _ h.fits]; exact h.length)
    hok
  rw [List.append_nil] at key
  have hraw : m.raw = headerL m (put16 m.length) ++ serialize (m.attrs.map wireOf) := h.raw
  rw [hraw, key]
  have hb : be16 (headerL m (put16 m.length)) = typeValue m.method m.cls := by
    simp only [headerL, List.append_assoc]; exact be16_put16_append _ hvl _
  have htid : ((headerL m (put16 m.length)).drop 8).take 12 = m.tid := by
    simp only [headerL]
    have : (put16 (typeValue m.method m.cls) ++ put16 m.length ++ put32 magicCookie ++ m.tid).drop 8 = m.tid := by
      simp [put16, put32]
    rw [this]; apply List.take_of_length_le; rw [h.tidLen]; omega
  have hrv := C19.read_value m.method m.cls hm hc
  rw [C19.readValue_eq_rfc] at hrv
  have e1 : fig3Method (typeValue m.method m.cls) = m.method := (Prod.mk.inj hrv).1
  have e2 : fig3Class (typeValue m.method m.cls) = m.cls := (Prod.mk.inj hrv).2
  have hl : (serialize (m.attrs.map wireOf)).length = m.length := h.length.symm
  rw [hb, htid, e1, e2, hl]

/-- decoding a canonical message's raw bytes — into any message object, in whatever state — yields exactly the
    struct's type, length, transaction ID and ordered attributes (the type 0x8020 comes back as its alias 0x0020) -/
theorem canonical_decode (m b : Msg) (h : Canonical m) (hm : m.method < 4096) (hc : m.cls < 4) :
    (b.decodeFrom m.raw).2 = .ok () ∧
    (b.decodeFrom m.raw).1.method = m.method ∧ (b.decodeFrom m.raw).1.cls = m.cls ∧
    (b.decodeFrom m.raw).1.length = m.length ∧ (b.decodeFrom m.raw).1.tid = m.tid ∧
    (b.decodeFrom m.raw).1.attrs = m.attrs.map aliasAttr ∧ (b.decodeFrom m.raw).1.raw = m.raw := by
  have hcap : (b.setRaw m.raw).len ≤ (b.setRaw m.raw).mem.length := by
    unfold Msg.setRaw; split <;> simp <;> omega
  have hraw : (b.setRaw m.raw).raw = m.raw := C01.setRaw_raw b m.raw
  have hp := canonical_rfcParse m h hm hc
  have key := C02.msg_decode_eq_rfcParse (b.setRaw m.raw) hcap _ (by rw [hraw]; exact hp)
  unfold Msg.decodeFrom
  rw [key]
  refine ⟨rfl, rfl, rfl, rfl, rfl, ?_, ?_⟩
  · simp only; exact attrsOf_wire m.attrs 20 h.attrs
  · exact hraw


theorem canonical_writeHeader (m : Msg) (h : Canonical m) : Canonical m.writeHeader := by
  obtain ⟨w1, w2, w3, w4, w5, w6, w7, w8⟩ := writeHeader_spec m h.cap h.tidLen
  have hlen := h.rawLen
  have hd : m.raw.drop 20 = body m.attrs := by
    rw [h.raw]
    have := headerL_length m (put16 m.length) h.tidLen rfl
    rw [← this, List.drop_left]
  refine ⟨w3, by rw [w8]; exact h.tidLen, rfl, ?_, by rw [w4, w5]; exact h.length, by rw [w4]; exact h.fits,
    by rw [w5]; exact h.attrs⟩
  rw [w1, hd, w4, w5]
  simp only [headerL, w6, w7, w8]

theorem serialize_length_mod4 (xs : List (Nat × Bytes × Bytes)) (h : PadsOK xs) : (serialize xs).length % 4 = 0 := by
  induction xs with
  | nil => rfl
  | cons x r ih =>
    obtain ⟨t, v, p⟩ := x
    obtain ⟨_, _, hp, hr⟩ := h
    rw [serialize_cons_length, hp]
    have := ih hr
    have := pad4_mod v.length
    omega

/-- the explicit well-formedness facts of the property: cookie present, header length = bytes after the header and
    a multiple of 4 (zero padding after every value is the definition of `body`) -/
theorem canonical_wellformed (m : Msg) (h : Canonical m) :
    m.raw.length = 20 + m.length ∧ be32 (m.raw.drop 4) = magicCookie ∧ be16 (m.raw.drop 2) = m.length ∧
    m.length % 4 = 0 ∧ m.raw.drop 20 = body m.attrs := by
  have hlen := h.rawLen
  refine ⟨?_, ?_, ?_, ?_, ?_⟩
  · simp only [Msg.raw, List.length_take]; have := h.cap; omega
  · rw [h.raw]; simp only [headerL, List.append_assoc]
    have : (put16 (typeValue m.method m.cls) ++ (put16 m.length ++ (put32 magicCookie ++ (m.tid ++ body m.attrs)))).drop 4
        = put32 magicCookie ++ (m.tid ++ body m.attrs) := by simp [put16]
    rw [this]; exact be32_put32_append _ (by decide) _
  · rw [h.raw]; simp only [headerL, List.append_assoc]
    have : (put16 (typeValue m.method m.cls) ++ (put16 m.length ++ (put32 magicCookie ++ (m.tid ++ body m.attrs)))).drop 2
        = put16 m.length ++ (put32 magicCookie ++ (m.tid ++ body m.attrs)) := by simp [put16]
    rw [this]; exact be16_put16_append _ h.fits _
  · rw [h.length]; exact serialize_length_mod4 _ (padsOK_wire m.attrs h.attrs)
  · rw [h.raw]
    have := headerL_length m (put16 m.length) h.tidLen rfl
    rw [← this, List.drop_left]

theorem attrSliceEqual_refl (as : List RawAttr) : attrSliceEqual as as = true := by
  unfold attrSliceEqual
  rw [List.all_eq_true]
  intro x hx
  rw [List.any_eq_true]
  exact ⟨x, hx, by simp [attrEq]⟩

/-- `Equal` holds between two messages with the same type, id, length and attribute list -/
theorem equal_of_fields (m n : Msg) (h1 : m.method = n.method) (h2 : m.cls = n.cls) (h3 : m.tid = n.tid)
    (h4 : m.length = n.length) (h5 : m.attrs = n.attrs) : m.equal n = true := by
  unfold Msg.equal
  simp [h1, h2, h3, h4, h5, attrSliceEqual_refl]

end Stun.BuildProofs
