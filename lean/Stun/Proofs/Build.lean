import Stun.Model.Message
import Stun.Spec.RFC5389
namespace Stun.BuildProofs
open Stun Stun.Msg
set_option maxHeartbeats 400000

theorem writeAt_length (mem : Bytes) (pos : Nat) (d : Bytes) (h : pos + d.length ≤ mem.length) :
    (writeAt mem pos d).length = mem.length := by
  simp [writeAt]; omega

theorem writeAt_getElem? (mem : Bytes) (pos : Nat) (d : Bytes) (h : pos + d.length ≤ mem.length) (i : Nat) :
    (writeAt mem pos d)[i]? = if i < pos then mem[i]? else if i < pos + d.length then d[i - pos]? else mem[i]? := by
  unfold writeAt
  by_cases h1 : i < pos
  · simp [h1, List.getElem?_append]
    intro h2; omega
  · by_cases h2 : i < pos + d.length
    · simp [h1, h2, List.getElem?_append, List.length_take]
      have : min pos mem.length = pos := by omega
      simp [this, h1]
      intro h3; omega
    · simp [h1, h2, List.getElem?_append, List.length_take]
      have : min pos mem.length = pos := by omega
      simp [this, h1]
      have : ¬ i - pos < d.length := by omega
      simp [this]
      congr 1; omega

theorem writeAt_take_before (mem : Bytes) (pos : Nat) (d : Bytes) (n : Nat) (hn : n ≤ pos) (h : pos ≤ mem.length) :
    (writeAt mem pos d).take n = mem.take n := by
  unfold writeAt
  rw [List.append_assoc, List.take_append_of_le_length (by simp; omega), List.take_take]
  congr 1; omega

theorem writeAt_take_end (mem : Bytes) (pos : Nat) (d : Bytes) (h : pos ≤ mem.length) :
    (writeAt mem pos d).take (pos + d.length) = mem.take pos ++ d := by
  unfold writeAt
  have : pos + d.length = (mem.take pos ++ d).length := by simp; omega
  rw [this, List.take_left]

theorem writeAt_take_comm (mem : Bytes) (pos : Nat) (d : Bytes) (n : Nat) (h1 : pos + d.length ≤ n)
    (h2 : n ≤ mem.length) : (writeAt mem pos d).take n = writeAt (mem.take n) pos d := by
  unfold writeAt
  have e1 : (mem.take n).take pos = mem.take pos := by rw [List.take_take]; congr 1; omega
  have e2 : (mem.take n).drop (pos + d.length) = (mem.drop (pos + d.length)).take (n - (pos + d.length)) := by
    rw [List.drop_take]
  rw [e1, e2]
  have hl : (mem.take pos ++ d).length = pos + d.length := by simp; omega
  rw [List.take_append, hl]
  have : (mem.take pos ++ d).take n = mem.take pos ++ d := by
    apply List.take_of_length_le; omega
  rw [this]

/-- after `grow n` (n beyond the current length): length n, capacity suffices, the old visible bytes are kept -/
theorem grow_spec (m : Msg) (n : Nat) (hcap : m.len ≤ m.mem.length) (hn : m.len ≤ n) :
    (m.grow n).len = n ∧ n ≤ (m.grow n).mem.length ∧ (m.grow n).mem.take m.len = m.mem.take m.len ∧
    (m.grow n).length = m.length ∧ (m.grow n).attrs = m.attrs ∧ (m.grow n).method = m.method ∧
    (m.grow n).cls = m.cls ∧ (m.grow n).tid = m.tid := by
  unfold Msg.grow
  by_cases h1 : m.len ≥ n
  · have : m.len = n := by omega
    simp [h1, this]; omega
  · simp only [h1, if_false]
    by_cases h2 : m.mem.length ≥ n
    · simp [h2]
    · simp only [h2, if_false]
      refine ⟨trivial, ?_, ?_, trivial, trivial, trivial, trivial, trivial⟩
      · simp [zeros]; omega
      · rw [List.take_append_of_le_length (by simp; omega), List.take_take]; simp

theorem grow_noop (m : Msg) (n : Nat) (h : n ≤ m.len) : m.grow n = m := by
  unfold Msg.grow; simp [h]

theorem put16_len (n : Nat) : (put16 n).length = 2 := rfl

/-- first half of `Add`: the visible bytes become (old bytes up to the end of the attributes) ++ T ++ L ++ V,
    whatever was in the spare capacity and whatever capacity the runtime chose -/
theorem addHead_spec (m : Msg) (t : Nat) (v : Bytes) (h1 : 20 + m.length ≤ m.len) (h2 : m.len ≤ m.mem.length) :
    let m' := m.addHead t v
    let last := 20 + m.length + (4 + v.length)
    m'.len = last ∧ last ≤ m'.mem.length ∧
    m'.mem.take last = m.mem.take (20 + m.length) ++ put16 t ++ put16 (v.length % 65536) ++ v ∧
    m'.length = w32 (m.length + (4 + v.length)) ∧ m'.attrs = m.attrs ∧ m'.method = m.method ∧ m'.cls = m.cls ∧
    m'.tid = m.tid := by
  intro m' last
  have hfirst : m.mem.length ≥ 20 + m.length := by omega
  -- the grown message
  have hg : ∃ g : Msg, g = m.grow last ∧ last ≤ g.mem.length ∧ g.mem.take (20 + m.length) = m.mem.take (20 + m.length)
      ∧ g.length = m.length ∧ g.attrs = m.attrs ∧ g.method = m.method ∧ g.cls = m.cls ∧ g.tid = m.tid := by
    refine ⟨m.grow last, rfl, ?_⟩
    by_cases hl : m.len ≤ last
    · obtain ⟨_, a2, a3, a4, a5, a6, a7, a8⟩ := grow_spec m last h2 hl
      refine ⟨a2, ?_, a4, a5, a6, a7, a8⟩
      have := congrArg (List.take (20 + m.length)) a3
      rw [List.take_take, List.take_take] at this
      have e : min (20 + m.length) m.len = 20 + m.length := by omega
      rw [e] at this; exact this
    · rw [grow_noop m last (by omega)]
      exact ⟨by omega, rfl, rfl, rfl, rfl, rfl, rfl⟩
  obtain ⟨g, hgdef, g1, g2, g3, g4, g5, g6, g7⟩ := hg
  have hm' : m' = { g with
      len := last, length := w32 (g.length + (4 + v.length)),
      mem := writeAt (writeAt (writeAt g.mem (20 + m.length) (put16 t)) (20 + m.length + 2)
              (put16 (v.length % 65536))) (20 + m.length + 4) v } := by
    simp only [m', Msg.addHead, attributeHeaderSize, messageHeaderSize, hgdef, last]
  rw [hm']
  have l1 : (writeAt g.mem (20 + m.length) (put16 t)).length = g.mem.length :=
    writeAt_length _ _ _ (by simp [put16_len]; omega)
  have l2 : (writeAt (writeAt g.mem (20 + m.length) (put16 t)) (20 + m.length + 2) (put16 (v.length % 65536))).length
      = g.mem.length := by
    rw [writeAt_length _ _ _ (by rw [l1]; simp [put16_len]; omega), l1]
  refine ⟨rfl, ?_, ?_, by simp [g3], g4, g5, g6, g7⟩
  · simp only; rw [writeAt_length _ _ _ (by rw [l2]; omega), l2]; exact g1
  · simp only
    have e : last = (20 + m.length + 4) + v.length := by omega
    rw [e, writeAt_take_end _ _ _ (by rw [l2]; omega)]
    have e2 : 20 + m.length + 4 = (20 + m.length + 2) + (put16 (v.length % 65536)).length := by simp [put16_len]
    rw [e2, writeAt_take_end _ _ _ (by rw [l1]; omega)]
    have e3 : 20 + m.length + 2 = (20 + m.length) + (put16 t).length := by simp [put16_len]
    rw [e3, writeAt_take_end _ _ _ (by omega), g2]

theorem addPad_spec (m : Msg) (v : Bytes) (last : Nat) (hlen : m.len = last) (hcap : last ≤ m.mem.length) :
    let p := nearestPaddedValueLength v.length - v.length
    let m' := m.addPad v last
    m'.len = last + p ∧ last + p ≤ m'.mem.length ∧ m'.mem.take (last + p) = m.mem.take last ++ zeros p ∧
    m'.length = w32 (m.length + p) ∧ m'.attrs = m.attrs ∧ m'.method = m.method ∧ m'.cls = m.cls ∧ m'.tid = m.tid := by
  intro p m'
  obtain ⟨a1, a2, a3, a4, a5, a6, a7, a8⟩ := grow_spec m (last + p) (by omega) (by omega)
  have hm' : m' = { m.grow (last + p) with
      mem := writeAt (m.grow (last + p)).mem (last + p - p) (zeros p), len := last + p,
      length := w32 ((m.grow (last + p)).length + p) } := by
    simp only [m', Msg.addPad, p]
  rw [hm']
  generalize m.grow (last + p) = g at *
  have e : last + p - p = last := by omega
  have zl : (zeros p).length = p := by simp [zeros]
  rw [e]
  refine ⟨rfl, ?_, ?_, by simp [a4], a5, a6, a7, a8⟩
  · simp only; rw [writeAt_length _ _ _ (by rw [zl]; omega)]; exact a2
  · simp only
    have h := writeAt_take_end g.mem last (zeros p) (by omega)
    rw [zl] at h
    rw [h, ← hlen, a3]

theorem writeLength_spec (m : Msg) (h4 : 4 ≤ m.len) (hcap : m.len ≤ m.mem.length) :
    (m.writeLength).raw = writeAt m.raw 2 (put16 m.length) ∧ (m.writeLength).len = m.len ∧
    (m.writeLength).mem.length = m.mem.length ∧
    (m.writeLength).length = m.length ∧ (m.writeLength).attrs = m.attrs ∧ (m.writeLength).method = m.method ∧
    (m.writeLength).cls = m.cls ∧ (m.writeLength).tid = m.tid := by
  unfold Msg.writeLength
  rw [grow_noop m 4 h4]
  refine ⟨?_, rfl, ?_, rfl, rfl, rfl, rfl, rfl⟩
  · simp only [Msg.raw]
    rw [writeAt_take_comm _ _ _ _ (by simp [put16_len]; omega) hcap]
  · simp only; rw [writeAt_length _ _ _ (by simp [put16_len]; omega)]

theorem npvl_sub (l : Nat) : nearestPaddedValueLength l - l = (4 - l % 4) % 4 := by
  unfold nearestPaddedValueLength padding; simp only; split <;> omega

/-- `Add`: closed form of the visible bytes. `spare` does not occur on the right-hand side. -/
theorem add_spec (m : Msg) (t : Nat) (v : Bytes) (h1 : 20 + m.length ≤ m.len) (h2 : m.len ≤ m.mem.length)
    (hfit : m.length + 4 + v.length + 3 < 4294967296) :
    let p := (4 - v.length % 4) % 4
    let newLen := m.length + 4 + v.length + p
    let m' := m.add t v
    m'.raw = writeAt (m.raw.take (20 + m.length) ++ put16 t ++ put16 (v.length % 65536) ++ v ++ zeros p) 2 (put16 newLen)
    ∧ m'.len = 20 + newLen ∧ m'.len ≤ m'.mem.length ∧ m'.length = newLen ∧
    m'.attrs = m.attrs ++ [⟨t, v.length % 65536, v⟩] ∧ m'.method = m.method ∧ m'.cls = m.cls ∧ m'.tid = m.tid := by
  intro p newLen m'
  obtain ⟨b1, b2, b3, b4, b5, b6, b7, b8⟩ := addHead_spec m t v h1 h2
  have hraw0 : (m.mem.take m.len).take (20 + m.length) = m.mem.take (20 + m.length) := by
    rw [List.take_take]; congr 1; omega
  have hw : w32 (m.length + (4 + v.length)) = m.length + (4 + v.length) := by
    unfold w32; apply Nat.mod_eq_of_lt; omega
  by_cases hp : (v.length % 65536) % padding ≠ 0
  · -- padding branch
    have hpp : p ≠ 0 := by simp only [p, padding] at hp ⊢; omega
    obtain ⟨c1, c2, c3, c4, c5, c6, c7, c8⟩ :=
      addPad_spec (m.addHead t v) v (20 + m.length + (4 + v.length)) b1 b2
    rw [npvl_sub] at c1 c2 c3 c4
    have hm' : m' = ({ (m.addHead t v).addPad v (20 + m.length + (4 + v.length)) with
        attrs := ((m.addHead t v).addPad v (20 + m.length + (4 + v.length))).attrs ++ [(⟨t, v.length % 65536, v⟩ : RawAttr)] }).writeLength := by
      simp only [m', Msg.add, messageHeaderSize, attributeHeaderSize]; rw [if_pos hp]
    generalize hq : (m.addHead t v).addPad v (20 + m.length + (4 + v.length)) = q at *
    obtain ⟨d1, d2, d3, d4, d5, d6, d7, d8⟩ := writeLength_spec { q with attrs := q.attrs ++ [(⟨t, v.length % 65536, v⟩ : RawAttr)] }
      (by simp only; omega) (by simp only; omega)
    rw [hm']
    have hlen2 : q.length = newLen := by
      rw [c4, b4, hw]; unfold w32; rw [Nat.mod_eq_of_lt (by omega)]; simp only [newLen, p]; omega
    refine ⟨?_, by rw [d2]; simp only [c1, newLen, p]; omega, by rw [d2, d3]; simp only; omega, by rw [d4]; exact hlen2,
      by rw [d5]; simp only [c5, b5], by rw [d6]; simp only [c6, b6], by rw [d7]; simp only [c7, b7],
      by rw [d8]; simp only [c8, b8]⟩
    rw [d1]
    simp only [Msg.raw, hlen2]
    rw [c1, c3, b3, hraw0]
  · -- no padding
    have hp0 : p = 0 := by simp only [p, padding] at hp ⊢; omega
    have hm' : m' = ({ m.addHead t v with attrs := (m.addHead t v).attrs ++ [(⟨t, v.length % 65536, v⟩ : RawAttr)] }).writeLength := by
      simp only [m', Msg.add, messageHeaderSize, attributeHeaderSize]; rw [if_neg hp]
    generalize hq : m.addHead t v = q at *
    obtain ⟨d1, d2, d3, d4, d5, d6, d7, d8⟩ := writeLength_spec { q with attrs := q.attrs ++ [(⟨t, v.length % 65536, v⟩ : RawAttr)] }
      (by simp only; omega) (by simp only; omega)
    rw [hm']
    have hlen2 : q.length = newLen := by rw [b4, hw]; simp only [newLen, hp0]; omega
    refine ⟨?_, by rw [d2]; simp only [b1, newLen, hp0]; omega, by rw [d2, d3]; simp only; omega, by rw [d4]; exact hlen2,
      by rw [d5]; simp only [b5], by rw [d6]; simp only [b6], by rw [d7]; simp only [b7], by rw [d8]; simp only [b8]⟩
    rw [d1]
    simp only [Msg.raw, hlen2]
    rw [b1, b3, hraw0, hp0]; simp [zeros]

theorem pad4_lt' (n : Nat) : Stun.Spec.pad4 n < 4 := by unfold Stun.Spec.pad4; omega

theorem tlvBytes_length' (t : Nat) (v p : Bytes) : (Stun.Spec.tlvBytes t v p).length = 4 + v.length + p.length := by
  simp [Stun.Spec.tlvBytes, put16]; omega

end Stun.BuildProofs
