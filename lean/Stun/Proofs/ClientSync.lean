/-
  The client's table and the agent's table stay synchronised (L1): every transaction registered with the client is
  registered with the agent. Consequence: `Close` (whose agent emits a closed event for every registered transaction,
  which the closed client completes) leaves no transaction behind — every handler of a successful Start has been
  invoked when Close returns.
-/
import Stun.Proofs.ClientHistory
namespace Stun.ClientProofs
open Stun Stun.Client
set_option maxHeartbeats 800000

/-- every client entry is registered with the agent or is about to be handled (its id is among the pending events) -/
def SyncE (c : Client) (evs : List TID) : Prop := ∀ id ∈ ckeys c, id ∈ akeys c.agent ∨ id ∈ evs

def Sync (c : Client) : Prop := ∀ id ∈ ckeys c, id ∈ akeys c.agent

theorem syncE_nil (c : Client) : SyncE c [] ↔ Sync c := by
  unfold SyncE Sync; constructor
  · intro h id hid; exact (h id hid).elim (fun x => x) (fun x => by simp at x)
  · intro h id hid; exact Or.inl (h id hid)

theorem akeys_start_ok (a : Agent) (id : TID) (d : Nat) (h : (a.start id d).2 = none) (id' : TID) :
    id' ∈ akeys (a.start id d).1 ↔ id' ∈ akeys a ∨ id' = id := by
  unfold Agent.start at h ⊢
  by_cases hc : a.closed = true
  · simp [hc] at h
  · by_cases hh : a.has id = true
    · simp [hc, hh] at h
    · simp [hc, hh, akeys, eq_comm]

theorem akeys_stop (a : Agent) (id id' : TID) (hne : id' ≠ id) (h : id' ∈ akeys a) : id' ∈ akeys (a.stop id).1 := by
  unfold Agent.stop
  by_cases hc : a.closed = true
  · simp only [hc, if_true]; exact h
  · simp only [hc, Bool.false_eq_true, if_false]
    split <;> exact (akeys_del a id id').mpr ⟨h, hne⟩

/-- one run of the callback for an event whose id was excused: afterwards that id needs no excuse any more -/
theorem callback_sync (c : Client) (hi : TInv c) (id : TID) (e : CEv) (evs : List TID) (h : SyncE c (id :: evs)) :
    SyncE (c.callback id e).1 evs := by
  have others : ∀ id', id' ≠ id → id' ∈ ckeys c → id' ∈ akeys c.agent ∨ id' ∈ evs := by
    intro id' hne hk
    rcases h id' hk with h1 | h1
    · exact Or.inl h1
    · simp only [List.mem_cons] at h1; exact h1.elim (fun x => absurd x hne) Or.inr
  unfold Client.callback
  cases hl : c.lookup id with
  | none =>
    have hnk : id ∉ ckeys c := (lookup_none_iff c id).mp hl
    simp only
    have same : SyncE c evs := fun id' hk => others id' (fun e' => hnk (e' ▸ hk)) hk
    split <;> exact same
  | some tx =>
    simp only
    obtain ⟨k, hmem, hk⟩ := lookup_mem c id tx hl
    have htxid : tx.id = id := by have := hi.keyId _ hmem; simp only at this; rw [← this, hk]
    split
    · -- completed: the entry is gone
      intro id' hk'
      rw [ckeys_erase] at hk'
      exact others id' hk'.2 hk'.1
    · -- retransmission
      have hk0 : id ∉ ckeys (c.erase id) := by rw [ckeys_erase]; simp
      have hk1 : ({ tx with attempt := tx.attempt + 1 } : Txn).id ∉ ckeys (c.erase id) := by simpa [htxid] using hk0
      have keys1 : ∀ id', id' ∈ ckeys ((c.erase id).insert { tx with attempt := tx.attempt + 1 }) ↔
          (id' ∈ ckeys c ∧ id' ≠ id) ∨ id' = id := by
        intro id'; rw [ckeys_insert, ckeys_erase]; simp only [htxid]
      unfold Client.retransmit
      simp only
      generalize hc1 : (c.erase id).insert { tx with attempt := tx.attempt + 1 } = c1 at *
      have hag1 : c1.agent = c.agent := by subst hc1; rfl
      cases hs : (c1.agent.start id (nextTimeout { tx with attempt := tx.attempt + 1 } c1.now)).2 with
      | some err =>
        simp only
        intro id' hk'
        rw [ckeys_erase, keys1] at hk'
        have hne := hk'.2
        rcases hk'.1 with ⟨hc, _⟩ | hc
        · have := others id' hne hc
          show id' ∈ akeys (c1.erase id).agent ∨ _
          have e1 : (c1.erase id).agent = c.agent := hag1
          rw [e1]; exact this
        · exact absurd hc hne
      | none =>
        simp only
        have hst := akeys_start_ok c1.agent id _ hs
        generalize hc2 : ({ c1 with agent := (c1.agent.start id (nextTimeout { tx with attempt := tx.attempt + 1 } c1.now)).1 } : Client) = c2
        have ht2 : c2.t = c1.t := by subst hc2; rfl
        have hag2 : c2.agent = (c1.agent.start id (nextTimeout { tx with attempt := tx.attempt + 1 } c1.now)).1 := by subst hc2; rfl
        have htw : (c2.connWrite tx.raw).1.t = c1.t := by rw [connWrite_t c2 tx.raw, ht2]
        have haw : (c2.connWrite tx.raw).1.agent = c2.agent := connWrite_agent c2 tx.raw
        split
        · -- written: registered with both
          intro id' hk'
          rw [ckeys_congr c1 _ htw, keys1] at hk'
          rcases hk' with ⟨hc, hne⟩ | hc
          · rcases others id' hne hc with h1 | h1
            · left; rw [haw, hag2, hst, hag1]; exact Or.inl h1
            · exact Or.inr h1
          · left; rw [haw, hag2, hst]; exact Or.inr hc
        · -- the write failed: the entry is erased again and the agent transaction stopped
          intro id' hk'
          have hk'' : id' ∈ ckeys ((c2.connWrite tx.raw).1.erase id) := hk'
          rw [ckeys_erase, ckeys_congr c1 _ htw, keys1] at hk''
          have hne := hk''.2
          rcases hk''.1 with ⟨hc, _⟩ | hc
          · rcases others id' hne hc with h1 | h1
            · left
              show id' ∈ akeys (((c2.connWrite tx.raw).1.erase id).agent.stop id).1
              apply akeys_stop _ id id' hne
              show id' ∈ akeys (c2.connWrite tx.raw).1.agent
              rw [haw, hag2, hst, hag1]; exact Or.inl h1
            · exact Or.inr h1
          · exact absurd hc hne

theorem callbacks_sync (evs : List (TID × CEv)) (S) (c : Client) (hi : TInv c) (hf : FromStarts S c)
    (h : SyncE c (evs.map (·.1))) : Sync (c.callbacks evs).1 := by
  induction evs generalizing c with
  | nil => simp only [Client.callbacks]; exact (syncE_nil c).mp h
  | cons ev r ih =>
    obtain ⟨id, e⟩ := ev
    have s1 := callback_spec S c hi hf id e
    have h1 := callback_sync c hi id e (r.map (·.1)) (by simpa using h)
    simp only [Client.callbacks]
    exact ih (c.callback id e).1 s1.inv s1.from_ h1

theorem akeys_collect (a : Agent) (t : Nat) (id : TID) (h : id ∈ akeys a) :
    id ∈ akeys (a.collect t).1 ∨ id ∈ ((a.collect t).2.2).map (·.id) := by
  unfold Agent.collect
  by_cases hc : a.closed = true
  · simp only [hc, if_true]; exact Or.inl h
  · simp only [hc, Bool.false_eq_true, if_false]
    simp only [akeys, List.mem_map] at h ⊢
    obtain ⟨p, hp, rfl⟩ := h
    by_cases hd : p.2 < t
    · right; exact ⟨⟨a.hgen, p.1, .timeout⟩, ⟨p, List.mem_filter.mpr ⟨hp, by simpa using hd⟩, rfl⟩, rfl⟩
    · left; exact ⟨p, List.mem_filter.mpr ⟨hp, by simpa using hd⟩, rfl⟩

theorem tick_sync (S) (c : Client) (hi : TInv c) (hf : FromStarts S c) (h : Sync c) (t : Nat) : Sync (c.tick t).1 := by
  unfold Client.tick
  simp only
  refine callbacks_sync _ S ({ c with now := t, agent := (c.agent.collect t).1 } : Client) (tinv_congr c _ rfl hi)
    (fun p hp => hf p hp) ?_
  intro id hid
  have hid' : id ∈ ckeys c := hid
  have := akeys_collect c.agent t id (h id hid')
  simp only [List.map_map]
  rcases this with h1 | h1
  · exact Or.inl h1
  · right; simpa [Function.comp_def] using h1

theorem deliver_sync (c : Client) (hi : TInv c) (h : Sync c) (d : Bytes) :
    Sync (c.deliver d).1 := by
  unfold Client.deliver
  split
  · unfold Client.deliverDecoded
    split
    · exact h
    · rename_i hproc
      apply (syncE_nil _).mp
      refine callback_sync ({ c with agent := (c.agent.process (readerMsg.readFrom d).1.tid).1 } : Client)
        (tinv_congr c _ rfl hi) _ _ [] ?_
      intro id hid
      have hid' : id ∈ ckeys c := hid
      have hin := h id hid'
      by_cases he : id = (readerMsg.readFrom d).1.tid
      · right; simp [he]
      · left
        show id ∈ akeys (c.agent.process (readerMsg.readFrom d).1.tid).1
        unfold Agent.process
        by_cases hc : c.agent.closed = true
        · simp only [hc, if_true]; exact hin
        · simp only [hc, Bool.false_eq_true, if_false]
          exact (akeys_del _ _ _).mpr ⟨hin, he⟩
  · exact h

theorem start_sync (c : Client) (h : Sync c) (id : TID) (raw : Bytes) (handler : Option Nat) :
    Sync (c.start id raw handler).1 := by
  unfold Client.start
  by_cases hc : c.closed = true
  · rw [if_pos hc]; exact h
  · rw [if_neg hc]
    cases handler with
    | none =>
      simp only
      intro id' hk
      rw [ckeys_congr c _ (connWrite_t c raw)] at hk
      rw [connWrite_agent]; exact h id' hk
    | some h0 =>
      simp only
      by_cases hex : (c.lookup id).isSome = true
      · rw [if_pos hex]; exact h
      · rw [if_neg hex]
        have hk0 : id ∉ ckeys c := by rw [← lookup_iff]; exact hex
        have keys1 : ∀ id', id' ∈ ckeys (c.insert ⟨id, 0, c.rto, raw, h0, c.now⟩) ↔ id' ∈ ckeys c ∨ id' = id := by
          intro id'; rw [ckeys_insert]
        generalize hc1 : c.insert ⟨id, 0, c.rto, raw, h0, c.now⟩ = c1 at *
        have hag1 : c1.agent = c.agent := by subst hc1; rfl
        cases hs : (c1.agent.start id (nextTimeout ⟨id, 0, c.rto, raw, h0, c.now⟩ c.now)) with
        | mk a err =>
          cases err with
          | some er =>
            simp only
            intro id' hk'
            rw [ckeys_erase, keys1] at hk'
            rcases hk'.1 with hc' | hc'
            · show id' ∈ akeys (c1.erase id).agent
              have e1 : (c1.erase id).agent = c.agent := hag1
              rw [e1]; exact h id' hc'
            · exact absurd hc' hk'.2
          | none =>
            simp only
            have hs2 : (c1.agent.start id (nextTimeout ⟨id, 0, c.rto, raw, h0, c.now⟩ c.now)).2 = none := by rw [hs]
            have hst := akeys_start_ok c1.agent id _ hs2
            rw [hs] at hst; simp only at hst
            generalize hc2 : ({ c1 with agent := a } : Client) = c2
            have ht2 : c2.t = c1.t := by subst hc2; rfl
            have hag2 : c2.agent = a := by subst hc2; rfl
            have htw : (c2.connWrite raw).1.t = c1.t := by rw [connWrite_t c2 raw, ht2]
            have haw : (c2.connWrite raw).1.agent = c2.agent := connWrite_agent c2 raw
            split
            · intro id' hk'
              rw [ckeys_congr c1 _ htw, keys1] at hk'
              rw [haw, hag2, hst, hag1]
              rcases hk' with hc' | hc'
              · exact Or.inl (h id' hc')
              · exact Or.inr hc'
            · intro id' hk'
              have hk'' : id' ∈ ckeys ((c2.connWrite raw).1.erase id) := hk'
              rw [ckeys_erase, ckeys_congr c1 _ htw, keys1] at hk''
              rcases hk''.1 with hc' | hc'
              · show id' ∈ akeys (((c2.connWrite raw).1.erase id).agent.stop id).1
                apply akeys_stop _ id id' hk''.2
                show id' ∈ akeys (c2.connWrite raw).1.agent
                rw [haw, hag2, hst, hag1]; exact Or.inl (h id' hc')
              · exact absurd hc' hk''.2

/-- the callbacks of a closed client only erase: afterwards exactly the entries whose id had no event are left -/
theorem callbacks_closed_keys (c : Client) (hc : c.closed = true) (evs : List (TID × CEv)) (id' : TID) :
    id' ∈ ckeys (c.callbacks evs).1 ↔ id' ∈ ckeys c ∧ id' ∉ evs.map (·.1) := by
  induction evs generalizing c with
  | nil => simp [Client.callbacks]
  | cons ev r ih =>
    obtain ⟨id, e⟩ := ev
    have hcb := callback_closed c id e hc
    simp only [Client.callbacks]
    cases hl : c.lookup id with
    | none =>
      rw [hl] at hcb; simp only at hcb
      rw [hcb]; simp only
      rw [ih c hc]
      have hnk : id ∉ ckeys c := (lookup_none_iff c id).mp hl
      simp only [List.map_cons, List.mem_cons, not_or]
      constructor
      · rintro ⟨h1, h2⟩; exact ⟨h1, fun e' => hnk (e' ▸ h1), h2⟩
      · rintro ⟨h1, _, h3⟩; exact ⟨h1, h3⟩
    | some tx =>
      rw [hl] at hcb; simp only at hcb
      rw [hcb]; simp only
      rw [ih (c.erase id) hc, ckeys_erase]
      simp only [List.map_cons, List.mem_cons, not_or]
      constructor
      · rintro ⟨⟨h1, h2⟩, h3⟩; exact ⟨h1, h2, h3⟩
      · rintro ⟨h1, h2, h3⟩; exact ⟨⟨h1, h2⟩, h3⟩

/-- `Close` on a synchronised client with an open agent completes every transaction: the table is empty -/
theorem close_clears (c : Client) (h : Sync c) (hc : c.closed = false) (ha : c.agent.closed = false) :
    (c.close).1.t = [] := by
  unfold Client.close
  simp only [hc, Bool.false_eq_true, if_false]
  have hev : (c.agent.close).2.2 = c.agent.table.map (fun p => ⟨c.agent.hgen, p.1, .closed⟩) :=
    (C13.close_spec c.agent ha).2.1
  have hkeys := callbacks_closed_keys { c with closed := true, agent := (c.agent.close).1 } rfl
    (((c.agent.close).2.2).map (fun e => (e.id, CEv.agentClosed)))
  have hempty : ckeys (({ c with closed := true, agent := (c.agent.close).1 } : Client).callbacks
      (((c.agent.close).2.2).map (fun e => (e.id, CEv.agentClosed)))).1 = [] := by
    apply List.eq_nil_iff_forall_not_mem.mpr
    intro id' hid'
    obtain ⟨h1, h2⟩ := (hkeys id').mp hid'
    have h1' : id' ∈ ckeys c := h1
    have hin := h id' h1'
    apply h2
    rw [hev]
    simp only [List.map_map, List.mem_map, Function.comp_def]
    simp only [akeys, List.mem_map] at hin
    obtain ⟨p, hp, rfl⟩ := hin
    exact ⟨p, hp, rfl⟩
  have : ∀ (c' : Client), ckeys c' = [] → c'.t = [] := by
    intro c' h'; unfold ckeys at h'; exact List.map_eq_nil_iff.mp h'
  generalize (({ c with closed := true, agent := (c.agent.close).1 } : Client).callbacks
      (((c.agent.close).2.2).map (fun e => (e.id, CEv.agentClosed)))) = r at *
  exact this _ hempty

/-! ### the agent is closed only by `Close` -/

theorem agent_start_closed (a : Agent) (id : TID) (d : Nat) : (a.start id d).1.closed = a.closed := by
  unfold Agent.start; split <;> (try split) <;> rfl
theorem agent_stop_closed (a : Agent) (id : TID) : (a.stop id).1.closed = a.closed := by
  unfold Agent.stop; split <;> (try split) <;> rfl
theorem agent_process_closed (a : Agent) (id : TID) : (a.process id).1.closed = a.closed := by
  unfold Agent.process; split <;> rfl
theorem agent_collect_closed (a : Agent) (t : Nat) : (a.collect t).1.closed = a.closed := by
  unfold Agent.collect; split <;> rfl

theorem callback_agentClosed (c : Client) (id : TID) (e : CEv) :
    (c.callback id e).1.agent.closed = c.agent.closed := by
  unfold Client.callback
  split
  · split <;> rfl
  · split
    · rfl
    · unfold Client.retransmit
      simp only
      split
      · rfl
      · split
        · rw [connWrite_agent]; exact agent_start_closed _ _ _
        · show (((_ : Client).erase id).agent.stop id).1.closed = _
          rw [agent_stop_closed]
          show (Client.connWrite _ _).1.agent.closed = _
          rw [connWrite_agent]; exact agent_start_closed _ _ _

theorem callbacks_agentClosed (evs : List (TID × CEv)) (c : Client) :
    (c.callbacks evs).1.agent.closed = c.agent.closed := by
  induction evs generalizing c with
  | nil => rfl
  | cons ev r ih =>
    obtain ⟨id, e⟩ := ev
    simp only [Client.callbacks]
    rw [ih, callback_agentClosed]

theorem t_nil_of_pend_zero (c : Client) (h : ∀ x, pend x c = 0) : c.t = [] := by
  cases ht : c.t with
  | nil => rfl
  | cons p l =>
    have := h p.2.h
    unfold pend at this
    rw [ht, List.filter_cons] at this
    simp at this

/-- once closed, the table stays empty: nothing can register any more -/
theorem closed_table_stays_empty (S) (c : Client) (hi : TInv c) (hf : FromStarts S c) (hc : c.closed = true)
    (ht : c.t = []) (op : COp) : (c.step op).1.t = [] ∧ (c.step op).1.closed = true := by
  have hp : ∀ h, pend h c = 0 := by intro h; unfold pend; rw [ht]; rfl
  cases op with
  | start id raw handler =>
    have : c.step (.start id raw handler) = (c, some .clientClosed, []) := by
      simp only [Client.step]; unfold Client.start; rw [if_pos hc]
    rw [this]; exact ⟨ht, hc⟩
  | deliver d =>
    have hk := (deliver_spec S c hi hf d)
    refine ⟨?_, ?_⟩
    · simp only [Client.step]
      apply t_nil_of_pend_zero
      intro h; have := hk.2.2.1 h; rw [hp h] at this; omega
    · simp only [Client.step]
      rw [hk.2.2.2.1]; exact hc
  | tick t =>
    have hk := (tick_spec S c hi hf t)
    refine ⟨?_, ?_⟩
    · simp only [Client.step]
      apply t_nil_of_pend_zero
      intro h; have := hk.2.2.1 h; rw [hp h] at this; omega
    · simp only [Client.step]
      rw [hk.2.2.2.1]; exact hc
  | clock t => exact ⟨ht, hc⟩
  | failWrite id => exact ⟨ht, hc⟩
  | setRTO r => exact ⟨ht, hc⟩
  | close =>
    have := (close_spec c).1 hc
    simp only [Client.step, this]; exact ⟨ht, hc⟩

/-- reachable states: synchronised tables, and an open client has an open agent -/
structure SInv (c : Client) : Prop where
  sync : Sync c
  open_ : c.closed = false → c.agent.closed = false
  closedEmpty : c.closed = true → c.t = []

theorem step_closedFlag (S) (c : Client) (hi : TInv c) (hf : FromStarts S c) (op : COp) (hop : op ≠ .close) :
    (c.step op).1.closed = c.closed := by
  cases op with
  | start id raw handler =>
    cases handler with
    | some h0 => exact (start_spec S c hi hf id raw h0).2.2.2.1
    | none =>
      simp only [Client.step]; unfold Client.start
      by_cases hc : c.closed = true
      · rw [if_pos hc]
      · rw [if_neg hc]; exact connWrite_closed c raw
  | deliver d => simp only [Client.step]; exact (deliver_spec S c hi hf d).2.2.2.1
  | tick t => simp only [Client.step]; exact (tick_spec S c hi hf t).2.2.2.1
  | clock t => rfl
  | failWrite id => rfl
  | setRTO r => rfl
  | close => exact absurd rfl hop

theorem start_agentClosed (c : Client) (id : TID) (raw : Bytes) (handler : Option Nat) :
    (c.start id raw handler).1.agent.closed = c.agent.closed := by
  unfold Client.start
  by_cases hc : c.closed = true
  · rw [if_pos hc]
  · rw [if_neg hc]
    cases handler with
    | none => simp only; rw [connWrite_agent]
    | some h0 =>
      simp only
      by_cases hex : (c.lookup id).isSome = true
      · rw [if_pos hex]
      · rw [if_neg hex]
        generalize hc1 : c.insert ⟨id, 0, c.rto, raw, h0, c.now⟩ = c1
        have hag1 : c1.agent = c.agent := by subst hc1; rfl
        have hst := agent_start_closed c1.agent id (nextTimeout ⟨id, 0, c.rto, raw, h0, c.now⟩ c.now)
        cases hs : (c1.agent.start id (nextTimeout ⟨id, 0, c.rto, raw, h0, c.now⟩ c.now)) with
        | mk a err =>
          rw [hs] at hst; simp only at hst
          cases err with
          | some er => simp only; show c1.agent.closed = _; rw [hag1]
          | none =>
            simp only
            split
            · rw [connWrite_agent]; show a.closed = _; rw [hst, hag1]
            · show (((_ : Client).erase id).agent.stop id).1.closed = _
              rw [agent_stop_closed]
              show (Client.connWrite _ _).1.agent.closed = _
              rw [connWrite_agent]; show a.closed = _; rw [hst, hag1]

theorem step_sinv (S) (c : Client) (hi : TInv c) (hf : FromStarts S c) (h : SInv c) (op : COp) : SInv (c.step op).1 := by
  have third : (c.step op).1.closed = true → (c.step op).1.t = [] := by
    intro hcl
    by_cases hop : op = .close
    · subst hop
      by_cases hc : c.closed = true
      · have := (close_spec c).1 hc
        simp only [Client.step, this]; exact h.closedEmpty hc
      · simp only [Client.step]
        exact close_clears c h.sync (by simpa using hc) (h.open_ (by simpa using hc))
    · have hc : c.closed = true := by rw [step_closedFlag S c hi hf op hop] at hcl; exact hcl
      exact (closed_table_stays_empty S c hi hf hc (h.closedEmpty hc) op).1
  cases op with
  | start id raw handler =>
    refine ⟨start_sync c h.sync id raw handler, ?_, third⟩
    intro hcl
    have hcl0 : c.closed = false := by
      rw [step_closedFlag S c hi hf (.start id raw handler) (by intro hh; cases hh)] at hcl; exact hcl
    show (c.start id raw handler).1.agent.closed = false
    rw [start_agentClosed]; exact h.open_ hcl0
  | deliver d =>
    refine ⟨by simp only [Client.step]; exact deliver_sync c hi h.sync d, ?_, third⟩
    intro hcl
    have hcl0 : c.closed = false := by
      rw [step_closedFlag S c hi hf (.deliver d) (by intro hh; cases hh)] at hcl; exact hcl
    have ha := h.open_ hcl0
    simp only [Client.step]
    unfold Client.deliver
    split
    · unfold Client.deliverDecoded
      split
      · exact ha
      · rw [callback_agentClosed]; show (c.agent.process _).1.closed = false; rw [agent_process_closed]; exact ha
    · exact ha
  | tick t =>
    refine ⟨tick_sync S c hi hf h.sync t, ?_, third⟩
    intro hcl
    have hcl0 : c.closed = false := by
      rw [step_closedFlag S c hi hf (.tick t) (by intro hh; cases hh)] at hcl; exact hcl
    have ha := h.open_ hcl0
    simp only [Client.step, Client.tick]
    rw [callbacks_agentClosed]; show (c.agent.collect t).1.closed = false; rw [agent_collect_closed]; exact ha
  | clock t => exact ⟨h.sync, h.open_, h.closedEmpty⟩
  | failWrite id => exact ⟨h.sync, h.open_, h.closedEmpty⟩
  | setRTO r => exact ⟨h.sync, h.open_, h.closedEmpty⟩
  | close =>
    by_cases hc : c.closed = true
    · have := (close_spec c).1 hc
      simp only [Client.step, this]; exact h
    · have hcf : c.closed = false := by simpa using hc
      have ht := close_clears c h.sync hcf (h.open_ hcf)
      have hcl := ((close_spec c).2 hcf).1
      refine ⟨?_, ?_, third⟩
      · intro id hid
        have : ckeys (c.step .close).1 = [] := by
          show ckeys (c.close).1 = []
          unfold ckeys; rw [ht]; rfl
        rw [this] at hid; simp at hid
      · intro hcl'
        have : (c.step .close).1.closed = true := hcl
        rw [this] at hcl'; simp at hcl'

theorem sinv_init : SInv ({} : Client) := ⟨by intro id hid; simp [ckeys] at hid, fun _ => rfl, fun _ => rfl⟩

/-- every reachable state is synchronised -/
theorem run_sinv (ops : List COp) : ∀ (S) (c : Client), TInv c → FromStarts S c → SInv c → SInv (run c ops).1 := by
  induction ops with
  | nil => intro S c _ _ h; exact h
  | cons op r ih =>
    intro S c hi hf h
    obtain ⟨s1, s2, _⟩ := step_spec S c hi hf op
    exact ih _ _ s1 s2 (step_sinv S c hi hf h op)

theorem run_append (c : Client) (a b : List COp) :
    run c (a ++ b) = ((run (run c a).1 b).1, (run c a).2 ++ (run (run c a).1 b).2) := by
  induction a generalizing c with
  | nil => simp [run]
  | cons op r ih => simp only [List.cons_append, run, ih, List.cons_append]

/-- when `Close` has returned the client is closed, whatever state it was in -/
theorem closed_after_close (c : Client) : (c.step .close).1.closed = true := by
  by_cases hc : c.closed = true
  · have := (close_spec c).1 hc
    simp only [Client.step, this]; exact hc
  · simp only [Client.step]; exact ((close_spec c).2 (by simpa using hc)).1

/-- in every reachable state, `Close` leaves no transaction registered -/
theorem close_leaves_nothing (S) (c : Client) (hi : TInv c) (hf : FromStarts S c) (h : SInv c) (ops : List COp) :
    (run c (ops ++ [.close])).1.t = [] := by
  rw [run_append]
  simp only [run]
  obtain ⟨r1, r2, _⟩ := run_spec ops S c hi hf
  have hs := run_sinv ops S c hi hf h
  exact (step_sinv _ _ r1 r2 hs .close).closedEmpty (closed_after_close _)

end Stun.ClientProofs
