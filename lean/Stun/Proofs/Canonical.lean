import Stun.Proofs.Build
import Stun.Proofs.DecodeMsg
import Stun.Model.Integrity
namespace Stun.BuildProofs
open Stun Stun.Msg Stun.Spec
set_option maxHeartbeats 400000

/-- wire form of one struct attribute with canonical (all-zero) padding -/
def wireOf (a : RawAttr) : Nat × Bytes × Bytes := (a.typ, a.val, zeros (pad4 a.val.length))

/-- the canonical encoding of an attribute list -/
def body (as : List RawAttr) : Bytes := serialize (as.map wireOf)

/-- the 20 header bytes with `lb` in the length field -/
def headerL (m : Msg) (lb : Bytes) : Bytes :=
  put16 (typeValue m.method m.cls) ++ lb ++ put32 magicCookie ++ m.tid

/-- struct and wire bytes agree, except that the two length bytes of the header currently hold `lb`
    (integrity / fingerprint setters pass through such states) -/
structure CanonicalL (m : Msg) (lb : Bytes) : Prop where
  cap : m.len ≤ m.mem.length
  tidLen : m.tid.length = 12
  lbLen : lb.length = 2
  raw : m.raw = headerL m lb ++ body m.attrs
  length : m.length = (body m.attrs).length
  fits : m.length < 65536
  attrs : ∀ a ∈ m.attrs, a.length = a.val.length ∧ a.typ < 65536 ∧ a.val.length < 65536

/-- the struct always matches its wire bytes, which are a well-formed message with zero padding -/
def Canonical (m : Msg) : Prop := CanonicalL m (put16 m.length)

theorem body_append (as : List RawAttr) (a : RawAttr) :
    body (as ++ [a]) = body as ++ tlvBytes a.typ a.val (zeros (pad4 a.val.length)) := by
  unfold body
  induction as with
  | nil => simp [serialize, wireOf]
  | cons x r ih => simp only [List.cons_append, List.map_cons, serialize, ih, List.append_assoc]

theorem headerL_length (m : Msg) (lb : Bytes) (h1 : m.tid.length = 12) (h2 : lb.length = 2) :
    (headerL m lb).length = 20 := by
  simp [headerL, put16, put32, h1, h2]

theorem CanonicalL.rawLen {m : Msg} {lb : Bytes} (h : CanonicalL m lb) : m.len = 20 + m.length := by
  have h1 := congrArg List.length h.raw
  simp only [Msg.raw, List.length_take, List.length_append, headerL_length m lb h.tidLen h.lbLen] at h1
  have := h.cap; have := h.length
  omega

theorem pad4_eq (n : Nat) : pad4 n = (4 - n % 4) % 4 := rfl

/-- overwriting the length field of header ++ rest -/
theorem writeAt_lenField (tv lb lb' rest : Bytes) (h1 : tv.length = 2) (h2 : lb.length = 2) (h3 : lb'.length = 2) :
    writeAt (tv ++ lb ++ rest) 2 lb' = tv ++ lb' ++ rest := by
  unfold writeAt
  have e1 : (tv ++ lb ++ rest).take 2 = tv := by
    rw [List.append_assoc, ← h1, List.take_left]
  have e2 : (tv ++ lb ++ rest).drop (2 + lb'.length) = rest := by
    have : 2 + lb'.length = (tv ++ lb).length := by simp [h1, h2, h3]
    rw [this, List.drop_left]
  rw [e1, e2]

/-- `Add` re-establishes full agreement from any state that agrees up to the length bytes -/
theorem canonical_add (m : Msg) (lb : Bytes) (t : Nat) (v : Bytes) (h : CanonicalL m lb) (ht : t < 65536)
    (hfit : m.length + 4 + v.length + pad4 v.length < 65536) : Canonical (m.add t v) := by
  have hlen := h.rawLen
  obtain ⟨r1, r2, r3, r4, r5, r6, r7, r8⟩ := add_spec m t v (by omega) h.cap (by have := pad4_lt' v.length; omega)

  have hv : v.length < 65536 := by omega
  have hvm : v.length % 65536 = v.length := Nat.mod_eq_of_lt hv
  have htake : m.raw.take (20 + m.length) = m.raw := by
    apply List.take_of_length_le
    simp only [Msg.raw, List.length_take]; omega
  refine ⟨r3, by rw [r8]; exact h.tidLen, by simp [put16], ?_, ?_, ?_, ?_⟩
  · rw [r1, htake, h.raw, r5, hvm, body_append]
    simp only [headerL, r6, r7, r8, r4]
    have := writeAt_lenField (put16 (typeValue m.method m.cls)) lb
      (put16 (m.length + 4 + v.length + (4 - v.length % 4) % 4))
      (put32 magicCookie ++ m.tid ++ body m.attrs ++ put16 t ++ put16 v.length ++ v ++ zeros ((4 - v.length % 4) % 4))
      rfl h.lbLen rfl
    simp only [List.append_assoc] at this ⊢
    rw [this]
    simp [tlvBytes, pad4_eq, List.append_assoc]
  · rw [r4, r5, hvm, body_append, List.length_append, ← h.length, tlvBytes_length']
    simp [zeros, pad4_eq]; omega
  · rw [r4]; simp only [pad4_eq] at hfit; omega
  · rw [r5]
    intro a ha
    simp only [List.mem_append, List.mem_singleton] at ha
    rcases ha with ha | rfl
    · exact h.attrs a ha
    · exact ⟨hvm, ht, hv⟩


theorem writeAt_drop_after (mem : Bytes) (pos : Nat) (d : Bytes) (n : Nat) (h1 : pos + d.length ≤ n)
    (h2 : pos + d.length ≤ mem.length) : (writeAt mem pos d).drop n = mem.drop n := by
  unfold writeAt
  have hl : (mem.take pos ++ d).length = pos + d.length := by simp; omega
  rw [List.drop_append, hl]
  have : (mem.take pos ++ d).drop n = [] := by apply List.drop_eq_nil_of_le; omega
  rw [this, List.nil_append, List.drop_drop]; congr 1; omega

theorem put32_len (n : Nat) : (put32 n).length = 4 := rfl

/-- `WriteHeader`: the first 20 visible bytes become the header of the struct's fields; later bytes are kept -/
theorem writeHeader_spec (m : Msg) (hcap : m.len ≤ m.mem.length) (htid : m.tid.length = 12) :
    let m' := m.writeHeader
    m'.raw = put16 (typeValue m.method m.cls) ++ put16 m.length ++ put32 magicCookie ++ m.tid ++ m.raw.drop 20 ∧
    m'.len = max m.len 20 ∧ m'.len ≤ m'.mem.length ∧ m'.length = m.length ∧ m'.attrs = m.attrs ∧
    m'.method = m.method ∧ m'.cls = m.cls ∧ m'.tid = m.tid := by
  intro m'
  -- the grown message
  have hg : ∃ g : Msg, g = m.grow 20 ∧ g.len = max m.len 20 ∧ g.len ≤ g.mem.length ∧
      (g.mem.take g.len).drop 20 = m.raw.drop 20 ∧ g.length = m.length ∧ g.attrs = m.attrs ∧ g.method = m.method ∧
      g.cls = m.cls ∧ g.tid = m.tid := by
    refine ⟨m.grow 20, rfl, ?_⟩
    by_cases hl : m.len ≤ 20
    · obtain ⟨a1, a2, a3, a4, a5, a6, a7, a8⟩ := grow_spec m 20 hcap hl
      refine ⟨by rw [a1]; omega, by rw [a1]; exact a2, ?_, a4, a5, a6, a7, a8⟩
      rw [a1]
      have e1 : ((m.grow 20).mem.take 20).drop 20 = [] := by apply List.drop_eq_nil_of_le; simp; omega
      have e2 : m.raw.drop 20 = [] := by apply List.drop_eq_nil_of_le; simp [Msg.raw]; omega
      rw [e1, e2]
    · rw [grow_noop m 20 (by omega)]
      exact ⟨by omega, hcap, rfl, rfl, rfl, rfl, rfl, rfl⟩
  obtain ⟨g, hgdef, g1, g2, g3, g4, g5, g6, g7, g8⟩ := hg
  have g20 : 20 ≤ g.len := by omega
  have hm' : m' = { g with mem := writeAt (writeAt (writeAt (writeAt g.mem 0 (put16 (typeValue g.method g.cls)))
      2 (put16 g.length)) 4 (put32 magicCookie)) 8 g.tid } := by
    simp only [m', Msg.writeHeader, messageHeaderSize, ← hgdef]
    have e1 : g.writeType = { g with mem := writeAt g.mem 0 (put16 (typeValue g.method g.cls)) } := by
      unfold Msg.writeType; rw [grow_noop g 2 (by omega)]
    rw [e1]
    have e2 : ({ g with mem := writeAt g.mem 0 (put16 (typeValue g.method g.cls)) } : Msg).writeLength
        = { g with mem := writeAt (writeAt g.mem 0 (put16 (typeValue g.method g.cls))) 2 (put16 g.length) } := by
      unfold Msg.writeLength; rw [grow_noop _ 4 (by simp only; omega)]
    rw [e2]
  rw [hm']
  generalize hT : put16 (typeValue g.method g.cls) = T at *
  have hTl : T.length = 2 := by rw [← hT]; rfl
  have l1 : (writeAt g.mem 0 T).length = g.mem.length := writeAt_length _ _ _ (by omega)
  have l2 : (writeAt (writeAt g.mem 0 T) 2 (put16 g.length)).length = g.mem.length := by
    rw [writeAt_length _ _ _ (by rw [l1]; simp [put16_len]; omega), l1]
  have l3 : (writeAt (writeAt (writeAt g.mem 0 T) 2 (put16 g.length)) 4 (put32 magicCookie)).length = g.mem.length := by
    rw [writeAt_length _ _ _ (by rw [l2]; simp [put32_len]; omega), l2]
  have l4 : (writeAt (writeAt (writeAt (writeAt g.mem 0 T) 2 (put16 g.length)) 4 (put32 magicCookie)) 8 g.tid).length
      = g.mem.length := by
    rw [writeAt_length _ _ _ (by rw [l3, g8, htid]; omega), l3]
  refine ⟨?_, g1, by simp only; rw [l4]; exact g2, g4, g5, g6, g7, g8⟩
  simp only [Msg.raw]
  -- split the visible bytes at 20
  have split : ∀ (l : Bytes) (n : Nat), 20 ≤ n → l.take n = l.take 20 ++ (l.take n).drop 20 := by
    intro l n hn
    have := (List.take_append_drop 20 (l.take n)).symm
    rw [List.take_take] at this
    have e : min 20 n = 20 := by omega
    rw [e] at this; exact this
  rw [split _ _ g20]
  have hd : ((writeAt (writeAt (writeAt (writeAt g.mem 0 T) 2 (put16 g.length)) 4 (put32 magicCookie)) 8 g.tid).take g.len).drop 20
      = (g.mem.take g.len).drop 20 := by
    rw [List.drop_take, List.drop_take]
    congr 1
    rw [writeAt_drop_after _ _ _ _ (by rw [g8, htid]; omega) (by rw [l3, g8, htid]; omega),
        writeAt_drop_after _ _ _ _ (by simp [put32_len]) (by rw [l2]; simp [put32_len]; omega),
        writeAt_drop_after _ _ _ _ (by simp [put16_len]) (by rw [l1]; simp [put16_len]; omega),
        writeAt_drop_after _ _ _ _ (by omega) (by omega)]
  rw [hd, g3]
  have ht : (writeAt (writeAt (writeAt (writeAt g.mem 0 T) 2 (put16 g.length)) 4 (put32 magicCookie)) 8 g.tid).take 20
      = T ++ put16 g.length ++ put32 magicCookie ++ g.tid := by
    have e1 : 20 = 8 + g.tid.length := by rw [g8, htid]
    rw [e1, writeAt_take_end _ _ _ (by rw [l3]; omega)]
    have e2 : 8 = 4 + (put32 magicCookie).length := by simp [put32_len]
    rw [e2, writeAt_take_end _ _ _ (by rw [l2]; omega)]
    have e3 : 4 = 2 + (put16 g.length).length := by simp [put16_len]
    rw [e3, writeAt_take_end _ _ _ (by rw [l1]; omega)]
    have e4 : 2 = 0 + T.length := by rw [hTl]
    rw [e4, writeAt_take_end _ _ _ (by omega)]
    simp
  rw [ht, ← hT, g6, g7, g4, g8]; rfl


theorem writeAt_zero_prefix (a a' rest : Bytes) (h : a.length = a'.length) :
    writeAt (a ++ rest) 0 a' = a' ++ rest := by
  unfold writeAt
  simp only [List.take_zero, List.nil_append, Nat.zero_add]
  rw [← h, List.drop_left]

theorem canonical_setType (m : Msg) (lb : Bytes) (me c : Nat) (h : CanonicalL m lb) :
    CanonicalL (m.setType me c) lb := by
  have hlen := h.rawLen
  unfold Msg.setType Msg.writeType
  rw [grow_noop _ 2 (by simp only; omega)]
  refine ⟨?_, h.tidLen, h.lbLen, ?_, h.length, h.fits, h.attrs⟩
  · simp only; rw [writeAt_length _ _ _ (by simp [put16_len]; have := h.cap; omega)]; exact h.cap
  · simp only [Msg.raw]
    rw [writeAt_take_comm _ _ _ _ (by simp [put16_len]; omega) h.cap]
    have := h.raw; simp only [Msg.raw] at this; rw [this]
    simp only [headerL, List.append_assoc]
    exact writeAt_zero_prefix _ _ _ rfl

theorem canonical_setTid (m : Msg) (lb id : Bytes) (h : CanonicalL m lb) (hid : id.length = 12) :
    CanonicalL ({ m with tid := id }).writeTransactionID lb := by
  have hlen := h.rawLen
  unfold Msg.writeTransactionID
  refine ⟨?_, hid, h.lbLen, ?_, h.length, h.fits, h.attrs⟩
  · simp only; rw [writeAt_length _ _ _ (by rw [hid]; have := h.cap; omega)]; exact h.cap
  · simp only [Msg.raw]
    rw [writeAt_take_comm _ _ _ _ (by rw [hid]; omega) h.cap]
    have := h.raw; simp only [Msg.raw] at this; rw [this]
    simp only [headerL]
    -- the 12 bytes at offset 8 are the transaction id
    unfold writeAt
    have hpre : (put16 (typeValue m.method m.cls) ++ lb ++ put32 magicCookie).length = 8 := by
      simp [put16, put32, h.lbLen]
    have e1 : (put16 (typeValue m.method m.cls) ++ lb ++ put32 magicCookie ++ m.tid ++ body m.attrs).take 8
        = put16 (typeValue m.method m.cls) ++ lb ++ put32 magicCookie := by
      rw [List.append_assoc _ m.tid, ← hpre, List.take_left]
    have e2 : (put16 (typeValue m.method m.cls) ++ lb ++ put32 magicCookie ++ m.tid ++ body m.attrs).drop (8 + id.length)
        = body m.attrs := by
      have : 8 + id.length = (put16 (typeValue m.method m.cls) ++ lb ++ put32 magicCookie ++ m.tid).length := by
        rw [List.length_append, hpre, hid, h.tidLen]
      rw [this, List.drop_left]
    rw [e1, e2]

theorem canonical_writeLength (m : Msg) (lb : Bytes) (h : CanonicalL m lb) : Canonical m.writeLength := by
  have hlen := h.rawLen
  obtain ⟨d1, d2, d3, d4, d5, d6, d7, d8⟩ := writeLength_spec m (by omega) h.cap
  refine ⟨by rw [d2, d3]; exact h.cap, by rw [d8]; exact h.tidLen, rfl, ?_, by rw [d4, d5]; exact h.length,
    by rw [d4]; exact h.fits, by rw [d5]; exact h.attrs⟩
  rw [d1, h.raw, d4, d5]
  simp only [headerL, d6, d7, d8, List.append_assoc]
  have := writeAt_lenField (put16 (typeValue m.method m.cls)) lb (put16 m.length)
    (put32 magicCookie ++ (m.tid ++ body m.attrs)) rfl h.lbLen rfl
  simp only [List.append_assoc] at this
  exact this

theorem canonical_start (m : Msg) (hcap : m.len ≤ m.mem.length) (htid : m.tid.length = 12) :
    Canonical (m.reset.writeHeader) := by
  have hr : m.reset.len ≤ m.reset.mem.length := by simp [Msg.reset]
  obtain ⟨w1, w2, w3, w4, w5, w6, w7, w8⟩ := writeHeader_spec m.reset hr (by simpa [Msg.reset] using htid)
  have e : m.reset.raw.drop 20 = [] := by simp [Msg.raw, Msg.reset]
  refine ⟨w3, by rw [w8]; simpa [Msg.reset] using htid, rfl, ?_, by rw [w4, w5]; simp [Msg.reset, body, serialize],
    by rw [w4]; simp [Msg.reset], by rw [w5]; simp [Msg.reset]⟩
  rw [w1, e, w4, w5]
  simp only [headerL, w6, w7, w8]
  simp [Msg.reset, body, serialize]


/-- the (type, value) a value-adding setter appends when it accepts its argument -/
def Setter.adds (s : Setter) (m : Msg) : Option (Nat × Bytes) :=
  match s with
  | .raw t v => some (t, v)
  | .text k v => if v.length ≤ k.limit then some (k.attr, v) else none
  | .xorAddr a ip p =>
    (addrFamily ip).map (fun fi => (a, put16 fi.1 ++ put16 (p ^^^ (magicCookie >>> 16)) ++ xorBytes fi.2 (put32 magicCookie ++ m.tid)))
  | .mapAddr a ip p => (addrFamily ip).map (fun fi => (a, put16 fi.1 ++ put16 p ++ fi.2))
  | .errorCode c r =>
    if r.length ≤ errorCodeReasonMaxB then
      some (attrErrorCode, [0, 0, UInt8.ofNat (c / errorCodeModulo), UInt8.ofNat (c % errorCodeModulo)] ++ r)
    else none
  | .errorCodeDefault c =>
    (errorReasons.lookup c).bind (fun r =>
      if r.length ≤ errorCodeReasonMaxB then
        some (attrErrorCode, [0, 0, UInt8.ofNat (c / errorCodeModulo), UInt8.ofNat (c % errorCodeModulo)] ++ r)
      else none)
  | .unknownAttrs ts => some (attrUnknownAttributes, ts.flatMap put16)
  | _ => none

/-- a value-adding setter either appends exactly `adds` through `Add`, or fails leaving the message untouched -/
theorem setter_adds (mac : Bytes → Bytes → Bytes) (s : Setter) (m : Msg)
    (hs : match s with | .msgType _ _ | .tid _ | .integrity _ | .fingerprint => False | _ => True) :
    match Setter.adds s m with
    | some (t, v) => s.addTo mac m = (m.add t v, none)
    | none => ∃ e, s.addTo mac m = (m, some e) := by
  cases s with
  | msgType _ _ | tid _ | integrity _ | fingerprint => exact hs.elim
  | raw t v => simp [Setter.adds, Setter.addTo]
  | text k v =>
    simp only [Setter.adds, Setter.addTo, textAddToAs, checkOverflow]
    by_cases h : v.length ≤ k.limit
    · simp [h]
    · simp [h]
  | xorAddr a ip p =>
    simp only [Setter.adds, Setter.addTo, xorAddToAs]
    cases addrFamily ip with
    | none => simp
    | some fi => simp
  | mapAddr a ip p =>
    simp only [Setter.adds, Setter.addTo, mappedAddToAs]
    cases addrFamily ip with
    | none => simp
    | some fi => simp
  | errorCode c r =>
    simp only [Setter.adds, Setter.addTo, errorCodeAddTo, checkOverflow]
    by_cases h : r.length ≤ errorCodeReasonMaxB
    · have : r.length + errorCodeReasonStart ≤ errorCodeReasonMaxB + errorCodeReasonStart := by omega
      simp [h, this]
    · have : ¬ r.length + errorCodeReasonStart ≤ errorCodeReasonMaxB + errorCodeReasonStart := by omega
      simp [h, this]
  | errorCodeDefault c =>
    simp only [Setter.adds, Setter.addTo, errorCodeDefaultAddTo]
    cases errorReasons.lookup c with
    | none => simp
    | some r =>
      simp only [Option.bind_some, errorCodeAddTo, checkOverflow]
      by_cases h : r.length ≤ errorCodeReasonMaxB
      · have : r.length + errorCodeReasonStart ≤ errorCodeReasonMaxB + errorCodeReasonStart := by omega
        simp [h, this]
      · have : ¬ r.length + errorCodeReasonStart ≤ errorCodeReasonMaxB + errorCodeReasonStart := by omega
        simp [h, this]
  | unknownAttrs ts => simp [Setter.adds, Setter.addTo, unknownAddTo]


theorem sumIntoSpare_spec (m : Msg) (d : Bytes) (hcap : m.len ≤ m.mem.length) :
    (m.sumIntoSpare d).raw = m.raw ∧ (m.sumIntoSpare d).len = m.len ∧
    (m.sumIntoSpare d).mem.length = m.mem.length ∧ (m.sumIntoSpare d).length = m.length ∧
    (m.sumIntoSpare d).attrs = m.attrs ∧ (m.sumIntoSpare d).method = m.method ∧ (m.sumIntoSpare d).cls = m.cls ∧
    (m.sumIntoSpare d).tid = m.tid := by
  unfold Msg.sumIntoSpare
  by_cases h : m.len + d.length ≤ m.mem.length
  · simp only [h, if_true, Msg.raw]
    refine ⟨writeAt_take_before _ _ _ _ (Nat.le_refl _) hcap, trivial, writeAt_length _ _ _ h, trivial, trivial,
      trivial, trivial, trivial⟩
  · simp [h]

/-- the state in which integrity / fingerprint setters call `Add`: header length field already advanced by `k` -/
theorem canonicalL_bumped (m : Msg) (k : Nat) (h : Canonical m) (hfit : m.length + k < 65536) :
    let m1 := ({ m with length := w32 (m.length + k) }).writeLength
    m1.raw = headerL m (put16 (m.length + k)) ++ body m.attrs ∧ m1.len = m.len ∧ m1.len ≤ m1.mem.length ∧
    m1.attrs = m.attrs ∧ m1.method = m.method ∧ m1.cls = m.cls ∧ m1.tid = m.tid := by
  intro m1
  have hlen := h.rawLen
  have hw : w32 (m.length + k) = m.length + k := by unfold w32; apply Nat.mod_eq_of_lt; omega
  obtain ⟨d1, d2, d3, d4, d5, d6, d7, d8⟩ :=
    writeLength_spec { m with length := w32 (m.length + k) } (by simp only; omega) h.cap
  refine ⟨?_, d2, by rw [d2, d3]; exact h.cap, d5, d6, d7, d8⟩
  rw [d1]
  have hr : ({ m with length := w32 (m.length + k) } : Msg).raw = m.raw := rfl
  rw [hr, h.raw, hw]
  simp only [headerL, List.append_assoc]
  have := writeAt_lenField (put16 (typeValue m.method m.cls)) (put16 m.length) (put16 (m.length + k))
    (put32 magicCookie ++ (m.tid ++ body m.attrs)) rfl rfl rfl
  simp only [List.append_assoc] at this
  exact this

/-- `MessageIntegrity.AddTo` on a canonical message without FINGERPRINT: the result is canonical, and the value
    appended is the MAC of the message bytes with the header length already counting the new attribute -/
theorem integrity_canonical (mac : Bytes → Bytes → Bytes) (hmac : ∀ k x, (mac k x).length = 20)
    (key : Bytes) (m : Msg) (h : Canonical m) (hfp : m.attrs.any (fun a => a.typ == attrFingerprint) = false)
    (hfit : m.length + 24 < 65536) :
    let v := mac key (headerL m (put16 (m.length + 24)) ++ body m.attrs)
    (integrityAddTo mac key m).2 = none ∧ Canonical (integrityAddTo mac key m).1 ∧
    (integrityAddTo mac key m).1.attrs = m.attrs ++ [⟨attrMessageIntegrity, 20, v⟩] ∧
    (integrityAddTo mac key m).1.method = m.method ∧ (integrityAddTo mac key m).1.cls = m.cls ∧
    (integrityAddTo mac key m).1.tid = m.tid := by
  intro v
  obtain ⟨c1, c2, c3, c4, c5, c6, c7⟩ := canonicalL_bumped m 24 h hfit

  unfold integrityAddTo
  simp only [hfp, Bool.false_eq_true, if_false, messageIntegritySize, attributeHeaderSize]
  have e24 : m.length + 20 + 4 = m.length + 24 := by omega
  rw [e24]
  generalize hm1 : ({ m with length := w32 (m.length + 24) } : Msg).writeLength = m1 at *
  obtain ⟨s1, s2, s3, s4, s5, s6, s7, s8⟩ := sumIntoSpare_spec m1 (mac key m1.raw) c3
  have hv : mac key m1.raw = v := by rw [c1]
  rw [hv] at s1 s2 s3 s4 s5 s6 s7 s8 ⊢
  generalize hm2 : m1.sumIntoSpare v = m2 at *
  have hL : CanonicalL { m2 with length := m.length } (put16 (m.length + 24)) := by
    refine ⟨by simp only; rw [s2, s3]; exact c3, by simp only; rw [s8, c7]; exact h.tidLen, rfl, ?_,
      by simp only; rw [s5, c4]; exact h.length, h.fits, by simp only; rw [s5, c4]; exact h.attrs⟩
    have : ({ m2 with length := m.length } : Msg).raw = m2.raw := rfl
    rw [this, s1, c1]
    simp only [headerL, s5, s6, s7, s8, c4, c5, c6, c7]
  have hvl : v.length = 20 := hmac _ _
  have hcan := canonical_add _ _ attrMessageIntegrity v hL (by decide) (by simp only [hvl, pad4]; omega)
  obtain ⟨r1, r2, r3, r4, r5, r6, r7, r8⟩ := add_spec { m2 with length := m.length } attrMessageIntegrity v
    (by simp only; rw [s2, c2]; have := h.rawLen; omega) (by simp only; rw [s2, s3]; exact c3)
    (by simp only; rw [hvl]; omega)
  refine ⟨trivial, hcan, ?_, ?_, ?_, ?_⟩
  · rw [r5]; simp only [s5, c4, hvl]
  · rw [r6]; simp only [s6, c5]
  · rw [r7]; simp only [s7, c6]
  · rw [r8]; simp only [s8, c7]

/-- `FingerprintAttr.AddTo` on a canonical message: canonical result, value = CRC of everything before it with the
    final header length, xor 0x5354554e -/
theorem fingerprint_canonical (m : Msg) (h : Canonical m) (hfit : m.length + 8 < 65536) :
    let val := fingerprintValue (headerL m (put16 (m.length + 8)) ++ body m.attrs)
    (fingerprintAddTo m).2 = none ∧ Canonical (fingerprintAddTo m).1 ∧
    (fingerprintAddTo m).1.attrs = m.attrs ++ [⟨attrFingerprint, 4, put32 val⟩] ∧
    (fingerprintAddTo m).1.method = m.method ∧ (fingerprintAddTo m).1.cls = m.cls ∧
    (fingerprintAddTo m).1.tid = m.tid := by
  intro val
  obtain ⟨c1, c2, c3, c4, c5, c6, c7⟩ := canonicalL_bumped m 8 h hfit

  unfold fingerprintAddTo
  simp only [fingerprintSize, attributeHeaderSize]
  have e8 : m.length + 4 + 4 = m.length + 8 := by omega
  rw [e8]
  generalize hm1 : ({ m with length := w32 (m.length + 8) } : Msg).writeLength = m1 at *
  have hv : fingerprintValue m1.raw = val := by rw [c1]
  rw [hv]
  have hL : CanonicalL { m1 with length := m.length } (put16 (m.length + 8)) := by
    refine ⟨c3, by simp only; rw [c7]; exact h.tidLen, rfl, ?_,
      by simp only; rw [c4]; exact h.length, h.fits, by simp only; rw [c4]; exact h.attrs⟩
    have : ({ m1 with length := m.length } : Msg).raw = m1.raw := rfl
    rw [this, c1]
    simp only [headerL, c4, c5, c6, c7]
  have hcan := canonical_add _ _ attrFingerprint (put32 val) hL (by decide) (by simp [put32, pad4]; omega)
  obtain ⟨r1, r2, r3, r4, r5, r6, r7, r8⟩ := add_spec { m1 with length := m.length } attrFingerprint (put32 val)
    (by simp only; rw [c2]; have := h.rawLen; omega) c3 (by simp [put32]; omega)
  refine ⟨trivial, hcan, ?_, ?_, ?_, ?_⟩
  · rw [r5]; simp only [c4]; simp [put32]
  · rw [r6]; simp only [c5]
  · rw [r7]; simp only [c6]
  · rw [r8]; simp only [c7]


/-- the size / type preconditions under which a setter keeps the message representable
    (`Add` has no error return for sizes beyond the 16-bit length field) -/
def SetterFits (s : Setter) (m : Msg) : Prop :=
  match s with
  | .msgType _ _ => True
  | .tid id => id.length = 12
  | .integrity _ => m.length + 24 < 65536
  | .fingerprint => m.length + 8 < 65536
  | s => match Setter.adds s m with
         | some (t, v) => t < 65536 ∧ m.length + 4 + v.length + pad4 v.length < 65536
         | none => True

/-- a failing setter leaves the message exactly as it was (raw bytes, spare capacity, length, attribute list) -/
theorem setter_fail_atomic (mac : Bytes → Bytes → Bytes) (s : Setter) (m : Msg) (e : SetErr)
    (h : (s.addTo mac m).2 = some e) : (s.addTo mac m).1 = m := by
  cases s with
  | msgType me c => simp [Setter.addTo] at h
  | tid id => simp [Setter.addTo] at h
  | integrity key =>
    simp only [Setter.addTo, integrityAddTo] at h ⊢
    by_cases hfp : m.attrs.any (fun a => a.typ == attrFingerprint) = true
    · simp [hfp]
    · simp [hfp] at h
  | fingerprint => simp [Setter.addTo, fingerprintAddTo] at h
  | raw t v =>
    have := setter_adds mac (.raw t v) m trivial
    cases ha : Setter.adds (.raw t v) m with
    | none => rw [ha] at this; obtain ⟨e', he⟩ := this; rw [he]
    | some tv => rw [ha] at this; rw [this] at h; simp at h
  | text k v =>
    have := setter_adds mac (.text k v) m trivial
    cases ha : Setter.adds (.text k v) m with
    | none => rw [ha] at this; obtain ⟨e', he⟩ := this; rw [he]
    | some tv => rw [ha] at this; rw [this] at h; simp at h
  | xorAddr a ip p =>
    have := setter_adds mac (.xorAddr a ip p) m trivial
    cases ha : Setter.adds (.xorAddr a ip p) m with
    | none => rw [ha] at this; obtain ⟨e', he⟩ := this; rw [he]
    | some tv => rw [ha] at this; rw [this] at h; simp at h
  | mapAddr a ip p =>
    have := setter_adds mac (.mapAddr a ip p) m trivial
    cases ha : Setter.adds (.mapAddr a ip p) m with
    | none => rw [ha] at this; obtain ⟨e', he⟩ := this; rw [he]
    | some tv => rw [ha] at this; rw [this] at h; simp at h
  | errorCode c r =>
    have := setter_adds mac (.errorCode c r) m trivial
    cases ha : Setter.adds (.errorCode c r) m with
    | none => rw [ha] at this; obtain ⟨e', he⟩ := this; rw [he]
    | some tv => rw [ha] at this; rw [this] at h; simp at h
  | errorCodeDefault c =>
    have := setter_adds mac (.errorCodeDefault c) m trivial
    cases ha : Setter.adds (.errorCodeDefault c) m with
    | none => rw [ha] at this; obtain ⟨e', he⟩ := this; rw [he]
    | some tv => rw [ha] at this; rw [this] at h; simp at h
  | unknownAttrs ts =>
    have := setter_adds mac (.unknownAttrs ts) m trivial
    cases ha : Setter.adds (.unknownAttrs ts) m with
    | none => rw [ha] at this; obtain ⟨e', he⟩ := this; rw [he]
    | some tv => rw [ha] at this; rw [this] at h; simp at h

/-- every setter maps canonical messages to canonical messages (whether it succeeds or fails) -/
theorem setter_canonical (mac : Bytes → Bytes → Bytes) (hmac : ∀ k x, (mac k x).length = 20)
    (s : Setter) (m : Msg) (h : Canonical m) (hf : SetterFits s m) : Canonical (s.addTo mac m).1 := by
  cases hr : (s.addTo mac m).2 with
  | some e => rw [setter_fail_atomic mac s m e hr]; exact h
  | none =>
    have gen : ∀ (s : Setter), (match s with | .msgType _ _ | .tid _ | .integrity _ | .fingerprint => False | _ => True) →
        (match Setter.adds s m with
          | some (t, v) => t < 65536 ∧ m.length + 4 + v.length + pad4 v.length < 65536
          | none => True) → Canonical (s.addTo mac m).1 := by
      intro s hs hfit
      have := setter_adds mac s m hs
      cases ha : Setter.adds s m with
      | none => rw [ha] at this; obtain ⟨e', he⟩ := this; rw [he]; exact h
      | some tv =>
        obtain ⟨t, v⟩ := tv
        rw [ha] at this hfit; rw [this]
        exact canonical_add m _ t v h hfit.1 hfit.2
    cases s with
    | msgType me c =>
      have hl : (m.setType me c).length = m.length := by
        unfold Msg.setType Msg.writeType Msg.grow; simp only; split <;> (try split) <;> rfl
      have := canonical_setType m _ me c h
      unfold Canonical; simp only [Setter.addTo]; rw [hl]; exact this
    | tid id =>
      have := canonical_setTid m _ id h hf
      unfold Canonical; simp only [Setter.addTo]; exact this
    | integrity key =>
      simp only [Setter.addTo] at hr ⊢
      by_cases hfp : m.attrs.any (fun a => a.typ == attrFingerprint) = true
      · simp [integrityAddTo, hfp] at hr
      · exact (integrity_canonical mac hmac key m h (by simpa using hfp) hf).2.1
    | fingerprint => exact (fingerprint_canonical m h hf).2.1
    | raw t v => exact gen _ trivial hf
    | text k v => exact gen _ trivial hf
    | xorAddr a ip p => exact gen _ trivial hf
    | mapAddr a ip p => exact gen _ trivial hf
    | errorCode c r => exact gen _ trivial hf
    | errorCodeDefault c => exact gen _ trivial hf
    | unknownAttrs ts => exact gen _ trivial hf

/-- the size preconditions hold at every step of a setter list -/
def AllFit (mac : Bytes → Bytes → Bytes) : List Setter → Msg → Prop
  | [], _ => True
  | s :: r, m => SetterFits s m ∧ ((s.addTo mac m).2 = none → AllFit mac r (s.addTo mac m).1)

theorem applySetters_canonical (mac : Bytes → Bytes → Bytes) (hmac : ∀ k x, (mac k x).length = 20)
    (ss : List Setter) (m : Msg) (h : Canonical m) (hf : AllFit mac ss m) :
    Canonical (applySetters mac ss m).1 := by
  induction ss generalizing m with
  | nil => exact h
  | cons s r ih =>
    simp only [applySetters]
    have hc := setter_canonical mac hmac s m h hf.1
    cases hr : s.addTo mac m with
    | mk m' e =>
      cases e with
      | some e => rw [hr] at hc; exact hc
      | none =>
        rw [hr] at hc
        have := hf.2 (by rw [hr])
        rw [hr] at this
        exact ih m' hc this

/-- `Build` with any setters (within the 16-bit size limits) yields a canonical message, from any previous state
    of the message object -/
theorem build_canonical (mac : Bytes → Bytes → Bytes) (hmac : ∀ k x, (mac k x).length = 20)
    (m : Msg) (ss : List Setter) (hcap : m.len ≤ m.mem.length) (htid : m.tid.length = 12)
    (hf : AllFit mac ss m.reset.writeHeader) : Canonical (build mac m ss).1 := by
  unfold build
  exact applySetters_canonical mac hmac ss _ (canonical_start m hcap htid) hf

/-- `Build` stops at the first failing setter: the error is that setter's, and the message is the result of exactly
    the setters before it -/
theorem build_first_error (mac : Bytes → Bytes → Bytes) (ss : List Setter) (m : Msg) (e : SetErr)
    (h : (applySetters mac ss m).2 = some e) :
    ∃ pre s post, ss = pre ++ s :: post ∧ (applySetters mac pre m).2 = none ∧
      (s.addTo mac (applySetters mac pre m).1).2 = some e ∧
      (applySetters mac ss m).1 = (applySetters mac pre m).1 := by
  induction ss generalizing m with
  | nil => simp [applySetters] at h
  | cons s r ih =>
    simp only [applySetters] at h ⊢
    cases hr : s.addTo mac m with
    | mk m' e' =>
      cases e' with
      | some e' =>
        rw [hr] at h; simp only at h
        refine ⟨[], s, r, rfl, rfl, ?_, ?_⟩
        · simp only [applySetters]; rw [hr]; exact h
        · simp only [applySetters]
          have := setter_fail_atomic mac s m e' (by rw [hr])
          rw [hr] at this; exact this
      | none =>
        rw [hr] at h; simp only at h
        obtain ⟨pre, s', post, h1, h2, h3, h4⟩ := ih m' h
        refine ⟨s :: pre, s', post, by rw [h1]; rfl, ?_, ?_, ?_⟩
        · simp only [applySetters, hr]; exact h2
        · simp only [applySetters, hr]; exact h3
        · simp only [applySetters, hr]; exact h4

theorem build_all_ok (mac : Bytes → Bytes → Bytes) (ss : List Setter) (m : Msg)
    (h : ∀ s ∈ ss, ∀ m', (s.addTo mac m').2 = none) : (applySetters mac ss m).2 = none := by
  induction ss generalizing m with
  | nil => rfl
  | cons s r ih =>
    simp only [applySetters]
    have := h s (List.mem_cons_self) m
    cases hr : s.addTo mac m with
    | mk m' e =>
      rw [hr] at this; simp only at this; subst this
      exact ih m' (fun s' hs' => h s' (List.mem_cons_of_mem _ hs'))

end Stun.BuildProofs
