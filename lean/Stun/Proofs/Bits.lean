/-
  Bit-mask facts used to turn Go's mask-and-shift arithmetic into div/mod arithmetic that `omega` decides.
-/
namespace Stun.Bits

theorem and_shift_mask (x lo w : Nat) :
    x &&& ((2 ^ w - 1) <<< lo) = ((x >>> lo) % 2 ^ w) <<< lo := by
  apply Nat.eq_of_testBit_eq; intro i
  simp only [Nat.testBit_and, Nat.testBit_shiftLeft, Nat.testBit_mod_two_pow, Nat.testBit_shiftRight,
    Nat.testBit_two_pow_sub_one]
  by_cases h : lo ≤ i
  · simp [h]
    by_cases h2 : i - lo < w
    · simp [h2]
    · simp [h2]
  · simp [h]

theorem and_0x70 (x : Nat) : x &&& 0x70 = ((x / 16) % 8) * 16 := by
  have := and_shift_mask x 4 3
  simpa [Nat.shiftLeft_eq, Nat.shiftRight_eq_div_pow] using this
theorem and_0xf80 (x : Nat) : x &&& 0xf80 = ((x / 128) % 32) * 128 := by
  have := and_shift_mask x 7 5
  simpa [Nat.shiftLeft_eq, Nat.shiftRight_eq_div_pow] using this
theorem and_0xf (x : Nat) : x &&& 0xf = x % 16 := by
  have := and_shift_mask x 0 4
  simp [Nat.shiftLeft_eq, Nat.shiftRight_eq_div_pow] at this; exact this
theorem and_0x1 (x : Nat) : x &&& 0x1 = x % 2 := Nat.and_one_is_mod x
theorem and_0x2 (x : Nat) : x &&& 0x2 = ((x / 2) % 2) * 2 := by
  have := and_shift_mask x 1 1
  simpa [Nat.shiftLeft_eq, Nat.shiftRight_eq_div_pow] using this

end Stun.Bits
