import Stun.Proofs.ClientSteps
namespace Stun.ClientProofs
open Stun Stun.Client
set_option maxHeartbeats 800000

theorem startsOf_cons (op : COp) (r : List COp) : startsOf (op :: r) = startsOf [op] ++ startsOf r := by
  cases op with
  | start id raw h => cases h <;> simp [startsOf]
  | _ => simp [startsOf]

def totalCalls (h : Nat) (tr : List (COp × Option CErr × List COut)) : Nat := calls h (allOuts tr)
def startCount (h : Nat) (ops : List COp) : Nat := ((startsOf ops).filter (fun x => x.1 == h)).length

theorem allOuts_cons (x : COp × Option CErr × List COut) (tr) : allOuts (x :: tr) = x.2.2 ++ allOuts tr := by
  simp [allOuts]

/-- the history theorem: for every sequence of operations from any consistent state -/
theorem run_spec (ops : List COp) : ∀ (S) (c : Client), TInv c → FromStarts S c →
    TInv (run c ops).1 ∧ FromStarts (startsOf ops ++ S) (run c ops).1 ∧
    (∀ h id e, COut.call h id e ∈ allOuts (run c ops).2 → ∃ raw, (h, id, raw) ∈ startsOf ops ++ S) ∧
    (∀ raw h, COut.write raw (some h) ∈ allOuts (run c ops).2 → ∃ id, (h, id, raw) ∈ startsOf ops ++ S) ∧
    (∀ h, totalCalls h (run c ops).2 + pend h (run c ops).1 ≤ pend h c + startCount h ops) := by
  induction ops with
  | nil =>
    intro S c hi hf
    exact ⟨hi, hf, by simp [run, allOuts], by simp [run, allOuts], fun h => by simp [run, totalCalls, allOuts, calls, startCount, startsOf]⟩
  | cons op r ih =>
    intro S c hi hf
    obtain ⟨s1, s2, s3, s4, s5⟩ := step_spec S c hi hf op
    obtain ⟨r1, r2, r3, r4, r5⟩ := ih (startsOf [op] ++ S) (c.step op).1 s1 s2
    have hS : ∀ x, x ∈ startsOf r ++ (startsOf [op] ++ S) ↔ x ∈ startsOf (op :: r) ++ S := by
      intro x; rw [startsOf_cons op r]; simp only [List.mem_append]
      constructor
      · rintro (h | h | h)
        · exact Or.inl (Or.inr h)
        · exact Or.inl (Or.inl h)
        · exact Or.inr h
      · rintro ((h | h) | h)
        · exact Or.inr (Or.inl h)
        · exact Or.inl h
        · exact Or.inr (Or.inr h)
    simp only [run]
    refine ⟨r1, fun p hp => (hS _).mp (r2 p hp), ?_, ?_, ?_⟩
    · intro h id e hm
      rw [allOuts_cons] at hm
      rcases List.mem_append.mp hm with hm | hm
      · obtain ⟨raw, hr⟩ := s3 h id e hm
        exact ⟨raw, (hS _).mp (List.mem_append_right _ hr)⟩
      · obtain ⟨raw, hr⟩ := r3 h id e hm; exact ⟨raw, (hS _).mp hr⟩
    · intro raw h hm
      rw [allOuts_cons] at hm
      rcases List.mem_append.mp hm with hm | hm
      · obtain ⟨id, hr⟩ := s4 raw h hm
        exact ⟨id, (hS _).mp (List.mem_append_right _ hr)⟩
      · obtain ⟨id, hr⟩ := r4 raw h hm; exact ⟨id, (hS _).mp hr⟩
    · intro h
      have e1 := s5 h; have e2 := r5 h
      unfold totalCalls at *
      rw [allOuts_cons, calls_append]
      have e3 : startCount h (op :: r) = ((startsOf [op]).filter (fun x => x.1 == h)).length + startCount h r := by
        unfold startCount; rw [startsOf_cons op r, List.filter_append, List.length_append]
      simp only at e1 e2 ⊢
      omega

theorem inv_init : TInv ({} : Client) := ⟨by simp, by simp [ckeys]⟩

/-- a step that is not a `Start` with handler `h` keeps (invocations of h) + (h pending) constant -/
theorem step_eq (S) (c : Client) (hi : TInv c) (hf : FromStarts S c) (op : COp) (h : Nat)
    (hno : ((startsOf [op]).filter (fun x => x.1 == h)).length = 0) :
    calls h (c.step op).2.2 + pend h (c.step op).1 = pend h c := by
  cases op with
  | start id raw handler =>
    cases handler with
    | some h0 =>
      have hne : h ≠ h0 := by
        intro e; subst e; simp [startsOf] at hno
      obtain ⟨_, _, a3, _, _, _, _, _, a9⟩ := start_spec S c hi hf id raw h0
      simp only [Client.step]; rw [a3 h, a9 h hne]; omega
    | none =>
      have ht : (c.start id raw none).1.t = c.t ∧ ∀ x ∈ (c.start id raw none).2.2, x = COut.write raw none := by
        unfold Client.start
        by_cases hc : c.closed = true
        · rw [if_pos hc]; exact ⟨rfl, by simp⟩
        · rw [if_neg hc]; exact ⟨connWrite_t c raw, by simp⟩
      obtain ⟨t1, t2⟩ := ht
      have : calls h (c.start id raw none).2.2 = 0 := by
        unfold calls; rw [List.length_eq_zero_iff, List.filter_eq_nil_iff]
        intro x hx; rw [t2 x hx]; simp
      simp only [Client.step]; rw [this, pend_congr c _ t1]; omega
  | deliver d => simp only [Client.step]; exact (deliver_spec S c hi hf d).2.2.1 h
  | tick t => simp only [Client.step]; exact (tick_spec S c hi hf t).2.2.1 h
  | clock t => simp [Client.step, calls, pend]
  | failWrite id => simp [Client.step, calls, pend]
  | setRTO r => simp [Client.step, calls, pend, Client.setRTO]
  | close =>
    by_cases hc : c.closed = true
    · simp only [Client.step, (close_spec c).1 hc]; simp [calls]
    · have hcf : c.closed = false := by simpa using hc
      have cs := callbacks_spec S (((c.agent.close).2.2).map (fun e => (e.id, CEv.agentClosed)))
        { c with closed := true, agent := (c.agent.close).1 } (tinv_congr c _ rfl hi) (fun p hp => hf p hp)
      have hp : pend h ({ c with closed := true, agent := (c.agent.close).1 } : Client) = pend h c := rfl
      have e1 := cs.count h
      simp only [Client.step]
      unfold Client.close
      simp only [hcf, Bool.false_eq_true, if_false]
      generalize (({ c with closed := true, agent := (c.agent.close).1 } : Client).callbacks
        (((c.agent.close).2.2).map (fun e => (e.id, CEv.agentClosed)))) = r at *
      split
      · rw [calls_append]
        have : calls h [COut.connClose] = 0 := by simp [calls]
        rw [this]; omega
      · omega

/-- histories without a `Start` that uses handler `h`: (invocations of h) + (h pending) is conserved exactly -/
theorem run_eq (ops : List COp) (h : Nat) (hno : startCount h ops = 0) : ∀ (S) (c : Client), TInv c → FromStarts S c →
    totalCalls h (run c ops).2 + pend h (run c ops).1 = pend h c := by
  induction ops with
  | nil => intro S c _ _; simp [run, totalCalls, allOuts, calls]
  | cons op r ih =>
    intro S c hi hf
    have e3 : startCount h (op :: r) = ((startsOf [op]).filter (fun x => x.1 == h)).length + startCount h r := by
      unfold startCount; rw [startsOf_cons op r, List.filter_append, List.length_append]
    obtain ⟨s1, s2, _⟩ := step_spec S c hi hf op
    have e1 := step_eq S c hi hf op h (by omega)
    have e2 := ih (by omega) _ _ s1 s2
    simp only [run]
    unfold totalCalls at *
    rw [allOuts_cons, calls_append]
    simp only at e1 e2 ⊢
    omega

end Stun.ClientProofs
