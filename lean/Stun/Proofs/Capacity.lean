/-
  Capacity lemmas (C20): an operation whose result fits the capacity the message already has never moves `Raw`.
-/
import Stun.Proofs.Canonical
namespace Stun.BuildProofs
open Stun Stun.Msg Stun.Spec

theorem grow_cap_same (m : Msg) (n : Nat) (h : n ≤ m.mem.length) : (m.grow n).mem.length = m.mem.length := by
  unfold Msg.grow
  by_cases h1 : m.len ≥ n
  · simp [h1]
  · have h2 : m.mem.length ≥ n := h
    simp [h1, h2]

theorem grow_cap_ge (m : Msg) (n : Nat) (hcap : m.len ≤ m.mem.length) : m.mem.length ≤ (m.grow n).mem.length := by
  unfold Msg.grow
  by_cases h1 : m.len ≥ n
  · simp [h1]
  · by_cases h2 : m.mem.length ≥ n
    · simp [h1, h2]
    · simp only [h1, h2, if_false, List.length_append, List.length_take, zeros, List.length_replicate]; omega

theorem addHead_cap (m : Msg) (t : Nat) (v : Bytes) (_h2 : m.len ≤ m.mem.length)
    (hroom : 20 + m.length + (4 + v.length) ≤ m.mem.length) :
    (m.addHead t v).mem.length = m.mem.length := by
  have hg := grow_cap_same m (20 + m.length + (4 + v.length)) hroom
  simp only [Msg.addHead, attributeHeaderSize, messageHeaderSize]
  generalize m.grow (20 + m.length + (4 + v.length)) = g at hg
  have l1 : (writeAt g.mem (20 + m.length) (put16 t)).length = g.mem.length :=
    writeAt_length _ _ _ (by simp [put16_len]; omega)
  have l2 : (writeAt (writeAt g.mem (20 + m.length) (put16 t)) (20 + m.length + 2) (put16 (v.length % 65536))).length
      = g.mem.length := by
    rw [writeAt_length _ _ _ (by rw [l1]; simp [put16_len]; omega), l1]
  rw [writeAt_length _ _ _ (by rw [l2]; omega), l2, hg]

theorem addPad_cap (m : Msg) (v : Bytes) (last : Nat)
    (hroom : last + (nearestPaddedValueLength v.length - v.length) ≤ m.mem.length) :
    (m.addPad v last).mem.length = m.mem.length := by
  have hg := grow_cap_same m (last + (nearestPaddedValueLength v.length - v.length)) hroom
  simp only [Msg.addPad]
  generalize m.grow (last + (nearestPaddedValueLength v.length - v.length)) = g at hg
  have zl : (zeros (nearestPaddedValueLength v.length - v.length)).length = nearestPaddedValueLength v.length - v.length := by
    simp [zeros]
  rw [writeAt_length _ _ _ (by rw [zl]; omega), hg]

/-- `Add` into a message that has room for the padded TLV keeps the backing array -/
theorem add_cap (m : Msg) (t : Nat) (v : Bytes) (h1 : 20 + m.length ≤ m.len) (h2 : m.len ≤ m.mem.length)
    (hroom : 20 + m.length + 4 + v.length + (4 - v.length % 4) % 4 ≤ m.mem.length) :
    (m.add t v).mem.length = m.mem.length := by
  have hh := addHead_cap m t v h2 (by omega)
  obtain ⟨b1, b2, _⟩ := addHead_spec m t v h1 h2
  have hpad := npvl_sub v.length
  by_cases hp : (v.length % 65536) % padding ≠ 0
  · have hm' : m.add t v = ({ (m.addHead t v).addPad v (20 + m.length + (4 + v.length)) with
        attrs := ((m.addHead t v).addPad v (20 + m.length + (4 + v.length))).attrs ++ [(⟨t, v.length % 65536, v⟩ : RawAttr)] }).writeLength := by
      simp only [Msg.add, messageHeaderSize, attributeHeaderSize]; rw [if_pos hp]
    have hpc := addPad_cap (m.addHead t v) v (20 + m.length + (4 + v.length)) (by rw [hh, hpad]; omega)
    obtain ⟨c1, c2, _⟩ := addPad_spec (m.addHead t v) v (20 + m.length + (4 + v.length)) b1 b2
    rw [hm']
    generalize hq : (m.addHead t v).addPad v (20 + m.length + (4 + v.length)) = q at *
    have := (writeLength_spec { q with attrs := q.attrs ++ [(⟨t, v.length % 65536, v⟩ : RawAttr)] }
      (by simp only; omega) (by simp only; omega)).2.2.1
    rw [this]; simp only; rw [hpc, hh]
  · have hm' : m.add t v = ({ m.addHead t v with attrs := (m.addHead t v).attrs ++ [(⟨t, v.length % 65536, v⟩ : RawAttr)] }).writeLength := by
      simp only [Msg.add, messageHeaderSize, attributeHeaderSize]; rw [if_neg hp]
    rw [hm']
    generalize hq : m.addHead t v = q at *
    have := (writeLength_spec { q with attrs := q.attrs ++ [(⟨t, v.length % 65536, v⟩ : RawAttr)] }
      (by simp only; omega) (by simp only; omega)).2.2.1
    rw [this]; simp only; exact hh

theorem bumped_cap (m : Msg) (k : Nat) (h : Canonical m) :
    (({ m with length := w32 (m.length + k) } : Msg).writeLength).mem.length = m.mem.length := by
  have hlen := h.rawLen
  exact (writeLength_spec { m with length := w32 (m.length + k) } (by simp only; omega) h.cap).2.2.1

/-- one setter: the visible length never shrinks, and if the result still fits the capacity the message had,
    `Raw` stays in the same backing array -/
theorem setter_cap (mac : Bytes → Bytes → Bytes) (hmac : ∀ k x, (mac k x).length = 20)
    (s : Setter) (m : Msg) (h : Canonical m) (hf : SetterFits s m) :
    m.len ≤ (s.addTo mac m).1.len ∧
    ((s.addTo mac m).1.len ≤ m.mem.length → (s.addTo mac m).1.mem.length = m.mem.length) := by
  have hlen := h.rawLen
  have hcap := h.cap
  -- the generic case: the setter is `Add t v` or fails leaving the message as it was
  have gen : ∀ (s : Setter), (match s with | .msgType _ _ | .tid _ | .integrity _ | .fingerprint => False | _ => True) →
      SetterFits s m →
      m.len ≤ (s.addTo mac m).1.len ∧
      ((s.addTo mac m).1.len ≤ m.mem.length → (s.addTo mac m).1.mem.length = m.mem.length) := by
    intro s hs hf
    have a1 := setter_adds mac s m hs
    cases ha : Setter.adds s m with
    | none =>
      rw [ha] at a1; obtain ⟨e, he⟩ := a1
      rw [he]; exact ⟨Nat.le_refl _, fun _ => rfl⟩
    | some tv =>
      obtain ⟨t, v⟩ := tv
      rw [ha] at a1
      rw [a1]
      have fit : m.length + 4 + v.length + 3 < 4294967296 := by
        have : SetterFits s m := hf
        cases s <;> simp_all [SetterFits] <;> omega
      obtain ⟨_, r2, _⟩ := add_spec m t v (by omega) hcap fit
      simp only at r2 ⊢
      refine ⟨by rw [r2]; omega, fun hfits => add_cap m t v (by omega) hcap (by rw [r2] at hfits; omega)⟩
  cases s with
  | msgType me c =>
    simp only [Setter.addTo, Msg.setType, Msg.writeType]
    rw [grow_noop _ 2 (by simp only; omega)]
    simp only
    refine ⟨Nat.le_refl _, fun _ => writeAt_length _ _ _ (by simp [put16_len]; omega)⟩
  | tid id =>
    simp only [Setter.addTo, Msg.writeTransactionID]
    have hid : id.length = 12 := hf
    refine ⟨Nat.le_refl _, fun _ => writeAt_length _ _ _ (by rw [hid]; omega)⟩
  | integrity key =>
    simp only [Setter.addTo]
    by_cases hfp : m.attrs.any (fun a => a.typ == attrFingerprint) = true
    · simp only [integrityAddTo, hfp, if_true]; exact ⟨Nat.le_refl _, fun _ => trivial⟩
    · have hfp1 : m.attrs.any (fun a => a.typ == attrFingerprint) = false := by simpa using hfp
      have hfit : m.length + 24 < 65536 := hf
      obtain ⟨c1, c2, c3, c4, c5, c6, c7⟩ := canonicalL_bumped m 24 h hfit
      have cc := bumped_cap m 24 h
      unfold integrityAddTo
      simp only [hfp1, Bool.false_eq_true, if_false, messageIntegritySize, attributeHeaderSize]
      have e24 : m.length + 20 + 4 = m.length + 24 := by omega
      rw [e24]
      generalize hm1 : ({ m with length := w32 (m.length + 24) } : Msg).writeLength = m1 at *
      obtain ⟨s1, s2, s3, s4, s5, s6, s7, s8⟩ := sumIntoSpare_spec m1 (mac key m1.raw) c3
      have hvl : (mac key m1.raw).length = 20 := hmac _ _
      generalize mac key m1.raw = v at *
      generalize hm2 : m1.sumIntoSpare v = m2 at *
      obtain ⟨_, r2, _⟩ := add_spec { m2 with length := m.length } attrMessageIntegrity v
        (by simp only; rw [s2, c2]; omega) (by simp only; rw [s2, s3]; exact c3) (by simp only; rw [hvl]; omega)
      simp only at r2 ⊢
      refine ⟨by rw [r2]; omega, fun hfits => ?_⟩
      rw [add_cap { m2 with length := m.length } attrMessageIntegrity v
        (by simp only; rw [s2, c2]; omega) (by simp only; rw [s2, s3]; exact c3)
        (by simp only; rw [s3, cc]; rw [r2] at hfits; omega)]
      simp only; rw [s3, cc]
  | fingerprint =>
    simp only [Setter.addTo]
    have hfit : m.length + 8 < 65536 := hf
    obtain ⟨c1, c2, c3, c4, c5, c6, c7⟩ := canonicalL_bumped m 8 h hfit
    have cc := bumped_cap m 8 h
    unfold fingerprintAddTo
    simp only [fingerprintSize, attributeHeaderSize]
    have e8 : m.length + 4 + 4 = m.length + 8 := by omega
    rw [e8]
    generalize hm1 : ({ m with length := w32 (m.length + 8) } : Msg).writeLength = m1 at *
    generalize fingerprintValue m1.raw = val
    have hvl : (put32 val).length = 4 := rfl
    obtain ⟨_, r2, _⟩ := add_spec { m1 with length := m.length } attrFingerprint (put32 val)
      (by simp only; rw [c2]; omega) c3 (by simp only; rw [hvl]; omega)
    simp only at r2 ⊢
    refine ⟨by rw [r2]; omega, fun hfits => ?_⟩
    rw [add_cap { m1 with length := m.length } attrFingerprint (put32 val)
      (by simp only; rw [c2]; omega) c3 (by simp only; rw [cc]; rw [r2] at hfits; omega)]
    simp only; exact cc
  | raw t v => exact gen _ trivial hf
  | text k v => exact gen _ trivial hf
  | xorAddr a ip p => exact gen _ trivial hf
  | mapAddr a ip p => exact gen _ trivial hf
  | errorCode c r => exact gen _ trivial hf
  | errorCodeDefault c => exact gen _ trivial hf
  | unknownAttrs ts => exact gen _ trivial hf

/-- `Reset` + `WriteHeader` in a message whose capacity holds a header keeps the backing array -/
theorem start_cap (m : Msg) (h20 : 20 ≤ m.mem.length) (htid : m.tid.length = 12) :
    (m.reset.writeHeader).mem.length = m.mem.length := by
  have hr : m.reset.mem.length = m.mem.length := rfl
  have hrt : m.reset.tid = m.tid := rfl
  have g := grow_cap_same m.reset 20 (by rw [hr]; exact h20)
  obtain ⟨gl, _, _, _, _, _, _, gt⟩ := grow_spec m.reset 20 (by simp [Msg.reset]) (by simp [Msg.reset])
  unfold Msg.writeHeader Msg.writeType Msg.writeLength
  simp only [messageHeaderSize]
  generalize m.reset.grow 20 = g0 at *
  rw [grow_noop g0 2 (by omega)]
  rw [grow_noop _ 4 (by simp only; omega)]
  have l1 : (writeAt g0.mem 0 (put16 (typeValue g0.method g0.cls))).length = g0.mem.length :=
    writeAt_length _ _ _ (by simp [put16_len]; omega)
  have l2 : (writeAt (writeAt g0.mem 0 (put16 (typeValue g0.method g0.cls))) 2 (put16 g0.length)).length = g0.mem.length := by
    rw [writeAt_length _ _ _ (by rw [l1]; simp [put16_len]; omega), l1]
  have l3 : (writeAt (writeAt (writeAt g0.mem 0 (put16 (typeValue g0.method g0.cls))) 2 (put16 g0.length)) 4
      (put32 magicCookie)).length = g0.mem.length := by
    rw [writeAt_length _ _ _ (by rw [l2]; simp [put32_len]; omega), l2]
  rw [writeAt_length _ _ _ (by rw [l3, gt, hrt, htid]; omega), l3, g, hr]

/-- the setter loop of `Build`: the visible length never shrinks, and when the final message fits the capacity the
    message had at the start, no step moved `Raw` -/
theorem applySetters_cap (mac : Bytes → Bytes → Bytes) (hmac : ∀ k x, (mac k x).length = 20)
    (ss : List Setter) (m : Msg) (h : Canonical m) (hf : AllFit mac ss m) :
    m.len ≤ (applySetters mac ss m).1.len ∧
    ((applySetters mac ss m).1.len ≤ m.mem.length → (applySetters mac ss m).1.mem.length = m.mem.length) := by
  induction ss generalizing m with
  | nil => exact ⟨Nat.le_refl _, fun _ => rfl⟩
  | cons s r ih =>
    simp only [applySetters]
    have hc := setter_canonical mac hmac s m h hf.1
    obtain ⟨k1, k2⟩ := setter_cap mac hmac s m h hf.1
    cases hr : s.addTo mac m with
    | mk m' e =>
      rw [hr] at hc k1 k2
      cases e with
      | some e => exact ⟨k1, k2⟩
      | none =>
        have hfr := hf.2 (by rw [hr])
        rw [hr] at hfr
        obtain ⟨i1, i2⟩ := ih m' hc hfr
        simp only at k1 k2 ⊢
        refine ⟨by omega, fun hfits => ?_⟩
        have hm' : m'.mem.length = m.mem.length := k2 (by omega)
        rw [i2 (by rw [hm']; exact hfits), hm']

/-- `Build`: if the message that results fits the capacity the object already had (it "has been used for a message
    at least as large"), `Raw` is never moved, whatever the object held before and whatever the setters are -/
theorem build_cap (mac : Bytes → Bytes → Bytes) (hmac : ∀ k x, (mac k x).length = 20)
    (m : Msg) (ss : List Setter) (hcap : m.len ≤ m.mem.length) (htid : m.tid.length = 12)
    (hf : AllFit mac ss m.reset.writeHeader) (h20 : 20 ≤ m.mem.length)
    (hfits : (build mac m ss).1.len ≤ m.mem.length) : (build mac m ss).1.mem.length = m.mem.length := by
  unfold build at hfits ⊢
  have hs := start_cap m h20 htid
  obtain ⟨_, k2⟩ := applySetters_cap mac hmac ss _ (canonical_start m hcap htid) hf
  rw [k2 (by rw [hs]; exact hfits), hs]

end Stun.BuildProofs
