import Stun.Model.Client
import Stun.Properties.C13
namespace Stun.ClientProofs
open Stun Stun.Client
set_option maxHeartbeats 400000

def akeys (a : Agent) : List TID := a.table.map (·.1)
def ckeys (c : Client) : List TID := c.t.map (·.1)

theorem has_iff (a : Agent) (id : TID) : a.has id = true ↔ id ∈ akeys a := by
  simp only [Agent.has, akeys, List.any_eq_true, List.mem_map]
  constructor
  · rintro ⟨p, hp, h⟩; exact ⟨p, hp, by simpa using h⟩
  · rintro ⟨p, hp, h⟩; exact ⟨p, hp, by simpa using h⟩

theorem lookup_iff (c : Client) (id : TID) : (c.lookup id).isSome = true ↔ id ∈ ckeys c := by
  simp only [Client.lookup, ckeys, Option.isSome_map, List.find?_isSome, List.mem_map]
  constructor
  · rintro ⟨p, hp, h⟩; exact ⟨p, hp, by simpa using h⟩
  · rintro ⟨p, hp, h⟩; exact ⟨p, hp, by simpa using h⟩

theorem lookup_none_iff (c : Client) (id : TID) : c.lookup id = none ↔ id ∉ ckeys c := by
  rw [← lookup_iff]; cases c.lookup id <;> simp

theorem akeys_del (a : Agent) (id id' : TID) : id' ∈ akeys (a.del id) ↔ id' ∈ akeys a ∧ id' ≠ id := by
  simp only [akeys, Agent.del, List.mem_map, List.mem_filter]
  constructor
  · rintro ⟨p, ⟨hp, hne⟩, rfl⟩; exact ⟨⟨p, hp, rfl⟩, by simpa using hne⟩
  · rintro ⟨⟨p, hp, rfl⟩, hne⟩; exact ⟨p, ⟨hp, by simpa using hne⟩, rfl⟩

theorem ckeys_erase (c : Client) (id id' : TID) : id' ∈ ckeys (c.erase id) ↔ id' ∈ ckeys c ∧ id' ≠ id := by
  simp only [ckeys, Client.erase, List.mem_map, List.mem_filter]
  constructor
  · rintro ⟨p, ⟨hp, hne⟩, rfl⟩; exact ⟨⟨p, hp, rfl⟩, by simpa using hne⟩
  · rintro ⟨⟨p, hp, rfl⟩, hne⟩; exact ⟨p, ⟨hp, by simpa using hne⟩, rfl⟩

theorem ckeys_insert (c : Client) (tx : Txn) (id' : TID) : id' ∈ ckeys (c.insert tx) ↔ id' ∈ ckeys c ∨ id' = tx.id := by
  simp [ckeys, Client.insert, eq_comm]

/-- the found entry is in the table -/
theorem lookup_mem (c : Client) (id : TID) (tx : Txn) (h : c.lookup id = some tx) : ∃ k, (k, tx) ∈ c.t ∧ k = id := by
  simp only [Client.lookup, Option.map_eq_some_iff] at h
  obtain ⟨p, hp, rfl⟩ := h
  have := List.find?_some hp
  exact ⟨p.1, List.mem_of_find?_eq_some hp, by simpa using this⟩

/-! ### table invariant -/

structure TInv (c : Client) : Prop where
  keyId : ∀ p ∈ c.t, p.1 = p.2.id
  nodup : (ckeys c).Nodup

theorem tinv_erase (c : Client) (id : TID) (h : TInv c) : TInv (c.erase id) := by
  refine ⟨fun p hp => h.keyId p (List.mem_filter.mp hp).1, ?_⟩
  have := h.nodup
  unfold ckeys Client.erase at *
  exact C13.nodup_filter' _ _ this

theorem tinv_insert (c : Client) (tx : Txn) (h : TInv c) (hk : tx.id ∉ ckeys c) : TInv (c.insert tx) := by
  refine ⟨?_, ?_⟩
  · intro p hp
    simp only [Client.insert, List.mem_append, List.mem_singleton] at hp
    rcases hp with hp | rfl
    · exact h.keyId p hp
    · rfl
  · unfold ckeys Client.insert
    simp only [List.map_append, List.map_cons, List.map_nil]
    rw [List.nodup_append]
    refine ⟨h.nodup, by simp, ?_⟩
    intro a ha b hb
    simp only [List.mem_singleton] at hb; subst hb
    intro hab; subst hab; exact hk ha

/-- handlers pending in the table -/
def pend (h : Nat) (c : Client) : Nat := (c.t.filter (fun p => p.2.h == h)).length
def calls (h : Nat) (outs : List COut) : Nat :=
  (outs.filter (fun o => match o with | .call h' _ _ => h' == h | _ => false)).length

theorem calls_append (h : Nat) (a b : List COut) : calls h (a ++ b) = calls h a + calls h b := by
  simp [calls, List.filter_append]

theorem pend_withAgent (h : Nat) (c : Client) (a : Agent) : pend h { c with agent := a } = pend h c := rfl

/-- the table splits around the entry found under `id`; no other entry has that key -/
theorem lookup_split (c : Client) (hi : TInv c) (id : TID) (tx : Txn) (hl : c.lookup id = some tx) :
    ∃ l1 l2, c.t = l1 ++ (id, tx) :: l2 ∧ (∀ q ∈ l1, q.1 ≠ id) ∧ (∀ q ∈ l2, q.1 ≠ id) := by
  simp only [Client.lookup, Option.map_eq_some_iff] at hl
  obtain ⟨p, hp, rfl⟩ := hl
  obtain ⟨hpid, l1, l2, hsplit, hl1⟩ := List.find?_eq_some_iff_append.mp hp
  have hk : p.1 = id := by simpa using hpid
  have hnd := hi.nodup
  unfold ckeys at hnd
  rw [hsplit, List.map_append, List.map_cons, List.nodup_append] at hnd
  obtain ⟨_, h2, h3⟩ := hnd
  simp only [List.nodup_cons] at h2
  refine ⟨l1, l2, by rw [hsplit]; congr 2; exact Prod.ext hk rfl, ?_, ?_⟩
  · intro q hq; have := hl1 q hq; simpa using this
  · intro q hq e
    exact h2.1 (List.mem_map.mpr ⟨q, hq, by rw [e, hk]⟩)

/-- erasing the entry found under `id` removes exactly that one pending handler -/
theorem pend_erase (c : Client) (hi : TInv c) (id : TID) (tx : Txn) (hl : c.lookup id = some tx) (h : Nat) :
    pend h (c.erase id) + (if tx.h == h then 1 else 0) = pend h c := by
  obtain ⟨l1, l2, hs, h1, h2⟩ := lookup_split c hi id tx hl
  have e1 : l1.filter (fun p => p.1 != id) = l1 := by
    rw [List.filter_eq_self]; intro q hq; simpa using h1 q hq
  have e2 : l2.filter (fun p => p.1 != id) = l2 := by
    rw [List.filter_eq_self]; intro q hq; simpa using h2 q hq
  have et : (c.erase id).t = l1 ++ l2 := by
    show c.t.filter (fun p => p.1 != id) = _
    rw [hs, List.filter_append, List.filter_cons, e1, e2]; simp
  unfold pend
  rw [et, hs]
  simp only [List.filter_append, List.length_append, List.filter_cons]
  by_cases hh : (tx.h == h) = true
  · simp only [hh, if_true, List.length_cons]; omega
  · simp only [hh, Bool.false_eq_true, if_false]; omega

theorem pend_insert (c : Client) (tx : Txn) (h : Nat) :
    pend h (c.insert tx) = pend h c + (if tx.h == h then 1 else 0) := by
  simp only [pend, Client.insert, List.filter_append, List.length_append, List.filter_cons, List.filter_nil]
  by_cases hh : tx.h == h <;> simp [hh]

theorem pend_erase_absent (c : Client) (id : TID) (hk : id ∉ ckeys c) (h : Nat) : pend h (c.erase id) = pend h c := by
  have : (c.erase id).t = c.t := by
    show c.t.filter (fun p => p.1 != id) = c.t
    rw [List.filter_eq_self]
    intro p hp
    have : p.1 ≠ id := fun e => hk (List.mem_map.mpr ⟨p, hp, e⟩)
    simpa using this
  unfold pend; rw [this]

end Stun.ClientProofs
