/-
  L2 accounting (C10): the L1 induction "handler invocations + pending table entries = Starts" redone over states with
  suspended calls (a retransmission inside ClientAgent.Start or Connection.Write, a Start inside its first Write).
  Every suspended call carries the transaction it registered (`SuspOK`); its second half finishes that transaction only
  if it is still the one registered under its id; hence `run2_spec`: for every L2 history, invocations + table
  entries ≤ Starts, and every invocation is justified by a Start of the history.
-/
import Stun.Model.ClientL2
import Stun.Proofs.ClientHistory
namespace Stun.ClientProofs
open Stun Stun.Client
set_option maxHeartbeats 800000

/-! ### L2 accounting: every suspended call carries the transaction it re-registered -/

structure SuspOK (S : List (Nat × TID × Bytes)) (s : Susp) : Prop where
  h_eq : s.h = s.tx.h
  id_eq : s.tx.id = s.id
  prov : (s.tx.h, s.tx.id, s.tx.raw) ∈ S

structure Inv2 (S : List (Nat × TID × Bytes)) (k : Client2) : Prop where
  inv : TInv k.c
  from_ : FromStarts S k.c
  susp : ∀ s ∈ k.susp, SuspOK S s

/-- what a piece of the L2 client may do: invariant kept, handler invocations balanced against table entries, every
    invocation justified by a `Start` -/
structure Acct (S : List (Nat × TID × Bytes)) (k : Client2) (r : Client2 × List COut) : Prop where
  inv2 : Inv2 S r.1
  count : ∀ h, calls h r.2 + pend h r.1.c = pend h k.c
  call : ∀ h id e, COut.call h id e ∈ r.2 → ∃ raw, (h, id, raw) ∈ S

theorem lookup_congr (c c' : Client) (h : c'.t = c.t) (id : TID) : c'.lookup id = c.lookup id := by
  unfold Client.lookup; rw [h]

theorem fromStarts_congr (S) (c c' : Client) (h : c'.t = c.t) (hf : FromStarts S c) : FromStarts S c' := by
  unfold FromStarts; rw [h]; exact hf

theorem acct_of_cb (S) (k : Client2) (hk : Inv2 S k) (r : Client × List COut) (h : CbSpec S k.c r) :
    Acct S k (k.lift r) :=
  ⟨⟨h.inv, h.from_, hk.susp⟩, h.count, h.outs.call⟩

/-- facts about a found entry -/
theorem found_facts (S) (c : Client) (hi : TInv c) (hf : FromStarts S c) (id : TID) (tx : Txn)
    (hl : c.lookup id = some tx) : tx.id = id ∧ (tx.h, tx.id, tx.raw) ∈ S := by
  obtain ⟨k, hmem, hk⟩ := lookup_mem c id tx hl
  have htxid : tx.id = id := by have := hi.keyId _ hmem; simp only at this; rw [← this, hk]
  exact ⟨htxid, hf _ hmem⟩

/-- completing the found entry: erase it and invoke its handler -/
theorem finish_facts (S) (c : Client) (hi : TInv c) (hf : FromStarts S c) (id : TID) (tx : Txn)
    (hl : c.lookup id = some tx) (e : CEv) :
    TInv (c.erase id) ∧ FromStarts S (c.erase id) ∧
    (∀ h, calls h [COut.call tx.h id e] + pend h (c.erase id) = pend h c) ∧
    (∀ h id' e', COut.call h id' e' ∈ [COut.call tx.h id e] → ∃ raw, (h, id', raw) ∈ S) := by
  obtain ⟨htxid, hS⟩ := found_facts S c hi hf id tx hl
  refine ⟨tinv_erase c id hi, fromStarts_erase S c id hf, ?_, ?_⟩
  · intro h; rw [calls_single_call]; have := pend_erase c hi id tx hl h; omega
  · intro h id' e' hm
    simp only [List.mem_singleton, COut.call.injEq] at hm
    exact ⟨tx.raw, by rw [hm.1, hm.2.1, ← htxid]; exact hS⟩

/-- taking the found entry out and registering it again with the attempt advanced -/
theorem reinsert_facts (S) (c : Client) (hi : TInv c) (hf : FromStarts S c) (id : TID) (tx : Txn)
    (hl : c.lookup id = some tx) :
    TInv ((c.erase id).insert { tx with attempt := tx.attempt + 1 }) ∧
    FromStarts S ((c.erase id).insert { tx with attempt := tx.attempt + 1 }) ∧
    (∀ h, pend h ((c.erase id).insert { tx with attempt := tx.attempt + 1 }) = pend h c) ∧
    ((c.erase id).insert { tx with attempt := tx.attempt + 1 }).lookup id = some { tx with attempt := tx.attempt + 1 } := by
  obtain ⟨htxid, hS⟩ := found_facts S c hi hf id tx hl
  have hk' : ({ tx with attempt := tx.attempt + 1 } : Txn).id ∉ ckeys (c.erase id) := by
    show tx.id ∉ _; rw [htxid, ckeys_erase]; simp
  refine ⟨tinv_insert _ _ (tinv_erase c id hi) hk', ?_, ?_, ?_⟩
  · intro p hp
    simp only [Client.insert, List.mem_append, List.mem_singleton] at hp
    rcases hp with hp | rfl
    · exact fromStarts_erase S c id hf p hp
    · exact hS
  · intro h
    rw [pend_insert]; have := pend_erase c hi id tx hl h; simp only; omega
  · have := lookup_insert_self (c.erase id) { tx with attempt := tx.attempt + 1 } hk'
    simpa [htxid] using this


theorem lift_c (k : Client2) (r : Client × List COut) : (k.lift r).1.c = r.1 := rfl
theorem lift_susp (k : Client2) (r : Client × List COut) : (k.lift r).1.susp = k.susp := rfl

/-- `handleAgentCallback` on a connection / agent that may block -/
theorem callback2_acct (S) (k : Client2) (hk : Inv2 S k) (id : TID) (e : CEv) :
    Acct S k ((k.callback id e).1, (k.callback id e).2.1) := by
  have hcb := acct_of_cb S k hk _ (callback_spec S k.c hk.inv hk.from_ id e)
  unfold Client2.callback
  simp only
  cases hl : k.c.lookup id with
  | none => exact hcb
  | some tx =>
    simp only
    obtain ⟨htxid, hS⟩ := found_facts S k.c hk.inv hk.from_ id tx hl
    obtain ⟨r1, r2, r3, r4⟩ := reinsert_facts S k.c hk.inv hk.from_ id tx hl
    by_cases hdone : (k.c.closed || decide (k.c.maxAttempts ≤ tx.attempt) || e.isMsg) = true
    · simp only [hdone, if_true]; exact hcb
    · simp only [hdone, Bool.false_eq_true, if_false]
      by_cases hba : k.blockAgentIds.contains id = true
      · -- suspended at ClientAgent.Start
        simp only [hba, if_true]
        refine ⟨⟨r1, r2, ?_⟩, ?_, by simp⟩
        · intro s hs
          simp only [Client.retransmitPre, List.mem_append, List.mem_singleton] at hs
          rcases hs with hs | rfl
          · exact hk.susp s hs
          · exact ⟨rfl, htxid, hS⟩
        · intro h; simp only [calls, List.filter_nil, List.length_nil, Nat.zero_add]; exact r3 h
      · simp only [hba, Bool.false_eq_true, if_false]
        by_cases hbw : k.blockIds.contains id = true
        · -- the write may block
          simp only [hbw, if_true]
          unfold Client.retransmitBegin
          simp only
          cases hr : (((k.c.erase id).insert { tx with attempt := tx.attempt + 1 }).agent.start id
              (nextTimeout { tx with attempt := tx.attempt + 1 }
                ((k.c.erase id).insert { tx with attempt := tx.attempt + 1 }).now)).2 with
          | some err =>
            simp only
            obtain ⟨f1, f2, f3, f4⟩ := finish_facts S _ r1 r2 id _ r4
              (if err == .closed then CEv.agentClosed else CEv.exists)
            refine ⟨⟨f1, f2, hk.susp⟩, ?_, ?_⟩
            · intro h; have := f3 h; have := r3 h; simp only at *; omega
            · exact f4
          | none =>
            simp only
            refine ⟨⟨⟨r1.keyId, r1.nodup⟩, fun p hp => r2 p hp, ?_⟩, ?_, by simp⟩
            · intro s hs
              simp only [List.mem_append, List.mem_singleton] at hs
              rcases hs with hs | rfl
              · exact hk.susp s hs
              · exact ⟨rfl, htxid, hS⟩
            · intro h
              have : calls h [COut.write tx.raw (some tx.h)] = 0 := by simp [calls]
              rw [this, Nat.zero_add]; exact r3 h
        · simp only [hbw, Bool.false_eq_true, if_false]; exact hcb

theorem acct_nil (S) (k : Client2) (hk : Inv2 S k) : Acct S k (k, []) :=
  ⟨hk, fun h => by simp [calls], by simp⟩

theorem acct_trans (S) (k : Client2) (r1 r2 : Client2 × List COut) (a1 : Acct S k r1) (a2 : Acct S r1.1 r2) :
    Acct S k (r2.1, r1.2 ++ r2.2) := by
  refine ⟨a2.inv2, ?_, ?_⟩
  · intro h; rw [calls_append]; have := a1.count h; have := a2.count h; simp only at *; omega
  · intro h id e hm
    rcases List.mem_append.mp hm with hm | hm
    · exact a1.call h id e hm
    · exact a2.call h id e hm

/-- changing what waits behind a suspended call does not touch the invariant -/
theorem suspOK_rest (S) (s : Susp) (r : List (TID × CEv)) (h : SuspOK S s) : SuspOK S { s with rest := r } :=
  ⟨h.h_eq, h.id_eq, h.prov⟩

theorem callbacks2_acct (S) (evs : List (TID × CEv)) (k : Client2) (hk : Inv2 S k) : Acct S k (k.callbacks evs) := by
  induction evs generalizing k with
  | nil => exact acct_nil S k hk
  | cons ev r ih =>
    obtain ⟨id, e⟩ := ev
    have a1 := callback2_acct S k hk id e
    unfold Client2.callbacks
    rcases hcb : k.callback id e with ⟨k1, o1, b⟩
    rw [hcb] at a1
    simp only at a1
    cases b with
    | true =>
      simp only
      refine ⟨⟨a1.inv2.inv, a1.inv2.from_, ?_⟩, a1.count, a1.call⟩
      intro s hs
      simp only [List.mem_append] at hs
      rcases hs with hs | hs
      · exact a1.inv2.susp s (List.dropLast_subset _ hs)
      · cases hl : k1.susp.getLast? with
        | none => simp [hl] at hs
        | some last =>
          simp only [hl, Option.map_some, Option.toList_some, List.mem_singleton] at hs
          subst hs
          exact suspOK_rest S last r (a1.inv2.susp last (List.mem_of_getLast? hl))
    | false =>
      simp only
      exact acct_trans S k (k1, o1) (k1.callbacks r) a1 (ih k1 a1.inv2)

/-- the collector fires -/
theorem tick2_acct (S) (k : Client2) (hk : Inv2 S k) (t : Nat) : Acct S k (k.tick t) := by
  unfold Client2.tick
  simp only
  have hk' : Inv2 S { k with c := { k.c with now := t, agent := (({ k.c with now := t } : Client).agent.collect t).1 } } :=
    ⟨⟨hk.inv.keyId, hk.inv.nodup⟩, fun p hp => hk.from_ p hp, hk.susp⟩
  have := callbacks2_acct S ((({ k.c with now := t } : Client).agent.collect t).2.2.map (fun (e : AEvent) => (e.id, CEv.timeout))) _ hk'
  exact ⟨this.inv2, this.count, this.call⟩

/-! ### the second halves -/

structure Piece (S : List (Nat × TID × Bytes)) (c : Client) (r : Client × List COut) : Prop where
  inv : TInv r.1
  from_ : FromStarts S r.1
  count : ∀ h, calls h r.2 + pend h r.1 = pend h c
  call : ∀ h id e, COut.call h id e ∈ r.2 → ∃ raw, (h, id, raw) ∈ S

theorem acct_of_piece (S) (k k0 : Client2) (_hc : k0.c = k.c) (hk0 : Inv2 S k0) (r : Client × List COut)
    (p : Piece S k.c r) : Acct S k (k0.lift r) :=
  ⟨⟨p.inv, p.from_, hk0.susp⟩, p.count, p.call⟩

theorem piece_same (S) (c c' : Client) (hi : TInv c) (hf : FromStarts S c) (ht : c'.t = c.t) (outs : List COut)
    (hno : ∀ h id e, COut.call h id e ∉ outs) : Piece S c (c', outs) := by
  refine ⟨tinv_congr c c' ht hi, fromStarts_congr S c c' ht hf, ?_, ?_⟩
  · intro h
    have : calls h outs = 0 := by
      unfold calls
      rw [List.length_eq_zero_iff, List.filter_eq_nil_iff]
      intro o ho
      cases o with
      | call h' id e => exact absurd ho (hno h' id e)
      | write _ _ => simp
      | fallback _ _ => simp
      | connClose => simp
    simp only [this, Nat.zero_add]; exact pend_congr c c' ht h
  · intro h id e hm; exact absurd hm (hno h id e)

/-- finishing the transaction a suspended call registered, if it is still the registered one: erase it, stop it with
    the agent, invoke its handler; `pre` are outputs without handler invocations -/
theorem piece_finish (S) (c c' : Client) (hi : TInv c) (hf : FromStarts S c) (ht : c'.t = c.t) (s : Susp)
    (hs : SuspOK S s) (hcur : c'.lookup s.id = some s.tx) (a : Agent) (e : CEv) (pre : List COut)
    (hno : ∀ h id e, COut.call h id e ∉ pre) :
    Piece S c ({ c'.erase s.id with agent := a }, pre ++ [COut.call s.h s.id e]) := by
  have hi' := tinv_congr c c' ht hi
  have hf' := fromStarts_congr S c c' ht hf
  obtain ⟨f1, f2, f3, f4⟩ := finish_facts S c' hi' hf' s.id s.tx hcur e
  have p0 := piece_same S c c' hi hf ht pre hno
  refine ⟨⟨f1.keyId, f1.nodup⟩, fun p hp => f2 p hp, ?_, ?_⟩
  · intro h
    rw [calls_append, hs.h_eq]
    have := f3 h; have := p0.count h
    show _ + _ + pend h (c'.erase s.id) = _
    simp only at *; omega
  · intro h id e' hm
    rcases List.mem_append.mp hm with hm | hm
    · exact absurd hm (hno h id e')
    · rw [hs.h_eq] at hm; exact f4 h id e' hm

theorem bne_false_eq {α} [DecidableEq α] (a b : α) (h : (a != b) = false) : a = b := by simpa using h

theorem retransmitEnd_piece (S) (c : Client) (hi : TInv c) (hf : FromStarts S c) (s : Susp) (hs : SuspOK S s)
    (ok : Bool) (hcur : ok = false → c.lookup s.id = some s.tx) : Piece S c (Client.retransmitEnd c s ok) := by
  unfold Client.retransmitEnd
  cases ok with
  | true => exact piece_same S c c hi hf rfl [] (by simp)
  | false =>
    simp only [Bool.false_eq_true, if_false]
    have := piece_finish S c c hi hf rfl s hs (hcur rfl) ((c.erase s.id).agent.stop s.id).1
      (if ((c.erase s.id).agent.stop s.id).2.1.isSome then CEv.stopErr else CEv.writeErr) [] (by simp)
    simpa using this

theorem retransmitPost_piece (S) (c : Client) (hi : TInv c) (hf : FromStarts S c) (s : Susp) (hs : SuspOK S s)
    (inject : Bool) : Piece S c (Client.retransmitPost c s inject) := by
  unfold Client.retransmitPost
  simp only
  split
  · -- the agent refused
    rename_i e _
    split
    · exact piece_same S c c hi hf rfl [] (by simp)
    · rename_i hst
      have hcur : c.lookup s.id = some s.tx := bne_false_eq _ _ (by simpa using hst)
      exact piece_finish S c c hi hf rfl s hs hcur (c.erase s.id).agent (if e == .closed then CEv.agentClosed else CEv.exists) [] (by simp)
  · -- registered; the write
    have htw := connWrite_t { c with agent := (c.agent.start s.id s.deadline).1 } s.tx.raw
    have htw' : ({ c with agent := (c.agent.start s.id s.deadline).1 }.connWrite s.tx.raw).1.t = c.t := htw
    split
    · exact piece_same S c _ hi hf htw' _ (by simp)
    · split
      · exact piece_same S c _ hi hf htw' _ (by simp)
      · rename_i hst
        have hcur : ({ c with agent := (c.agent.start s.id s.deadline).1 }.connWrite s.tx.raw).1.lookup s.id = some s.tx := by
          simpa using hst
        have := piece_finish S c _ hi hf htw' s hs hcur
          ((({ c with agent := (c.agent.start s.id s.deadline).1 }.connWrite s.tx.raw).1.erase s.id).agent.stop s.id).1
          (if ((({ c with agent := (c.agent.start s.id s.deadline).1 }.connWrite s.tx.raw).1.erase s.id).agent.stop s.id).2.1.isSome
            then CEv.stopErr else CEv.writeErr) [COut.write s.tx.raw (some s.h)] (by simp)
        simpa using this

/-- the oldest suspended retransmission continues, then the events that waited behind it are handled -/
theorem release2_acct (S) (k : Client2) (hk : Inv2 S k) (ok : Bool) : Acct S k (k.release ok) := by
  unfold Client2.release
  cases hsu : k.susp with
  | nil => exact acct_nil S k hk
  | cons s rest =>
    simp only
    have hs := hk.susp s (by rw [hsu]; exact List.mem_cons_self)
    have hk0 : Inv2 S { k with susp := rest } :=
      ⟨hk.inv, hk.from_, fun x hx => hk.susp x (by rw [hsu]; exact List.mem_cons_of_mem _ hx)⟩
    have a1 : Acct S k
        (if s.kind == .agentStart then ({ k with susp := rest }).lift (Client.retransmitPost k.c s (!ok))
         else if !ok && (k.c.lookup s.id != some s.tx) then ({ k with susp := rest }, [])
         else ({ k with susp := rest }).lift (Client.retransmitEnd k.c s ok)) := by
      split
      · exact acct_of_piece S k { k with susp := rest } rfl hk0 _ (retransmitPost_piece S k.c hk.inv hk.from_ s hs (!ok))
      · split
        · exact ⟨hk0, fun h => by simp [calls], by simp⟩
        · rename_i hst
          refine acct_of_piece S k { k with susp := rest } rfl hk0 _ (retransmitEnd_piece S k.c hk.inv hk.from_ s hs ok ?_)
          intro hok
          subst hok
          exact bne_false_eq _ _ (by simpa using hst)
    exact acct_trans S k _ _ a1 (callbacks2_acct S s.rest _ a1.inv2)

/-! ### whole steps and histories -/

def starts2Of : List COp2 → List (Nat × TID × Bytes)
  | [] => []
  | .l1 (.start id raw (some h)) :: r => (h, id, raw) :: starts2Of r
  | .startBlocked id raw h :: r => (h, id, raw) :: starts2Of r
  | _ :: r => starts2Of r

def startCount2 (h : Nat) (ops : List COp2) : Nat := ((starts2Of ops).filter (fun x => x.1 == h)).length

theorem starts2Of_l1 (op : COp) : starts2Of [.l1 op] = startsOf [op] := by
  cases op with
  | start id raw handler => cases handler <;> rfl
  | _ => rfl

theorem suspOK_mono (S S') (s : Susp) (hs : SuspOK S s) (hsub : ∀ x ∈ S, x ∈ S') : SuspOK S' s :=
  ⟨hs.h_eq, hs.id_eq, hsub _ hs.prov⟩

theorem inv2_mono (S S') (k : Client2) (hk : Inv2 S k) (hsub : ∀ x ∈ S, x ∈ S') : Inv2 S' k :=
  ⟨hk.inv, fromStarts_mono S S' k.c hk.from_ hsub, fun s hs => suspOK_mono S S' s (hk.susp s hs) hsub⟩

structure Step2 (S : List (Nat × TID × Bytes)) (k : Client2) (op : COp2) (r : Client2 × Option CErr × List COut) : Prop where
  inv2 : Inv2 (starts2Of [op] ++ S) r.1
  call : ∀ h id e, COut.call h id e ∈ r.2.2 → ∃ raw, (h, id, raw) ∈ starts2Of [op] ++ S
  count : ∀ h, calls h r.2.2 + pend h r.1.c ≤ pend h k.c + ((starts2Of [op]).filter (fun x => x.1 == h)).length

theorem step2_of_acct (S) (k : Client2) (op : COp2) (r : Client2 × List COut) (e : Option CErr) (a : Acct S k r)
    (hno : starts2Of [op] = []) : Step2 S k op (r.1, e, r.2) := by
  refine ⟨?_, ?_, ?_⟩
  · rw [hno]; exact a.inv2
  · rw [hno]; exact a.call
  · intro h; rw [hno]; have := a.count h; simp only [List.filter_nil, List.length_nil] at *; omega

theorem pend_erase_le (c : Client) (id : TID) (h : Nat) : pend h (c.erase id) ≤ pend h c := by
  unfold pend Client.erase
  exact (List.Sublist.filter _ List.filter_sublist).length_le

theorem startBlocked_step (S) (k : Client2) (hk : Inv2 S k) (id : TID) (raw : Bytes) (h : Nat) :
    Step2 S k (.startBlocked id raw h) (k.startBlocked id raw h) := by
  have hsub : ∀ x ∈ S, x ∈ starts2Of [COp2.startBlocked id raw h] ++ S := fun x hx => List.mem_append_right _ hx
  have hmem : (h, id, raw) ∈ starts2Of [COp2.startBlocked id raw h] ++ S := by simp [starts2Of]
  have hk' := inv2_mono S _ k hk hsub
  have hcnt : ∀ h', ((starts2Of [COp2.startBlocked id raw h]).filter (fun x => x.1 == h')).length = if h == h' then 1 else 0 := by
    intro h'; by_cases hh : h = h' <;> simp [starts2Of, hh]
  have same : Step2 S k (.startBlocked id raw h) (k, some CErr.exists, []) :=
    ⟨hk', by simp, fun h' => by simp [calls]⟩
  unfold Client2.startBlocked Client.startBegin
  by_cases hc : k.c.closed = true
  · simp only [hc, if_true]
    exact ⟨hk', by simp, fun h' => by simp [calls]⟩
  · simp only [hc, Bool.false_eq_true, if_false]
    by_cases hex : (k.c.lookup id).isSome = true
    · simp only [hex, if_true]
      exact ⟨hk', by simp, fun h' => by simp [calls]⟩
    · simp only [hex, Bool.false_eq_true, if_false]
      have hkey : id ∉ ckeys k.c := by rw [← lookup_iff]; exact hex
      have hi1 := tinv_insert k.c ⟨id, 0, k.c.rto, raw, h, k.c.now⟩ hk.inv hkey
      have hp1 := pend_insert k.c ⟨id, 0, k.c.rto, raw, h, k.c.now⟩
      have hl1 : (k.c.insert ⟨id, 0, k.c.rto, raw, h, k.c.now⟩).lookup id = some ⟨id, 0, k.c.rto, raw, h, k.c.now⟩ :=
        lookup_insert_self k.c ⟨id, 0, k.c.rto, raw, h, k.c.now⟩ hkey
      have hf1 : FromStarts (starts2Of [COp2.startBlocked id raw h] ++ S) (k.c.insert ⟨id, 0, k.c.rto, raw, h, k.c.now⟩) := by
        intro p hp
        simp only [Client.insert, List.mem_append, List.mem_singleton] at hp
        rcases hp with hp | rfl
        · exact hk'.from_ p hp
        · exact hmem
      rcases hst : (k.c.insert ⟨id, 0, k.c.rto, raw, h, k.c.now⟩).agent.start id
          (nextTimeout ⟨id, 0, k.c.rto, raw, h, k.c.now⟩ (⟨id, 0, k.c.rto, raw, h, k.c.now⟩ : Txn).start) with ⟨a, err⟩
      cases err with
      | some er =>
        simp only
        refine ⟨⟨tinv_erase _ id hi1, fromStarts_erase _ _ id hf1, hk'.susp⟩, by simp, ?_⟩
        intro h'
        have e1 := pend_erase _ hi1 id _ hl1 h'
        have e2 := hp1 h'
        simp only [calls, List.filter_nil, List.length_nil] at *
        omega
      | none =>
        simp only
        refine ⟨⟨⟨hi1.keyId, hi1.nodup⟩, fun p hp => hf1 p hp, ?_⟩, by simp, ?_⟩
        · intro s hs
          simp only [List.mem_append, List.mem_singleton] at hs
          rcases hs with hs | rfl
          · exact hk'.susp s hs
          · exact ⟨rfl, rfl, hmem⟩
        · intro h'
          have e2 := hp1 h'
          have : calls h' [COut.write raw (some h)] = 0 := by simp [calls]
          rw [this, hcnt h']
          show 0 + pend h' (k.c.insert ⟨id, 0, k.c.rto, raw, h, k.c.now⟩) ≤ _
          simp only at e2; omega

theorem releaseStart_step (S) (k : Client2) (hk : Inv2 S k) (ok : Bool) :
    Step2 S k (.release ok) ((k.releaseStart ok).1, (k.releaseStart ok).2, []) := by
  have hno : starts2Of [COp2.release ok] = [] := rfl
  unfold Client2.releaseStart
  cases hsu : k.susp with
  | nil => exact step2_of_acct S k _ (k, []) none (acct_nil S k hk) hno
  | cons s rest =>
    simp only
    have hrest : ∀ x ∈ rest, SuspOK S x := fun x hx => hk.susp x (by rw [hsu]; exact List.mem_cons_of_mem _ hx)
    unfold Client.startEnd
    cases ok with
    | true =>
      simp only [if_true]
      refine ⟨?_, by simp, fun h => by simp [calls]⟩
      rw [hno]; exact ⟨hk.inv, hk.from_, hrest⟩
    | false =>
      simp only [Bool.false_eq_true, if_false]
      have hie := tinv_erase k.c s.id hk.inv
      refine ⟨?_, by simp, ?_⟩
      · rw [hno]; exact ⟨⟨hie.keyId, hie.nodup⟩, fun p hp => fromStarts_erase S k.c s.id hk.from_ p hp, hrest⟩
      · intro h
        have := pend_erase_le k.c s.id h
        simp only [calls, List.filter_nil, List.length_nil, hno]
        show 0 + pend h (k.c.erase s.id) ≤ _
        omega

theorem deliverDecoded_acct (S) (k : Client2) (hk : Inv2 S k) (tid : TID) (raw : Bytes) :
    Acct S k (k.lift (k.c.deliverDecoded tid raw)) := by
  unfold Client.deliverDecoded
  split
  · exact acct_nil S k hk
  · have := callback_spec S { k.c with agent := (k.c.agent.process tid).1 } ⟨hk.inv.keyId, hk.inv.nodup⟩
      (fun p hp => hk.from_ p hp) tid (.msg raw)
    exact acct_of_cb S k hk _ (cbSpec_withAgent S k.c _ _ this)

/-- one L2 step of any kind -/
theorem step2_spec (S) (k : Client2) (hk : Inv2 S k) (op : COp2) : Step2 S k op (k.step op) := by
  cases op with
  | l1 op1 =>
    have hl1 : ∀ (hnt : ∀ t, op1 ≠ .tick t),
        Step2 S k (.l1 op1) ({ k with c := (k.c.step op1).1 }, (k.c.step op1).2.1, (k.c.step op1).2.2) := by
      intro _
      obtain ⟨s1, s2, s3, _, s5⟩ := step_spec S k.c hk.inv hk.from_ op1
      rw [← starts2Of_l1] at s2 s3 s5
      exact ⟨⟨s1, s2, fun s hs => suspOK_mono S _ s (hk.susp s hs) (fun x hx => List.mem_append_right _ hx)⟩, s3, s5⟩
    cases op1 with
    | tick t => exact step2_of_acct S k _ (k.tick t) none (tick2_acct S k hk t) rfl
    | start id raw h => exact hl1 (by intro t; simp)
    | deliver d => exact hl1 (by intro t; simp)
    | clock t => exact hl1 (by intro t; simp)
    | failWrite id => exact hl1 (by intro t; simp)
    | setRTO r => exact hl1 (by intro t; simp)
    | close => exact hl1 (by intro t; simp)
  | blockWrite id =>
    exact step2_of_acct S k _ ({ k with blockIds := k.blockIds ++ [id] }, []) none
      ⟨⟨hk.inv, hk.from_, hk.susp⟩, fun h => by simp [calls], by simp⟩ rfl
  | blockAgent id =>
    exact step2_of_acct S k _ ({ k with blockAgentIds := k.blockAgentIds ++ [id] }, []) none
      ⟨⟨hk.inv, hk.from_, hk.susp⟩, fun h => by simp [calls], by simp⟩ rfl
  | release ok =>
    simp only [Client2.step]
    split
    · exact releaseStart_step S k hk ok
    · exact step2_of_acct S k _ (k.release ok) none (release2_acct S k hk ok) rfl
  | startBlocked id raw h => exact startBlocked_step S k hk id raw h
  | deliverDecoded tid raw =>
    exact step2_of_acct S k _ (k.lift (k.c.deliverDecoded tid raw)) none (deliverDecoded_acct S k hk tid raw) rfl

theorem starts2Of_cons (op : COp2) (r : List COp2) : starts2Of (op :: r) = starts2Of [op] ++ starts2Of r := by
  cases op with
  | l1 op1 =>
    cases op1 with
    | start id raw h => cases h <;> simp [starts2Of]
    | _ => simp [starts2Of]
  | _ => simp [starts2Of]

/-- whole L2 histories: the invariant holds throughout, every invocation is justified by a `Start` of the history,
    and invocations plus pending entries never exceed the `Start`s -/
theorem run2_spec (ops : List COp2) : ∀ (S) (k : Client2), Inv2 S k →
    Inv2 (starts2Of ops ++ S) (k.run ops).1 ∧
    (∀ h id e, COut.call h id e ∈ (k.run ops).2 → ∃ raw, (h, id, raw) ∈ starts2Of ops ++ S) ∧
    (∀ h, calls h (k.run ops).2 + pend h (k.run ops).1.c ≤ pend h k.c + startCount2 h ops) := by
  induction ops with
  | nil =>
    intro S k hk
    exact ⟨by simpa [starts2Of, Client2.run] using hk, by simp [Client2.run], fun h => by simp [Client2.run, calls, startCount2, starts2Of]⟩
  | cons op r ih =>
    intro S k hk
    have s := step2_spec S k hk op
    obtain ⟨i1, i2, i3⟩ := ih (starts2Of [op] ++ S) (k.step op).1 s.inv2
    have hsub : ∀ x ∈ starts2Of r ++ (starts2Of [op] ++ S), x ∈ starts2Of (op :: r) ++ S := by
      intro x hx
      rw [starts2Of_cons]
      simp only [List.mem_append] at hx ⊢
      rcases hx with hx | hx | hx
      · exact Or.inl (Or.inr hx)
      · exact Or.inl (Or.inl hx)
      · exact Or.inr hx
    refine ⟨inv2_mono _ _ _ i1 hsub, ?_, ?_⟩
    · intro h id e hm
      simp only [Client2.run, List.mem_append] at hm
      rcases hm with hm | hm
      · obtain ⟨raw, hr⟩ := s.call h id e hm
        refine ⟨raw, ?_⟩
        rw [starts2Of_cons]
        simp only [List.mem_append] at hr ⊢
        rcases hr with hr | hr
        · exact Or.inl (Or.inl hr)
        · exact Or.inr hr
      · obtain ⟨raw, hr⟩ := i2 h id e hm
        exact ⟨raw, hsub _ hr⟩
    · intro h
      have c1 := s.count h
      have c2 := i3 h
      simp only [Client2.run, calls_append]
      have : startCount2 h (op :: r) = ((starts2Of [op]).filter (fun x => x.1 == h)).length + startCount2 h r := by
        unfold startCount2; rw [starts2Of_cons, List.filter_append, List.length_append]
      omega

theorem inv2_init : Inv2 [] ({} : Client2) := ⟨inv_init, by intro p hp; simp at hp, by intro s hs; simp at hs⟩

end Stun.ClientProofs
