/-
  Model of integrity.go (MESSAGE-INTEGRITY) and fingerprint.go (FINGERPRINT), transliterated including the
  temporary `Length` changes, the uint32 arithmetic, the checked slice `Raw[:startOfHMAC]`, and the fact that
  `mac.Sum(Raw[len(Raw):])` writes its result into the spare capacity of `Raw` when there is room.
-/
import Stun.Model.Attrs
import Stun.Spec.CRC32
namespace Stun

def messageIntegritySize : Nat := 20
def fingerprintSize : Nat := 4
def fingerprintXORValue : Nat := 0x5354554e

inductive CheckRes where
  | ok
  | err (e : GetErr)
  | panic
deriving DecidableEq, Repr

/-- `h.Sum(Raw[len(Raw):])`: the digest lands in the spare capacity if it fits (otherwise a new array is used) -/
def Msg.sumIntoSpare (m : Msg) (digest : Bytes) : Msg :=
  if m.len + digest.length ≤ m.mem.length then { m with mem := Msg.writeAt m.mem m.len digest } else m

section
variable (mac : Bytes → Bytes → Bytes)   -- key → message → 20-byte tag (HMAC-SHA1 in the driver)

/-- integrity.go `MessageIntegrity.AddTo` -/
def integrityAddTo (key : Bytes) (m : Msg) : Msg × Option SetErr :=
  if m.attrs.any (fun a => a.typ == attrFingerprint) then (m, some .fpBeforeIntegrity) else
  let length := m.length
  let m := { m with length := Msg.w32 (m.length + messageIntegritySize + attributeHeaderSize) }
  let m := m.writeLength
  let v := mac key m.raw
  let m := m.sumIntoSpare v
  let m := { m with length := length }
  (m.add attrMessageIntegrity v, none)

/-- bytes occupied by the attributes that follow the first MESSAGE-INTEGRITY (the `sizeReduced` loop) -/
def sizeReducedAux : Bool → List RawAttr → Nat
  | _, [] => 0
  | after, a :: r =>
    (if after then nearestPaddedValueLength a.length + attributeHeaderSize else 0)
      + sizeReducedAux (after || a.typ == attrMessageIntegrity) r

/-- integrity.go `MessageIntegrity.Check` -/
def integrityCheck (key : Bytes) (m : Msg) : Msg × CheckRes :=
  match m.get attrMessageIntegrity with
  | none => (m, .err .notFound)
  | some val =>
    let length := m.length
    let sizeReduced := sizeReducedAux false m.attrs
    -- msg.Length -= uint32(sizeReduced)
    let m := { m with length := Msg.w32 (m.length + 4294967296 - Msg.w32 sizeReduced) }
    let m := m.writeLength
    -- startOfHMAC := messageHeaderSize + msg.Length - (attributeHeaderSize + messageIntegritySize)   (uint32)
    let startOfHMAC := Msg.w32 (messageHeaderSize + m.length + 4294967296 - (attributeHeaderSize + messageIntegritySize))
    if startOfHMAC > m.mem.length then (m, .panic) else
    let b := m.mem.take startOfHMAC
    let expected := mac key b
    let m := m.sumIntoSpare expected
    let m := { m with length := length }
    let m := m.writeLength
    (m, if val == expected then .ok else .err .mismatch)

end

/-- fingerprint.go `FingerprintValue` -/
def fingerprintValue (b : Bytes) : Nat := Spec.crc32 b ^^^ fingerprintXORValue

/-- fingerprint.go `FingerprintAttr.AddTo` -/
def fingerprintAddTo (m : Msg) : Msg × Option SetErr :=
  let l := m.length
  let m := { m with length := Msg.w32 (m.length + fingerprintSize + attributeHeaderSize) }
  let m := m.writeLength
  let val := fingerprintValue m.raw
  let m := { m with length := l }
  (m.add attrFingerprint (put32 val), none)

/-- fingerprint.go `FingerprintAttr.Check` -/
def fingerprintCheck (m : Msg) : CheckRes :=
  match m.get attrFingerprint with
  | none => .err .notFound
  | some b =>
    if b.length ≠ fingerprintSize then .err .badSize else
    let val := be32 b
    -- attrStart := len(m.Raw) - 8 is an int; a negative bound panics
    if m.len < fingerprintSize + attributeHeaderSize then .panic else
    let attrStart := m.len - (fingerprintSize + attributeHeaderSize)
    let expected := fingerprintValue (m.raw.take attrStart)
    if val == expected then .ok else .err .mismatch

/-! ### setters as data, and `Build` -/

inductive Setter where
  | msgType (method cls : Nat)
  | tid (id : Bytes)
  | raw (t : Nat) (v : Bytes)
  | text (k : TextKind) (v : Bytes)
  | xorAddr (attr : Nat) (ip : Bytes) (port : Nat)
  | mapAddr (attr : Nat) (ip : Bytes) (port : Nat)
  | errorCode (code : Nat) (reason : Bytes)
  | errorCodeDefault (code : Nat)
  | unknownAttrs (ts : List Nat)
  | integrity (key : Bytes)
  | fingerprint
deriving Repr

def Setter.addTo (mac : Bytes → Bytes → Bytes) (s : Setter) (m : Msg) : Msg × Option SetErr :=
  match s with
  | .msgType me c => (m.setType me c, none)
  | .tid id => (({ m with tid := id }).writeTransactionID, none)
  | .raw t v => (m.add t v, none)
  | .text k v => textAddToAs m k.attr v k.limit
  | .xorAddr a ip p => xorAddToAs m a ip p
  | .mapAddr a ip p => mappedAddToAs m a ip p
  | .errorCode c r => errorCodeAddTo m c r
  | .errorCodeDefault c => errorCodeDefaultAddTo m c
  | .unknownAttrs ts => unknownAddTo m ts
  | .integrity key => integrityAddTo mac key m
  | .fingerprint => fingerprintAddTo m

/-- the loop of helpers.go `Build` -/
def applySetters (mac : Bytes → Bytes → Bytes) : List Setter → Msg → Msg × Option SetErr
  | [], m => (m, none)
  | s :: r, m =>
    match s.addTo mac m with
    | (m', some e) => (m', some e)
    | (m', none) => applySetters mac r m'

/-- helpers.go `(*Message).Build` -/
def build (mac : Bytes → Bytes → Bytes) (m : Msg) (ss : List Setter) : Msg × Option SetErr :=
  applySetters mac ss (m.reset.writeHeader)

end Stun
