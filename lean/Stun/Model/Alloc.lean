/-
  Allocation accounting over the capacity model (C20).

  `Msg` carries the whole backing array of `Raw` (`mem`, so `cap(Raw) = mem.length`) and `len(Raw)`. In the Go code
  the capacity of `Raw` changes exactly when `append`/`grow` has to move it to a new array — a heap allocation — and in
  the model exactly those steps make `mem` longer (`grow` beyond the capacity, `setRaw` of a longer input).
  So "the operation allocated for Raw" is "`mem.length` changed". The one other input-dependent allocation site of the
  hot paths is `mac.Sum(m.Raw[len(m.Raw):])` in integrity.go: an `append` of 20 bytes to an empty slice that owns only
  the spare capacity of `Raw`.

  Not in this model (measured by the correspondence stream `alloc` with testing.AllocsPerRun instead): the capacity of
  the `Attributes` slice and of getter destinations, escape analysis, interface boxing, sync.Pool misses.
-/
import Stun.Model.Integrity
namespace Stun.Alloc
open Stun

/-- 1 iff `Raw` moved to a new backing array between the two states -/
def realloc (before after : Msg) : Nat := if after.mem.length = before.mem.length then 0 else 1

/-- `h.Sum(m.Raw[len(m.Raw):])` with an `n`-byte digest: a new array iff fewer than `n` bytes are spare
    (the same condition as `Msg.sumIntoSpare`) -/
def sumAlloc (m : Msg) (n : Nat) : Nat := if m.len + n ≤ m.mem.length then 0 else 1

/-- allocations of `MessageIntegrity.Check`: nothing before the attribute is found; then one `Sum` -/
def integrityCheck (m : Msg) : Nat :=
  match m.get attrMessageIntegrity with
  | none => 0
  | some _ => sumAlloc m messageIntegritySize

/-- allocations of a decode entry point that copies its input (`Write`, `Decode`, `UnmarshalBinary`, `GobDecode`,
    `CloneTo`) -/
def decodeFrom (m : Msg) (data : Bytes) : Nat := realloc m (m.decodeFrom data).1

/-- uattrs.go `UnknownAttributes.AddTo` collects the value in `make([]byte, 0, 2*20)` ("20 should be enough") and
    appends two bytes per entry: beyond 20 entries `append` moves it to the heap, doubling the capacity each time
    (40 → 80 → 160 → 320 bytes; Go's growth rule below 256 bytes) -/
def unknownAddTo (n : Nat) : Nat :=
  if n ≤ 20 then 0 else if n ≤ 40 then 1 else if n ≤ 80 then 2 else if n ≤ 160 then 3 else 4

/-- allocations a setter makes besides growing `Raw` -/
def setterExtra : Setter → Nat
  | .unknownAttrs ts => unknownAddTo ts.length
  | _ => 0

/-- allocations of a `Build` in which every setter runs: moving `Raw`, plus what the setters allocate themselves -/
def build (mac : Bytes → Bytes → Bytes) (m : Msg) (ss : List Setter) : Nat :=
  realloc m (Stun.build mac m ss).1 + (ss.map setterExtra).sum

end Stun.Alloc
