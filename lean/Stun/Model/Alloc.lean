/-
  Allocation accounting over the capacity model (C20).

  `Msg` carries the whole backing array of `Raw` (`mem`, so `cap(Raw) = mem.length`) and `len(Raw)`. In the Go code
  the capacity of `Raw` changes exactly when `append`/`grow` has to move it to a new array — a heap allocation — and in
  the model exactly those steps make `mem` longer (`grow` beyond the capacity, `setRaw` of a longer input).
  So "the operation allocated for Raw" is "`mem.length` changed". The one other input-dependent allocation site of the
  hot paths is `mac.Sum(m.Raw[len(m.Raw):])` in integrity.go: an `append` of 20 bytes to an empty slice that owns only
  the spare capacity of `Raw`.

  Not in this model (measured by the correspondence stream `alloc` with testing.AllocsPerRun instead): the capacity of
  the `Attributes` slice and of getter destinations, escape analysis, interface boxing, sync.Pool misses.
-/
import Stun.Model.Integrity
namespace Stun.Alloc
open Stun

/-- 1 iff `Raw` moved to a new backing array between the two states -/
def realloc (before after : Msg) : Nat := if after.mem.length = before.mem.length then 0 else 1

/-- `h.Sum(m.Raw[len(m.Raw):])` with an `n`-byte digest: a new array iff fewer than `n` bytes are spare
    (the same condition as `Msg.sumIntoSpare`) -/
def sumAlloc (m : Msg) (n : Nat) : Nat := if m.len + n ≤ m.mem.length then 0 else 1

/-- allocations of `MessageIntegrity.Check`: nothing before the attribute is found; then one `Sum` -/
def integrityCheck (m : Msg) : Nat :=
  match m.get attrMessageIntegrity with
  | none => 0
  | some _ => sumAlloc m messageIntegritySize

/-- allocations of a decode entry point that copies its input (`Write`, `Decode`, `UnmarshalBinary`, `GobDecode`,
    `CloneTo`) -/
def decodeFrom (m : Msg) (data : Bytes) : Nat := realloc m (m.decodeFrom data).1

/-- allocations of `Build` with the given setters, for Raw and for the integrity setter's `Sum` -/
def build (mac : Bytes → Bytes → Bytes) (m : Msg) (ss : List Setter) : Nat := realloc m (Stun.build mac m ss).1

end Stun.Alloc
