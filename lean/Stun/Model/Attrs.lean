/-
  Model of the typed attributes: xoraddr.go, addr.go, textattrs.go, errorcode.go, uattrs.go (setters and getters),
  checks.go (`CheckOverflow`, `CheckSize`), and helpers.go `Build`.
  Setters are `Msg → Msg × Option SetErr`, written in Go's order of effects (a failing setter returns the state it
  left behind). Getters take the message and return a value or an error kind.
-/
import Stun.Model.Message
namespace Stun

inductive SetErr where
  | overflow          -- ErrAttributeSizeOverflow / *AttrOverflowErr
  | badIPLength       -- ErrBadIPLength
  | noDefaultReason   -- ErrNoDefaultReason
  | fpBeforeIntegrity -- ErrFingerprintBeforeIntegrity
deriving DecidableEq, Repr

inductive GetErr where
  | notFound      -- ErrAttributeNotFound
  | eof           -- io.ErrUnexpectedEOF
  | family        -- DecodeErr "xor-mapped address"/"family"
  | overflow      -- CheckOverflow
  | badSize       -- ErrBadUnknownAttrsSize / CheckSize
  | mismatch      -- ErrIntegrityMismatch / ErrFingerprintMismatch
deriving DecidableEq, Repr

def familyIPv4 : Nat := 0x01
def familyIPv6 : Nat := 0x02
def maxUsernameB : Nat := 513
def maxRealmB : Nat := 763
def softwareRawMaxB : Nat := 763
def maxNonceB : Nat := 763
def errorCodeReasonStart : Nat := 4
def errorCodeReasonMaxB : Nat := 763
def errorCodeModulo : Nat := 100
def attrTypeSize : Nat := 2

def attrMappedAddress : Nat := 0x0001
def attrUsername : Nat := 0x0006
def attrMessageIntegrity : Nat := 0x0008
def attrErrorCode : Nat := 0x0009
def attrUnknownAttributes : Nat := 0x000A
def attrRealm : Nat := 0x0014
def attrNonce : Nat := 0x0015
def attrXORMappedAddress : Nat := 0x0020
def attrSoftware : Nat := 0x8022
def attrAlternateServer : Nat := 0x8023
def attrFingerprint : Nat := 0x8028
def attrResponseOrigin : Nat := 0x802b
def attrOtherAddress : Nat := 0x802c

/-- checks.go / checks_debug.go `CheckOverflow`: both build tags agree on error-ness -/
def checkOverflow (got maxVal : Nat) : Bool := got ≤ maxVal

inductive TextKind where | username | realm | nonce | software
deriving DecidableEq, Repr

def TextKind.attr : TextKind → Nat
  | .username => attrUsername | .realm => attrRealm | .nonce => attrNonce | .software => attrSoftware
def TextKind.limit : TextKind → Nat
  | .username => maxUsernameB | .realm => maxRealmB | .nonce => maxNonceB | .software => softwareRawMaxB

/-- textattrs.go `TextAttribute.AddToAs` -/
def textAddToAs (m : Msg) (t : Nat) (v : Bytes) (maxLen : Nat) : Msg × Option SetErr :=
  if ¬ checkOverflow v.length maxLen then (m, some .overflow)
  else (m.add t v, none)

/-- xoraddr.go `isIPv4` on a 16-byte address -/
def isIPv4 (ip : Bytes) : Bool :=
  (ip.take 10).all (· == 0) && ip.getD 10 0 == 0xff && ip.getD 11 0 == 0xff

/-- bytewise xor over the shorter length (`subtle.XORBytes`) -/
def xorBytes (a b : Bytes) : Bytes := List.zipWith (· ^^^ ·) a b

/-- the (family, ip) normalisation shared by both address setters -/
def addrFamily (ip : Bytes) : Option (Nat × Bytes) :=
  if ip.length = 16 then
    if isIPv4 ip then some (familyIPv4, (ip.drop 12).take 4) else some (familyIPv6, ip)
  else if ip.length ≠ 4 then none
  else some (familyIPv4, ip)

/-- xoraddr.go `XORMappedAddress.AddToAs`; `port` is Go's `int` restricted to non-negative values -/
def xorAddToAs (m : Msg) (attr : Nat) (ip : Bytes) (port : Nat) : Msg × Option SetErr :=
  match addrFamily ip with
  | none => (m, some .badIPLength)
  | some (family, ip) =>
    let xorValue := put32 magicCookie ++ m.tid
    let value := put16 family ++ put16 (port ^^^ (magicCookie >>> 16)) ++ xorBytes ip xorValue
    (m.add attr value, none)

/-- addr.go `MappedAddress.AddToAs` -/
def mappedAddToAs (m : Msg) (attr : Nat) (ip : Bytes) (port : Nat) : Msg × Option SetErr :=
  match addrFamily ip with
  | none => (m, some .badIPLength)
  | some (family, ip) =>
    (m.add attr (put16 family ++ put16 port ++ ip), none)

/-- errorcode.go `ErrorCodeAttribute.AddTo` -/
def errorCodeAddTo (m : Msg) (code : Nat) (reason : Bytes) : Msg × Option SetErr :=
  if ¬ checkOverflow (reason.length + errorCodeReasonStart) (errorCodeReasonMaxB + errorCodeReasonStart) then
    (m, some .overflow)
  else
    let number := UInt8.ofNat (code % errorCodeModulo)
    let cls := UInt8.ofNat (code / errorCodeModulo)
    (m.add attrErrorCode ([0, 0, cls, number] ++ reason), none)

/-- ASCII string literal as bytes (kernel-reducible form) -/
def str (s : String) : Bytes := s.toList.map (fun c => UInt8.ofNat c.toNat)

/-- errorcode.go `errorReasons` (code, default reason phrase) -/
def errorReasonsS : List (Nat × String) :=
  [ (300, "Try Alternate"), (400, "Bad Request"), (401, "Unauthorized"),
    (420, "Unknown Attribute"), (438, "Stale Nonce"), (500, "Server Error"),
    (487, "Role Conflict"), (403, "Forbidden"), (437, "Allocation Mismatch"),
    (441, "Wrong Credentials"), (442, "Unsupported Transport Protocol"),
    (486, "Allocation Quota Reached"), (508, "Insufficient Capacity"),
    (446, "Connection Already Exists"), (447, "Connection Timeout or Failure"),
    (440, "Address Family not Supported"), (443, "Peer Address Family Mismatch") ]

def errorReasons : List (Nat × Bytes) := errorReasonsS.map (fun p => (p.1, str p.2))

/-- errorcode.go `ErrorCode.AddTo` -/
def errorCodeDefaultAddTo (m : Msg) (code : Nat) : Msg × Option SetErr :=
  match errorReasons.lookup code with
  | none => (m, some .noDefaultReason)
  | some reason => errorCodeAddTo m code reason

/-- uattrs.go `UnknownAttributes.AddTo` (as repaired: 16-bit entries) -/
def unknownAddTo (m : Msg) (ts : List Nat) : Msg × Option SetErr :=
  (m.add attrUnknownAttributes (ts.flatMap put16), none)

/-! ### getters

  Reads from the attribute value are *checked* (`rd16`, `rdByte`, `from4`): an out-of-range index or slice bound is
  the result `.panic`, never a default value. The guards of the Go code are what makes `.panic` unreachable. -/

inductive GetRes (α : Type) where
  | ok (a : α)
  | err (e : GetErr)
  | panic
deriving DecidableEq, Repr

/-- `bin.Uint16(v[off:off+2])` -/
def rd16 (v : Bytes) (off : Nat) : Option Nat := if off + 2 ≤ v.length then some (be16 (v.drop off)) else none
/-- `v[i]` -/
def rdByte (v : Bytes) (i : Nat) : Option UInt8 := if i < v.length then some (v.getD i 0) else none
/-- `v[n:]` -/
def sliceFrom (v : Bytes) (n : Nat) : Option Bytes := if n ≤ v.length then some (v.drop n) else none

structure Addr where
  ip : Bytes
  port : Nat
deriving DecidableEq, Repr

/-- xoraddr.go `XORMappedAddress.GetFromAs` (as repaired: the length check precedes the first index) -/
def xorGetFromAs (m : Msg) (attr : Nat) : GetRes Addr :=
  match m.get attr with
  | none => .err .notFound
  | some value =>
    if value.length ≤ 4 then .err .eof else
    match rd16 value 0 with
    | none => .panic
    | some family =>
    if family ≠ familyIPv6 ∧ family ≠ familyIPv4 then .err .family else
    let ipLen := if family = familyIPv6 then 16 else 4
    match sliceFrom value 4, rd16 value 2 with
    | some rest, some xport =>
      if ¬ checkOverflow rest.length ipLen then .err .overflow else
      let port := xport ^^^ (magicCookie >>> 16)
      let xorValue := put32 magicCookie ++ m.tid
      let x := xorBytes rest xorValue
      -- a.IP was zeroed to ipLen bytes; XORBytes overwrites the first min(len) bytes
      .ok ⟨x ++ Msg.zeros (ipLen - x.length), port⟩
    | _, _ => .panic

/-- addr.go `MappedAddress.GetFromAs` -/
def mappedGetFromAs (m : Msg) (attr : Nat) : GetRes Addr :=
  match m.get attr with
  | none => .err .notFound
  | some value =>
    if value.length ≤ 4 then .err .eof else
    match rd16 value 0 with
    | none => .panic
    | some family =>
    if family ≠ familyIPv6 ∧ family ≠ familyIPv4 then .err .family else
    let ipLen := if family = familyIPv6 then 16 else 4
    match rd16 value 2, sliceFrom value 4 with
    | some port, some rest =>
      let c := rest.take ipLen     -- copy(a.IP, value[4:])
      .ok ⟨c ++ Msg.zeros (ipLen - c.length), port⟩
    | _, _ => .panic

/-- textattrs.go `TextAttribute.GetFromAs` -/
def textGetFromAs (m : Msg) (attr : Nat) : GetRes Bytes :=
  match m.get attr with
  | none => .err .notFound
  | some v => .ok v

/-- errorcode.go `ErrorCodeAttribute.GetFrom` -/
def errorCodeGetFrom (m : Msg) : GetRes (Nat × Bytes) :=
  match m.get attrErrorCode with
  | none => .err .notFound
  | some value =>
    if value.length < errorCodeReasonStart then .err .eof else
    match rdByte value 2, rdByte value 3, sliceFrom value errorCodeReasonStart with
    | some cls, some number, some reason =>
      .ok (w16 (w16 (cls.toNat * errorCodeModulo) + number.toNat), reason)
    | _, _, _ => .panic

/-- the loop of `UnknownAttributes.GetFrom`: `for first < len(v) { v[first:first+2] ... }` -/
def unknownLoop (v : Bytes) (first : Nat) (fuel : Nat) (acc : List Nat) : Option (List Nat) :=
  match fuel with
  | 0 => if first < v.length then none else some acc
  | fuel + 1 =>
    if first < v.length then
      match rd16 v first with
      | none => none
      | some t => unknownLoop v (first + attrTypeSize) fuel (acc ++ [t])
    else some acc

/-- uattrs.go `UnknownAttributes.GetFrom` (as repaired) -/
def unknownGetFrom (m : Msg) : GetRes (List Nat) :=
  match m.get attrUnknownAttributes with
  | none => .err .notFound
  | some v =>
    if v.length % attrTypeSize ≠ 0 then .err .badSize else
    match unknownLoop v 0 v.length [] with
    | some l => .ok l
    | none => .panic

end Stun
