/-
  Model of message.go: MessageType.Value / MessageType.ReadValue (uint16 arithmetic),
  and the RFC 5389 figure 3 layout written independently as the specification.
-/
namespace Stun

/-- uint16 wrap-around -/
@[inline] def w16 (n : Nat) : Nat := n % 65536

/-- message.go `func (t MessageType) Value() uint16`; `method : uint16`, `cls : byte` -/
def typeValue (method cls : Nat) : Nat :=
  let msg := w16 method
  let a := msg &&& 0xf
  let b := msg &&& 0x70
  let d := msg &&& 0xf80
  let msg := w16 (a + w16 (b <<< 1) + w16 (d <<< 2))
  let c := w16 cls
  let c0 := w16 ((c &&& 0x1) <<< 4)
  let c1 := w16 ((c &&& 0x2) <<< 7)
  let cl := w16 (c0 + c1)
  w16 (msg + cl)

/-- message.go `func (t *MessageType) ReadValue(v uint16)`: returns (method, class).
    `MessageClass(class)` narrows a uint16 to a byte. -/
def readValue (v : Nat) : Nat × Nat :=
  let c0 := (v >>> 4) &&& 0x1
  let c1 := (v >>> 7) &&& 0x2
  let cl := w16 (c0 + c1)
  let a := v &&& 0xf
  let b := (v >>> 1) &&& 0x70
  let d := (v >>> 2) &&& 0xf80
  let m := w16 (a + b + d)
  (m, cl % 256)

namespace Spec

/-- RFC 5389 figure 3, bit by bit: bits 0-3 = M0-M3, bit 4 = C0, bits 5-7 = M4-M6,
    bit 8 = C1, bits 9-13 = M7-M11, bits 14-15 = 0. Written with div/mod only. -/
def fig3 (m c : Nat) : Nat :=
  (m % 16) + 16 * (c % 2) + 32 * ((m / 16) % 8) + 256 * ((c / 2) % 2) + 512 * ((m / 128) % 32)

/-- inverse direction of figure 3: the method and class encoded in the low 14 bits -/
def fig3Method (v : Nat) : Nat := (v % 16) + 16 * ((v / 32) % 8) + 128 * ((v / 512) % 32)
def fig3Class (v : Nat) : Nat := (v / 16) % 2 + 2 * ((v / 256) % 2)

end Spec

/-- complete enumeration of `[lo, lo + 2^k)` by binary splitting (recursion depth k) -/
def allRange : Nat → Nat → (Nat → Bool) → Bool
  | 0, lo, p => p lo
  | k + 1, lo, p => allRange k lo p && allRange k (lo + 2 ^ k) p

theorem allRange_spec (k lo : Nat) (p : Nat → Bool) (h : allRange k lo p = true) :
    ∀ i, lo ≤ i → i < lo + 2 ^ k → p i = true := by
  induction k generalizing lo with
  | zero =>
    intro i h1 h2
    simp [allRange] at h
    have : i = lo := by omega
    subst this; exact h
  | succ k ih =>
    intro i h1 h2
    simp only [allRange, Bool.and_eq_true] at h
    have hp : 2 ^ (k + 1) = 2 ^ k + 2 ^ k := by omega
    by_cases hi : i < lo + 2 ^ k
    · exact ih lo h.1 i h1 hi
    · exact ih (lo + 2 ^ k) h.2 i (by omega) (by omega)

end Stun
