/-
  Model of message.go `(*Message).Decode` and attributes.go helpers, transliterated on Go-slice views
  (offset/length windows of a backing array whose capacity is `mem.length`), so that every slice expression of the
  Go code is a *checked* operation that can fail with `.panic`.
-/
import Stun.Basic.Bytes
import Stun.Model.MsgType
namespace Stun

def magicCookie : Nat := 0x2112A442
def attributeHeaderSize : Nat := 4
def messageHeaderSize : Nat := 20
def transactionIDSize : Nat := 12
def padding : Nat := 4

/-- attributes.go `nearestPaddedValueLength` -/
def nearestPaddedValueLength (l : Nat) : Nat :=
  let n := padding * (l / padding)
  if n < l then n + padding else n

/-- attributes.go `compatAttrType` -/
def compatAttrType (v : Nat) : Nat := if v = 0x8020 then 0x0020 else v

/-- message.go `IsMessage` -/
def isMessage (b : Bytes) : Bool :=
  decide (b.length ≥ messageHeaderSize) && (be32 (b.drop 4) == magicCookie)

inductive DecErr where
  | headerEOF   -- ErrUnexpectedHeaderEOF
  | cookie      -- DecodeErr message/cookie
  | msgSize     -- DecodeErr attribute/message
  | attrHeader  -- DecodeErr attribute/header
  | attrValue   -- DecodeErr attribute/value
deriving DecidableEq, Repr

inductive Outcome (α : Type) where
  | ok (a : α)
  | err (e : DecErr)
  | panic
deriving Repr

/-- a Go slice of the backing array `mem`: window `[off, off+len)`, capacity `mem.length - off` -/
structure Sl where
  off : Nat
  len : Nat
deriving Repr, DecidableEq

/-- `b[a:]` — Go checks `a ≤ len(b)` -/
def Sl.from? (b : Sl) (a : Nat) : Option Sl :=
  if a ≤ b.len then some ⟨b.off + a, b.len - a⟩ else none

/-- `b[:n]` — Go checks `n ≤ cap(b)`; `C` is the length of the backing array -/
def Sl.to? (b : Sl) (C n : Nat) : Option Sl :=
  if b.off + n ≤ C then some ⟨b.off, n⟩ else none

/-- `b[lo:hi]` — Go checks `lo ≤ hi ≤ cap(b)` -/
def Sl.sub? (b : Sl) (C lo hi : Nat) : Option Sl :=
  if lo ≤ hi ∧ b.off + hi ≤ C then some ⟨b.off + lo, hi - lo⟩ else none

/-- one attribute as `Decode` exposes it: type (after the 0x8020 alias), length field, and the value as a
    window of the message's own backing array -/
structure View where
  typ : Nat
  length : Nat
  val : Sl
deriving Repr, DecidableEq

/-- the `for offset < size` loop of `Decode`. Returns the attributes appended so far together with the outcome
    (Go keeps the partial list in `m.Attributes` when it returns an error). -/
def decodeLoop (mem : Bytes) (size : Nat) (offset : Nat) (b : Sl) (acc : List View) :
    List View × Outcome Unit :=
  if _h : offset < size then
    if b.len < attributeHeaderSize then (acc, .err .attrHeader) else
    -- b[0:2], b[2:4]
    match b.sub? mem.length 0 2, b.sub? mem.length 2 4 with
    | some t, some l =>
      let typ := compatAttrType (be16 (mem.drop t.off))
      let aL := be16 (mem.drop l.off)
      let aBuffL := nearestPaddedValueLength aL
      match b.from? attributeHeaderSize with
      | none => (acc, .panic)
      | some b1 =>
        let offset1 := offset + attributeHeaderSize
        if b1.len < aBuffL then (acc, .err .attrValue) else
        match b1.to? mem.length aL, b1.from? aBuffL with
        | some v, some b2 =>
          decodeLoop mem size (offset1 + aBuffL) b2 (acc ++ [⟨typ, aL, v⟩])
        | _, _ => (acc, .panic)
    | _, _ => (acc, .panic)
  else (acc, .ok ())
termination_by size - offset
decreasing_by simp [attributeHeaderSize]; omega

/-- header fields as `Decode` stores them -/
structure Header where
  method : Nat
  cls : Nat
  length : Nat
  tid : Bytes
deriving Repr, DecidableEq

structure Decoded where
  hdr : Header
  attrs : List View
deriving Repr, DecidableEq

/-- `(*Message).Decode` on `m.Raw` = window `[0, len)` of backing array `mem`.
    Result: what was stored into the struct before returning (`none` = nothing touched), and the outcome. -/
def decodeRaw (mem : Bytes) (len : Nat) : Option Decoded × Outcome Unit :=
  let buf : Sl := ⟨0, len⟩
  if buf.len < messageHeaderSize then (none, .err .headerEOF) else
  match buf.sub? mem.length 0 2, buf.sub? mem.length 2 4, buf.sub? mem.length 4 8 with
  | some t, some l, some c =>
    let msgType := be16 (mem.drop t.off)
    let size := be16 (mem.drop l.off)
    let cookie := be32 (mem.drop c.off)
    let fullSize := messageHeaderSize + size
    if cookie ≠ magicCookie then (none, .err .cookie) else
    if buf.len < fullSize then (none, .err .msgSize) else
    let (method, cls) := readValue msgType
    -- copy(m.TransactionID[:], buf[8:messageHeaderSize])
    match buf.sub? mem.length 8 messageHeaderSize, buf.sub? mem.length messageHeaderSize fullSize with
    | some tidS, some b =>
      let tid := (mem.drop tidS.off).take tidS.len
      let hdr : Header := ⟨method, cls, size, tid⟩
      let (attrs, out) := decodeLoop mem size 0 b []
      (some ⟨hdr, attrs⟩, out)
    | _, _ => (none, .panic)
  | _, _, _ => (none, .panic)

/-- the bytes a window denotes -/
def Sl.bytes (mem : Bytes) (s : Sl) : Bytes := (mem.drop s.off).take s.len

end Stun
