/-
  Model of uri.go `ParseURI` / `URI.String` and of exactly those parts of the Go standard library it can observe:
  net/url.Parse (control-byte check, fragment cut + escape validation, getScheme, lower-casing, the '?' handling,
  opaque vs. path form), net.SplitHostPort (all five error kinds), net.JoinHostPort, net/url.ParseQuery with
  QueryUnescape, strconv.Atoi / Itoa. Go strings are byte strings: `Str = List UInt8`.
  The standard-library parts are *modelled, not verified*; the correspondence compares them function by function.
-/
import Stun.Basic.Bytes
namespace Stun.URI

abbrev Str := Bytes

def chr (c : Char) : UInt8 := UInt8.ofNat c.toNat
def lit (s : String) : Str := s.toList.map chr

/-! ### strings helpers (strings.Cut, Contains, Count, HasPrefix/HasSuffix, ToLower on ASCII) -/

/-- `strings.Cut(s, sep)` for a one-byte separator: (before, after, found) -/
def cut (sep : UInt8) : Str → Str × Str × Bool
  | [] => ([], [], false)
  | c :: r => if c == sep then ([], r, true) else
      let (b, a, f) := cut sep r
      (c :: b, a, f)

def count (sep : UInt8) (s : Str) : Nat := (s.filter (· == sep)).length
def lastIndex (sep : UInt8) (s : Str) : Option Nat :=
  (s.zipIdx.filter (fun p => p.1 == sep)).getLast?.map (·.2)
def index (sep : UInt8) (s : Str) : Option Nat := s.findIdx? (· == sep)
def toLowerB (b : UInt8) : UInt8 := if 65 ≤ b.toNat ∧ b.toNat ≤ 90 then b + 32 else b
def isAlpha (b : UInt8) : Bool := (97 ≤ b.toNat && b.toNat ≤ 122) || (65 ≤ b.toNat && b.toNat ≤ 90)
def isDigit (b : UInt8) : Bool := 48 ≤ b.toNat && b.toNat ≤ 57
def isHex (b : UInt8) : Bool :=
  isDigit b || (97 ≤ b.toNat && b.toNat ≤ 102) || (65 ≤ b.toNat && b.toNat ≤ 70)
def hexVal (b : UInt8) : UInt8 :=
  if isDigit b then b - 48 else if 97 ≤ b.toNat then b - 97 + 10 else b - 65 + 10

/-! ### net/url -/

/-- `stringContainsCTLByte` -/
def containsCTL (s : Str) : Bool := s.any (fun b => b.toNat < 0x20 || b.toNat == 0x7f)

/-- `getScheme`: none = error "missing protocol scheme"; otherwise (scheme, rest) -/
def getSchemeAux (orig : Str) : Nat → Str → Str → Option (Str × Str)
  | _, _, [] => some ([], orig)
  | i, acc, c :: r =>
    if isAlpha c then getSchemeAux orig (i + 1) (acc ++ [c]) r
    else if isDigit c || c == chr '+' || c == chr '-' || c == chr '.' then
      if i == 0 then some ([], orig) else getSchemeAux orig (i + 1) (acc ++ [c]) r
    else if c == chr ':' then
      if i == 0 then none else some (acc, r)
    else some ([], orig)

def getScheme (s : Str) : Option (Str × Str) := getSchemeAux s 0 [] s

/-- a '%' that is not followed by two hex digits (what `unescape` rejects in every mode) -/
def badEscape : Str → Bool
  | [] => false
  | c :: r =>
    if c == chr '%' then
      match r with
      | a :: b :: r' => if isHex a && isHex b then badEscape r' else true
      | _ => true
    else badEscape r

/-- what `ParseURI` can observe of `url.Parse` -/
inductive UrlLite where
  | error                                              -- url.Parse returned an error
  | rootless (scheme opq rawQuery : Str)              -- rootless: Scheme (lower-cased), Opaque, RawQuery
  | other (scheme : Str)                               -- no scheme, or path/authority form: Opaque = ""
deriving DecidableEq, Repr

def urlParse (raw : Str) : UrlLite :=
  let (u, frag, _) := cut (chr '#') raw
  if containsCTL u then .error else
  if u == lit "*" then (if badEscape frag then .error else .other []) else
  match getScheme u with
  | none => .error
  | some (scheme, rest) =>
    let scheme := scheme.map toLowerB
    let (rest, rawQuery) :=
      if rest.getLast? == some (chr '?') && count (chr '?') rest == 1 then (rest.dropLast, [])
      else let (b, a, _) := cut (chr '?') rest; (b, a)
    if rest.head? ≠ some (chr '/') then
      if scheme ≠ [] then
        -- rootless path: opaque. The fragment is validated afterwards.
        if frag ≠ [] ∧ badEscape frag then .error else .rootless scheme rest rawQuery
      else .other []   -- (may also be an error; ParseURI rejects both: unknown scheme)
    else .other scheme -- path / authority form (may also be an error; ParseURI rejects both, see `parseURI`)

/-- `url.QueryUnescape`: '+' is a space, %XX is decoded; none on a malformed escape -/
def queryUnescape (s : Str) : Option Str :=
  if badEscape s then none else some (go s)
where go : Str → Str
  | [] => []
  | c :: r =>
    if c == chr '+' then chr ' ' :: go r
    else if c == chr '%' then
      match r with
      | a :: b :: r' => (hexVal a * 16 + hexVal b) :: go r'
      | _ => []
    else c :: go r

/-- `url.ParseQuery`: (values in first-seen key order, error seen) -/
def parseQueryAux (fuel : Nat) (q : Str) (m : List (Str × List Str)) (err : Bool) : List (Str × List Str) × Bool :=
  match fuel with
  | 0 => (m, err)
  | fuel + 1 =>
    if q == [] then (m, err) else
    let (key, rest, _) := cut (chr '&') q
    if key.contains (chr ';') then parseQueryAux fuel rest m true
    else if key == [] then parseQueryAux fuel rest m err
    else
      let (k, v, _) := cut (chr '=') key
      match queryUnescape k, queryUnescape v with
      | some k', some v' =>
        let m' := if m.any (·.1 == k') then m.map (fun p => if p.1 == k' then (p.1, p.2 ++ [v']) else p)
                  else m ++ [(k', [v'])]
        parseQueryAux fuel rest m' err
      | _, _ => parseQueryAux fuel rest m true

def parseQuery (q : Str) : List (Str × List Str) × Bool := parseQueryAux (q.length + 1) q [] false

/-- `Values.Get` -/
def valuesGet (m : List (Str × List Str)) (k : Str) : Str :=
  match m.lookup k with
  | some (v :: _) => v
  | _ => []

/-! ### net.SplitHostPort / JoinHostPort -/

inductive SplitErr where
  | missingPort | tooManyColons | missingBracket | unexpectedOpen | unexpectedClose
deriving DecidableEq, Repr

def splitHostPort (hp : Str) : Except SplitErr (Str × Str) :=
  match lastIndex (chr ':') hp with
  | none => .error .missingPort
  | some i =>
    let finish (host : Str) (j k : Nat) : Except SplitErr (Str × Str) :=
      if (hp.drop j).contains (chr '[') then .error .unexpectedOpen
      else if (hp.drop k).contains (chr ']') then .error .unexpectedClose
      else .ok (host, hp.drop (i + 1))
    if hp.head? == some (chr '[') then
      match index (chr ']') hp with
      | none => .error .missingBracket
      | some e =>
        if e + 1 == hp.length then .error .missingPort
        else if e + 1 == i then finish ((hp.drop 1).take (e - 1)) 1 (e + 1)
        else if hp.getD (e + 1) 0 == chr ':' then .error .tooManyColons
        else .error .missingPort
    else
      let host := hp.take i
      if host.contains (chr ':') then .error .tooManyColons else finish host 0 0

def joinHostPort (host port : Str) : Str :=
  if host.contains (chr ':') then [chr '['] ++ host ++ [chr ']', chr ':'] ++ port
  else host ++ [chr ':'] ++ port

/-! ### strconv -/

/-- `strconv.Atoi`: optional sign, decimal digits, int64 range -/
def atoi (s : Str) : Option Int :=
  let (neg, digits) :=
    match s with
    | c :: r => if c == chr '-' then (true, r) else if c == chr '+' then (false, r) else (false, s)
    | [] => (false, [])
  if digits == [] || !digits.all isDigit then none else
  let n : Nat := digits.foldl (fun acc d => acc * 10 + (d.toNat - 48)) 0
  if neg then (if n ≤ 9223372036854775808 then some (-(n : Int)) else none)
  else (if n ≤ 9223372036854775807 then some (n : Int) else none)

def itoaNat (n : Nat) : Str := (toString n).toList.map chr
def itoa (i : Int) : Str := if i < 0 then chr '-' :: itoaNat i.natAbs else itoaNat i.natAbs

/-! ### uri.go -/

inductive Scheme where | stun | stuns | turn | turns
deriving DecidableEq, Repr
inductive Proto where | udp | tcp
deriving DecidableEq, Repr

def newSchemeType (s : Str) : Option Scheme :=
  if s == lit "stun" then some .stun else if s == lit "stuns" then some .stuns
  else if s == lit "turn" then some .turn else if s == lit "turns" then some .turns else none

def Scheme.str : Scheme → Str
  | .stun => lit "stun" | .stuns => lit "stuns" | .turn => lit "turn" | .turns => lit "turns"
def Proto.str : Proto → Str
  | .udp => lit "udp" | .tcp => lit "tcp"
def newProtoType (s : Str) : Option Proto :=
  if s == lit "udp" then some .udp else if s == lit "tcp" then some .tcp else none

structure URI where
  scheme : Scheme
  host : Str
  port : Int
  proto : Proto
deriving DecidableEq, Repr

inductive UErr where
  | urlParse | schemeType | split (e : SplitErr) | host | port | stunQuery | invalidQuery | protoType
deriving DecidableEq, Repr

def Scheme.defaultPort : Scheme → Str
  | .stun | .turn => lit ":3478"
  | .stuns | .turns => lit ":5349"

/-- `parseProto` -/
def parseProto (raw : Str) : Except UErr (Option Proto) :=
  let (q, err) := parseQuery raw
  if err || q.length > 1 then .error .invalidQuery else
  let rawProto := valuesGet q (lit "transport")
  if rawProto ≠ [] then
    match newProtoType rawProto with
    | none => .error .protoType
    | some p => .ok (some p)
  else if q.length > 0 then .error .invalidQuery else .ok none

/-- `ParseURI` as repaired: the default-port retry is taken at most once (`retry`), and the port must be in
    0..65535 -/
def parseURI (retry : Bool) (raw : Str) : Except UErr URI :=
  match urlParse raw with
  | .error => .error .urlParse
  | .other scheme =>
    match newSchemeType scheme with
    | none => .error .schemeType
    | some _ => .error .host   -- Opaque = "": missing port, retried with ":<default>", then the host is empty
  | .rootless scheme opq rawQuery =>
    match newSchemeType scheme with
    | none => .error .schemeType
    | some sch =>
      match splitHostPort opq with
      | .error .missingPort =>
        if retry then
          let next := sch.str ++ [chr ':'] ++ opq ++ sch.defaultPort ++
            (if rawQuery ≠ [] then [chr '?'] ++ rawQuery else [])
          parseURI false next
        else .error (.split .missingPort)
      | .error e => .error (.split e)
      | .ok (host, rawPort) =>
        if host == [] then .error .host else
        match atoi rawPort with
        | none => .error .port
        | some port =>
          if port < 0 ∨ port > 65535 then .error .port else
          match sch with
          | .stun =>
            let (q, err) := parseQuery rawQuery
            if err || q.length > 0 then .error .stunQuery else .ok ⟨sch, host, port, .udp⟩
          | .stuns =>
            let (q, err) := parseQuery rawQuery
            if err || q.length > 0 then .error .stunQuery else .ok ⟨sch, host, port, .tcp⟩
          | .turn =>
            match parseProto rawQuery with
            | .error e => .error e
            | .ok p => .ok ⟨sch, host, port, p.getD .udp⟩
          | .turns =>
            match parseProto rawQuery with
            | .error e => .error e
            | .ok p => .ok ⟨sch, host, port, p.getD .tcp⟩
termination_by (if retry then 1 else 0 : Nat)
decreasing_by simp_all

/-- `URI.String` -/
def URI.toStr (u : URI) : Str :=
  u.scheme.str ++ [chr ':'] ++ joinHostPort u.host (itoa u.port) ++
  (match u.scheme with
   | .turn | .turns => lit "?transport=" ++ u.proto.str
   | _ => [])

end Stun.URI
