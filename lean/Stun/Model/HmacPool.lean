/-
  Model of internal/hmac/hmac.go and pool.go: the pooled HMAC object, parametric in the hash function `H` and its
  block size `B`. A hash state is modelled by the bytes it has absorbed; `MarshalBinary` captures exactly that.
  `ipad`/`opad` hold either a padded key or a marshaled hash state (as in the Go struct); using one where the other
  is expected is what Go reports as an unmarshal error (panic) or silently hashes as data — the model flags it `broken`.
-/
import Stun.Basic.Bytes
namespace Stun

inductive Pad where
  | key (b : Bytes)        -- key xor 0x36 / 0x5c, block-sized
  | state (abs : Bytes)    -- marshaled hash state (the bytes absorbed so far)
deriving DecidableEq, Repr

structure Hmac where
  ipad : Pad
  opad : Pad
  inner : Bytes            -- absorbed by the inner hash
  outer : Bytes            -- absorbed by the outer hash
  marshaled : Bool
  broken : Bool := false   -- a pad was used in the wrong role (Go: unmarshal error → panic, or garbage hashed)
deriving DecidableEq, Repr

namespace Hmac
variable (H : Bytes → Bytes) (B : Nat)

def zerosB (n : Nat) : Bytes := List.replicate n 0

/-- `copy(pad, key)` into a zeroed block, then xor every byte with `x` -/
def mkPad (B : Nat) (key : Bytes) (x : UInt8) : Bytes :=
  ((key.take B) ++ zerosB (B - (key.take B).length)).map (· ^^^ x)

/-- pool.go `resetTo`: from *any* previous state of the object -/
def resetTo (_h : Hmac) (key : Bytes) : Hmac :=
  -- outer.Reset(); inner.Reset(); pads re-sized and zeroed
  let key' := if key.length > B then H key else key     -- outer.Write(key); key = outer.Sum(nil)
  let outerAbs := if key.length > B then key else []
  let ip := mkPad B key' 0x36
  let op := mkPad B key' 0x5c
  { ipad := .key ip, opad := .key op, inner := ip, outer := outerAbs, marshaled := false, broken := false }

/-- hmac.go `New` -/
def new (key : Bytes) : Hmac :=
  resetTo H B { ipad := .key [], opad := .key [], inner := [], outer := [], marshaled := false } key

/-- hmac.go `Write` -/
def write (h : Hmac) (p : Bytes) : Hmac := { h with inner := h.inner ++ p }

/-- hmac.go `Sum(in)`: returns the object and the digest appended to `in` -/
def sum (h : Hmac) (inp : Bytes) : Hmac × Bytes :=
  let innerDigest := H h.inner
  let (outer0, bad) :=
    if h.marshaled then
      match h.opad with
      | .state abs => (abs, false)        -- outer.UnmarshalBinary(opad)
      | .key _ => ([], true)              -- unmarshal error
    else
      match h.opad with
      | .key b => (b, false)              -- outer.Reset(); outer.Write(opad)
      | .state _ => ([], true)            -- a marshaled state hashed as data
  let outer1 := outer0 ++ innerDigest
  ({ h with outer := outer1, broken := h.broken || bad }, inp ++ H outer1)

/-- hmac.go `Reset` -/
def reset (h : Hmac) : Hmac :=
  if h.marshaled then
    match h.ipad with
    | .state abs => { h with inner := abs }
    | .key _ => { h with broken := true }
  else
    match h.ipad, h.opad with
    | .key ib, .key ob =>
      -- inner.Reset(); inner.Write(ipad); marshal both; keep the marshaled states in place of the pads
      { h with inner := ib, outer := ob, ipad := .state ib, opad := .state ob, marshaled := true }
    | _, _ => { h with broken := true }

end Hmac

inductive HOp where
  | write (p : Bytes)
  | sum (inp : Bytes)
  | reset
deriving Repr

end Stun
