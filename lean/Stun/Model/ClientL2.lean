/-
  L2 refinement of the client model: a retransmission's `Connection.Write` is a point at which the collector
  goroutine can be suspended while other goroutines (the reader, callers of Start/Close) run.

  `handleAgentCallback` is cut at that point into `retransmitBegin` (entry found and removed, attempt advanced,
  transaction re-registered with client and agent, `Write` entered) and `retransmitEnd` (`Write` returned).
  `retransmit_split` proves that running the two halves back to back is the L1 `retransmit`, so L1 is exactly the L2
  behaviour of connections whose writes never block (`step2_l1`).
  Transaction objects are pooled in the real client (`sync.Pool`). As long as every object is owned by at most one
  transaction its identity is unobservable and this by-value model is exact. Defect K1 (repaired in /repo, 7f44929)
  broke that ownership exactly here: the transaction was completed (handled and `Put`) by the reader while the
  collector was suspended in `Write`, and when the `Write` then failed the error path handled and `Put` the same
  object again. The repaired code finishes the transaction on a write error only if it is still the one registered
  under its id (`deleteIfCurrent`), which is what `release` models.
  `Start`'s own first write is cut the same way (`startBegin` / `startEnd`, `start_split`). Here the pinned code has
  a window it cannot close by itself: if the response arrives while that first `Write` is in flight and the `Write`
  then fails, `Start` returns an error although the handler has already run (known finding F12).
-/
import Stun.Model.Client
namespace Stun

/-- a retransmission whose `Connection.Write` has been entered and has not returned -/
inductive SuspKind where
  | retransmit   -- the collector goroutine, inside handleAgentCallback, at Connection.Write
  | agentStart   -- the collector goroutine, inside handleAgentCallback, at ClientAgent.Start (before the write)
  | start        -- a caller's goroutine, inside Client.Start
deriving DecidableEq, Repr

structure Susp where
  kind : SuspKind := .retransmit
  h : Nat
  id : TID
  /-- the entry as re-registered by the first half (attempt already advanced) -/
  tx : Txn
  /-- the agent deadline, computed from the clock BEFORE the transaction is registered again (so a clock that moves
      while the collector is suspended does not change it) -/
  deadline : Nat := 0
  /-- the events of the same `Collect` that the collector goroutine has not handled yet: it handles them one after
      the other, so they wait for this `Write` -/
  rest : List (TID × CEv) := []
deriving DecidableEq, Repr

namespace Client

/-- `retransmit` up to the point where `Connection.Write` is entered -/
def retransmitBegin (c : Client) (tx : Txn) (id : TID) : Client × List COut × Option Susp :=
  let tx' := { tx with attempt := tx.attempt + 1 }
  let c1 := c.insert tx'
  let r := c1.agent.start id (nextTimeout tx' c1.now)
  match r.2 with
  | some err => (c1.erase id, [.call tx.h id (if err == .closed then .agentClosed else .exists)], none)
  | none => ({ c1 with agent := r.1 }, [.write tx.raw (some tx.h)], some { h := tx.h, id := id, tx := { tx with attempt := tx.attempt + 1 } })

/-- … and from the point where it returns (`ok`: without error) -/
def retransmitEnd (c : Client) (s : Susp) (ok : Bool) : Client × List COut :=
  if ok then (c, []) else
  let c3 := c.erase s.id
  let st := c3.agent.stop s.id
  ({ c3 with agent := st.1 }, [.call s.h s.id (if st.2.1.isSome then .stopErr else .writeErr)])

/-- the retransmission up to the point where `ClientAgent.Start` is entered: the entry has been found and removed,
    the attempt advanced and the transaction registered with the client again -/
def retransmitPre (c : Client) (tx : Txn) (id : TID) : Client × Susp :=
  let tx' := { tx with attempt := tx.attempt + 1 }
  (c.insert tx', { kind := .agentStart, h := tx.h, id := id, tx := tx', deadline := nextTimeout tx' c.now })

/-- … and from there on; `inject`: the agent's `Start` fails (a custom ClientAgent may; the stock Agent does when it
    was closed meanwhile). On an error the client finishes the transaction only if it is still the one registered
    under its id. The write that follows a successful `Start` does not block here. -/
def retransmitPost (c1 : Client) (s : Susp) (inject : Bool) : Client × List COut :=
  let stale := c1.lookup s.id != some s.tx
  let r := c1.agent.start s.id s.deadline
  let err : Option AErr := if inject then some .closed else r.2
  match err with
  | some e =>
    if stale then (c1, []) else
    (c1.erase s.id, [.call s.h s.id (if e == .closed then .agentClosed else .exists)])
  | none =>
    let w := ({ c1 with agent := r.1 }).connWrite s.tx.raw
    if w.2 then (w.1, [.write s.tx.raw (some s.h)])
    else
      let stale2 := w.1.lookup s.id != some s.tx
      if stale2 then (w.1, [.write s.tx.raw (some s.h)]) else
      let c3 := w.1.erase s.id
      let st := c3.agent.stop s.id
      ({ c3 with agent := st.1 },
        [.write s.tx.raw (some s.h), .call s.h s.id (if st.2.1.isSome then .stopErr else .writeErr)])

/-- `Start` with a handler up to the point where `Connection.Write` is entered -/
def startBegin (c : Client) (id : TID) (raw : Bytes) (h : Nat) : Client × Option CErr × List COut × Option Susp :=
  if c.closed then (c, some .clientClosed, [], none) else
  let tx : Txn := ⟨id, 0, c.rto, raw, h, c.now⟩
  let d := nextTimeout tx tx.start
  if (c.lookup id).isSome then (c, some .exists, [], none) else
  let c := c.insert tx
  match c.agent.start id d with
  | (_, some err) => (c.erase id, some (if err == .closed then .agentClosed else .exists), [], none)
  | (a, none) => ({ c with agent := a }, none, [.write raw (some h)], some { kind := .start, h := h, id := id, tx := tx })

/-- … and from the point where it returns: on an error `Start` deletes by id, stops the agent transaction and
    returns the error (it does not touch the handler) -/
def startEnd (c : Client) (s : Susp) (ok : Bool) : Client × Option CErr :=
  if ok then (c, none) else
  let c3 := c.erase s.id
  let st := c3.agent.stop s.id
  ({ c3 with agent := st.1 }, some (if st.2.1.isSome then .stopErr else .write))

/-- back to back the two halves are the L1 `Start` -/
theorem start_split (c : Client) (id : TID) (raw : Bytes) (h : Nat) :
    c.start id raw (some h) =
      match startBegin c id raw h with
      | (c1, e, o1, none) => (c1, e, o1)
      | (c1, _, o1, some s) =>
        let w := c1.connWrite raw
        let r := startEnd w.1 s w.2
        (r.1, r.2, o1) := by
  unfold start startBegin startEnd
  by_cases hc : c.closed = true
  · simp [hc]
  · simp only [hc, Bool.false_eq_true, if_false]
    by_cases hl : (c.lookup id).isSome = true
    · simp [hl]
    · simp only [hl, Bool.false_eq_true, if_false]
      generalize ((c.insert ⟨id, 0, c.rto, raw, h, c.now⟩).agent.start id
        (nextTimeout ⟨id, 0, c.rto, raw, h, c.now⟩ (⟨id, 0, c.rto, raw, h, c.now⟩ : Txn).start)) = r
      obtain ⟨a, e⟩ := r
      cases e with
      | some err => rfl
      | none =>
        simp only
        split <;> simp_all

/-- the two halves back to back, with the scripted connection deciding the write, are the L1 retransmission -/
theorem retransmit_split (c : Client) (tx : Txn) (id : TID) :
    retransmit c tx id =
      match retransmitBegin c tx id with
      | (c1, o1, none) => (c1, o1)
      | (c1, o1, some s) =>
        let w := c1.connWrite tx.raw
        let r := retransmitEnd w.1 s w.2
        (r.1, o1 ++ r.2) := by
  unfold retransmit retransmitBegin retransmitEnd
  simp only
  generalize ((c.insert { tx with attempt := tx.attempt + 1 }).agent.start id
    (nextTimeout { tx with attempt := tx.attempt + 1 } (c.insert { tx with attempt := tx.attempt + 1 }).now)) = r
  obtain ⟨a, e⟩ := r
  cases e with
  | some err => rfl
  | none =>
    simp only
    split <;> simp_all

end Client

structure Client2 where
  c : Client := {}
  /-- scripted connection: the next retransmission write of a listed id blocks (one entry per occurrence) -/
  blockIds : List TID := []
  /-- scripted agent: the next `ClientAgent.Start` of a listed id (from a retransmission) blocks -/
  blockAgentIds : List TID := []
  /-- writes entered and not yet returned, oldest first -/
  susp : List Susp := []
deriving Repr

namespace Client2

def lift (k : Client2) (r : Client × List COut) : Client2 × List COut := ({ k with c := r.1 }, r.2)

/-- `handleAgentCallback` on a connection whose writes may block; the flag says that the call is now suspended -/
def callback (k : Client2) (id : TID) (e : CEv) : Client2 × List COut × Bool :=
  let c := k.c
  let l1 := (k.lift (c.callback id e))
  match c.lookup id with
  | none => (l1.1, l1.2, false)
  | some tx =>
    if c.closed || c.maxAttempts ≤ tx.attempt || e.isMsg then (l1.1, l1.2, false)
    else if k.blockAgentIds.contains id then
      let r := Client.retransmitPre (c.erase id) tx id
      ({ k with c := r.1, blockAgentIds := k.blockAgentIds.erase id, susp := k.susp ++ [r.2] }, [], true)
    else if k.blockIds.contains id then
      match Client.retransmitBegin (c.erase id) tx id with
      | (c1, o1, none) => ({ k with c := c1 }, o1, false)
      | (c1, o1, some s) => ({ k with c := c1, blockIds := k.blockIds.erase id, susp := k.susp ++ [s] }, o1, true)
    else (l1.1, l1.2, false)

/-- the handler calls of one `Collect`, in order; a suspended call keeps the remaining events waiting -/
def callbacks (k : Client2) : List (TID × CEv) → Client2 × List COut
  | [] => (k, [])
  | (id, e) :: r =>
    match k.callback id e with
    | (k1, o1, true) =>
      ({ k1 with susp := k1.susp.dropLast ++ (k1.susp.getLast?.map (fun s => { s with rest := r })).toList }, o1)
    | (k1, o1, false) =>
      let (k2, o2) := callbacks k1 r
      (k2, o1 ++ o2)

/-- the collector fires -/
def tick (k : Client2) (t : Nat) : Client2 × List COut :=
  let c := { k.c with now := t }
  let (a, _, evs) := c.agent.collect t
  ({ k with c := { c with agent := a } }).callbacks (evs.map (fun (e : AEvent) => (e.id, CEv.timeout)))

/-- the oldest blocked `Write` returns; the collector goroutine then handles the events that were waiting -/
def release (k : Client2) (ok : Bool) : Client2 × List COut :=
  match k.susp with
  | [] => (k, [])
  | s :: rest =>
    -- `deleteIfCurrent`: did somebody else complete this transaction while the collector was inside Write?
    let stale := k.c.lookup s.id != some s.tx
    let (k1, o1) :=
      if s.kind == .agentStart then ({ k with susp := rest }).lift (Client.retransmitPost k.c s (!ok))
      else if !ok && stale then ({ k with susp := rest }, [])
      else ({ k with susp := rest }).lift (Client.retransmitEnd k.c s ok)
    let (k2, o2) := k1.callbacks s.rest
    (k2, o1 ++ o2)

/-- `Start` whose first write blocks -/
def startBlocked (k : Client2) (id : TID) (raw : Bytes) (h : Nat) : Client2 × Option CErr × List COut :=
  match Client.startBegin k.c id raw h with
  | (c1, e, o1, none) => ({ k with c := c1 }, e, o1)
  | (c1, _, o1, some s) => ({ k with c := c1, susp := k.susp ++ [s] }, none, o1)

/-- the oldest suspended call is a `Start`: its write returns, and so does `Start` -/
def releaseStart (k : Client2) (ok : Bool) : Client2 × Option CErr :=
  match k.susp with
  | [] => (k, none)
  | s :: rest => let r := Client.startEnd k.c s ok; ({ k with c := r.1, susp := rest }, r.2)

end Client2

inductive COp2 where
  | l1 (op : COp)                        -- any L1 operation; ticks use the blocking-aware callback
  | blockWrite (id : TID)
  | blockAgent (id : TID)
  | release (ok : Bool)
  | startBlocked (id : TID) (raw : Bytes) (h : Nat)   -- Start whose first write blocks (returns at `release`)
  | deliverDecoded (tid : TID) (raw : Bytes)   -- a datagram that decoded to this id (the reader's Process + callback)
deriving Repr

def Client2.step (k : Client2) : COp2 → Client2 × Option CErr × List COut
  | .l1 (.tick t) => let r := k.tick t; (r.1, none, r.2)
  | .l1 op => let r := k.c.step op; ({ k with c := r.1 }, r.2.1, r.2.2)
  | .blockWrite id => ({ k with blockIds := k.blockIds ++ [id] }, none, [])
  | .blockAgent id => ({ k with blockAgentIds := k.blockAgentIds ++ [id] }, none, [])
  | .release ok =>
    if (k.susp.head?.map (·.kind)) == some SuspKind.start then let r := k.releaseStart ok; (r.1, r.2, [])
    else let r := k.release ok; (r.1, none, r.2)
  | .startBlocked id raw h => k.startBlocked id raw h
  | .deliverDecoded tid raw => let r := k.c.deliverDecoded tid raw; ({ k with c := r.1 }, none, r.2)

def Client2.run (k : Client2) : List COp2 → Client2 × List COut
  | [] => (k, [])
  | op :: r =>
    let s := k.step op
    let t := Client2.run s.1 r
    (t.1, s.2.2 ++ t.2)

end Stun
