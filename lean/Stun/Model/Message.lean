/-
  Model of message.go / helpers.go: the Message struct with its raw buffer *including spare capacity*
  (`mem` is the whole backing array, `len` the visible length), and the building / copying operations,
  transliterated statement by statement in Go's order of effects.
-/
import Stun.Model.Decode
namespace Stun

/-- attributes.go `RawAttribute` with value semantics (the bytes the `Value` view shows) -/
structure RawAttr where
  typ : Nat
  length : Nat
  val : Bytes
deriving Repr, DecidableEq

structure Msg where
  method : Nat := 0
  cls : Nat := 0
  length : Nat := 0        -- uint32
  tid : Bytes := List.replicate 12 0
  attrs : List RawAttr := []
  mem : Bytes := []        -- backing array of Raw, index 0 .. cap
  len : Nat := 0           -- len(Raw)
deriving Repr, DecidableEq

namespace Msg

/-- the visible bytes `m.Raw` -/
def raw (m : Msg) : Bytes := m.mem.take m.len
def cap (m : Msg) : Nat := m.mem.length
/-- what lies in the backing array beyond `len(Raw)`: data of earlier uses -/
def spare (m : Msg) : Bytes := m.mem.drop m.len

def zeros (n : Nat) : Bytes := List.replicate n 0

/-- overwrite `data.length` bytes of `mem` at `pos` (Go `copy`/`PutUintXX` into an in-range window) -/
def writeAt (mem : Bytes) (pos : Nat) (data : Bytes) : Bytes :=
  mem.take pos ++ data ++ mem.drop (pos + data.length)

def w32 (n : Nat) : Nat := n % 4294967296

/-- message.go `Reset` -/
def reset (m : Msg) : Msg := { m with len := 0, length := 0, attrs := [] }

/-- message.go `grow`. When the capacity does not suffice Go appends `n-len` zero bytes into a new array whose
    capacity the runtime picks (its tail is zero-filled memory); the model picks capacity exactly `n`. -/
def grow (m : Msg) (n : Nat) : Msg :=
  if m.len ≥ n then m
  else if m.mem.length ≥ n then { m with len := n }
  else { m with mem := m.mem.take m.len ++ zeros (n - m.len), len := n }

/-- message.go `WriteLength` -/
def writeLength (m : Msg) : Msg :=
  let m := m.grow 4
  { m with mem := writeAt m.mem 2 (put16 m.length) }

/-- message.go `WriteType` -/
def writeType (m : Msg) : Msg :=
  let m := m.grow 2
  { m with mem := writeAt m.mem 0 (put16 (typeValue m.method m.cls)) }

/-- message.go `WriteTransactionID` (needs cap ≥ 20; callers guarantee it) -/
def writeTransactionID (m : Msg) : Msg :=
  { m with mem := writeAt m.mem 8 m.tid }

/-- message.go `WriteHeader` -/
def writeHeader (m : Msg) : Msg :=
  let m := m.grow messageHeaderSize
  let m := m.writeType
  let m := m.writeLength
  let m := { m with mem := writeAt m.mem 4 (put32 magicCookie) }
  { m with mem := writeAt m.mem 8 m.tid }

/-- message.go `Add`, first half: reserve room for the TLV and write type, length and value -/
def addHead (m : Msg) (t : Nat) (v : Bytes) : Msg :=
  let allocSize := attributeHeaderSize + v.length
  let first := messageHeaderSize + m.length
  let last := first + allocSize
  let m := m.grow last
  let m := { m with len := last }
  let m := { m with length := w32 (m.length + allocSize) }
  let aLen := v.length % 65536      -- uint16(len(val))
  let m := { m with mem := writeAt m.mem first (put16 t) }
  let m := { m with mem := writeAt m.mem (first + 2) (put16 aLen) }
  { m with mem := writeAt m.mem (first + 4) v }

/-- message.go `Add`, the `if attr.Length%padding != 0` block: `last` is the current end of the TLV -/
def addPad (m : Msg) (v : Bytes) (last : Nat) : Msg :=
  let bytesToAdd := nearestPaddedValueLength v.length - v.length
  let last := last + bytesToAdd
  let m := m.grow last
  let m := { m with mem := writeAt m.mem (last - bytesToAdd) (zeros bytesToAdd) }
  let m := { m with len := last }
  { m with length := w32 (m.length + bytesToAdd) }

/-- message.go `Add` -/
def add (m : Msg) (t : Nat) (v : Bytes) : Msg :=
  let last := messageHeaderSize + m.length + (attributeHeaderSize + v.length)
  let aLen := v.length % 65536
  let m := m.addHead t v
  let m := if aLen % padding ≠ 0 then m.addPad v last else m
  let m := { m with attrs := m.attrs ++ [(⟨t, aLen, v⟩ : RawAttr)] }
  m.writeLength

/-- message.go `WriteAttributes`: re-adds every attribute, then puts the original list back -/
def writeAttributes (m : Msg) : Msg :=
  let attributes := m.attrs
  let m := { m with attrs := [] }
  let m := attributes.foldl (fun m a => m.add a.typ a.val) m
  { m with attrs := attributes }

/-- message.go `SetType` -/
def setType (m : Msg) (method cls : Nat) : Msg :=
  ({ m with method := method, cls := cls }).writeType

/-- message.go `Encode` -/
def encode (m : Msg) : Msg :=
  let m := { m with len := 0 }
  let m := m.writeHeader
  let m := { m with length := 0 }
  m.writeAttributes

/-- `m.Raw = append(m.Raw[:0], data...)` -/
def setRaw (m : Msg) (data : Bytes) : Msg :=
  if data.length ≤ m.mem.length then
    { m with mem := data ++ m.mem.drop data.length, len := data.length }
  else { m with mem := data, len := data.length }

def viewToAttr (mem : Bytes) (v : View) : RawAttr := ⟨v.typ, v.length, v.val.bytes mem⟩

/-- message.go `(*Message).Decode`: stores what Go stores before returning, returns the outcome -/
def decode (m : Msg) : Msg × Outcome Unit :=
  match decodeRaw m.mem m.len with
  | (none, out) => (m, out)
  | (some d, out) =>
    ({ m with method := d.hdr.method, cls := d.hdr.cls, length := d.hdr.length, tid := d.hdr.tid,
              attrs := d.attrs.map (viewToAttr m.mem) }, out)

/-- `Decode(data, m)`, `Write`, `UnmarshalBinary`, `GobDecode` -/
def decodeFrom (m : Msg) (data : Bytes) : Msg × Outcome Unit := (m.setRaw data).decode

/-- `ReadFrom` with a reader that delivers `chunk` (at most cap bytes) without error -/
def readFrom (m : Msg) (chunk : Bytes) : Msg × Outcome Unit :=
  let chunk := chunk.take m.mem.length
  ({ m with mem := chunk ++ m.mem.drop chunk.length, len := chunk.length }).decode

/-- `m.CloneTo(b)` -/
def cloneTo (m b : Msg) : Msg × Outcome Unit := b.decodeFrom m.raw

/-- attributes.go `Attributes.Get` / `Message.Get` -/
def get (m : Msg) (t : Nat) : Option Bytes := (m.attrs.find? (fun a => a.typ == t)).map (·.val)

/-- message.go `Contains` -/
def contains (m : Msg) (t : Nat) : Bool := m.attrs.any (fun a => a.typ == t)

/-- attributes.go `RawAttribute.Equal` -/
def attrEq (a b : RawAttr) : Bool := a.typ == b.typ && a.length == b.length && a.val == b.val

/-- message.go `attrSliceEqual` -/
def attrSliceEqual (a b : List RawAttr) : Bool :=
  a.all (fun x => b.any (fun y => y.typ == x.typ && attrEq y x))

/-- message.go `attrEqual` (as repaired: lengths are compared, nil-ness is not) and `Equal` -/
def equal (m n : Msg) : Bool :=
  m.method == n.method && m.cls == n.cls && m.tid == n.tid && m.length == n.length &&
  m.attrs.length == n.attrs.length && attrSliceEqual m.attrs n.attrs && attrSliceEqual n.attrs m.attrs

/-- helpers.go `ForEach`. The callback may do anything to the message and may fail. Returns the final message,
    whether an error was returned, and the attribute windows the callback was shown. -/
def forEachAux (orig : List RawAttr) (t : Nat) (f : Msg → Msg × Bool) :
    List RawAttr → Msg → List (List RawAttr) → Msg × Bool × List (List RawAttr)
  | [], m, seen => ({ m with attrs := orig }, false, seen)
  | a :: rest, m, seen =>
    if a.typ ≠ t then forEachAux orig t f rest m seen
    else
      let (m', failed) := f { m with attrs := a :: rest }
      if failed then ({ m' with attrs := orig }, true, seen ++ [a :: rest])
      else forEachAux orig t f rest m' (seen ++ [a :: rest])

def forEach (m : Msg) (t : Nat) (f : Msg → Msg × Bool) : Msg × Bool × List (List RawAttr) :=
  forEachAux m.attrs t f m.attrs m []

end Msg
end Stun
