/-
  L1 (atomic-operation) model of client.go: Client + Agent + scripted connection, clock and collector.
  Each event of a history (`COp`) runs to completion before the next one starts, which is how the correspondence
  harness drives the real client (reader goroutine synchronised on "next Read entered", manual collector, virtual
  clock). `handleAgentCallback` is transliterated branch by branch.
  What this level cannot exhibit: interleavings inside one event (see DESIGN: L2 / known finding K1).
-/
import Stun.Model.Agent
import Stun.Model.Message
namespace Stun

/-- what a handler is told -/
inductive CEv where
  | msg (raw : Bytes)      -- Event.Message (Error == nil): the reader's decoded datagram
  | timeout                -- ErrTransactionTimeOut
  | agentClosed            -- ErrAgentClosed
  | stopped                -- ErrTransactionStopped
  | writeErr               -- the connection's write error
  | exists                 -- ErrTransactionExists
  | stopErr                -- StopErr{Err, Cause}
deriving DecidableEq, Repr

inductive COut where
  | write (raw : Bytes) (h : Option Nat) -- Connection.Write; ghost: the handler of the transaction it belongs to
  | call (h : Nat) (id : TID) (e : CEv) -- a transaction handler invoked
  | fallback (id : TID) (e : CEv)       -- the WithHandler handler invoked
  | connClose                           -- Connection.Close
deriving DecidableEq, Repr

inductive CErr where
  | clientClosed | exists | agentClosed | write | stopErr | closeErr
deriving DecidableEq, Repr

structure Txn where
  id : TID
  attempt : Nat
  rto : Nat
  raw : Bytes
  h : Nat
  start : Nat
deriving DecidableEq, Repr

structure Client where
  closed : Bool := false
  rto : Nat := 300000000
  maxAttempts : Nat := 7
  closeConn : Bool := true
  hasFallback : Bool := false
  t : List (TID × Txn) := []
  agent : Agent := {}
  now : Nat := 0
  /-- scripted connection: writes whose transaction id is listed fail, once per listed occurrence -/
  failIds : List TID := []
  connCloseErr : Bool := false
  agentCloseErr : Bool := false
deriving Repr

namespace Client

def lookup (c : Client) (id : TID) : Option Txn := (c.t.find? (fun p => p.1 == id)).map (·.2)
def erase (c : Client) (id : TID) : Client := { c with t := c.t.filter (fun p => p.1 != id) }
def insert (c : Client) (tx : Txn) : Client := { c with t := c.t ++ [(tx.id, tx)] }

/-- the transaction id a datagram carries (bytes 8..20), used by the scripted connection -/
def idOfRaw (raw : Bytes) : TID := (raw.drop 8).take 12

/-- `Connection.Write`: fails if the scripted failure list names this transaction id (consuming one entry).
    Returns the client and whether the write succeeded; the write itself is `COut.write raw h`. -/
def connWrite (c : Client) (raw : Bytes) : Client × Bool :=
  if c.failIds.contains (idOfRaw raw) then ({ c with failIds := c.failIds.erase (idOfRaw raw) }, false)
  else (c, true)

/-- `clientTransaction.nextTimeout(now)` -/
def nextTimeout (tx : Txn) (now : Nat) : Nat := now + (tx.attempt + 1) * tx.rto

def _root_.Stun.CEv.isMsg : CEv → Bool
  | .msg _ => true
  | _ => false

/-- the re-transmission part of `handleAgentCallback`; `c` is the client after the found entry was removed -/
def retransmit (c : Client) (tx : Txn) (id : TID) : Client × List COut :=
  let tx' := { tx with attempt := tx.attempt + 1 }
  -- c.start(transaction): cannot fail here (not closed, entry just removed)
  let c1 := c.insert tx'
  let r := c1.agent.start id (nextTimeout tx' c1.now)
  match r.2 with
  | some err =>
    (c1.erase id, [.call tx.h id (if err == .closed then .agentClosed else .exists)])
  | none =>
    let w := ({ c1 with agent := r.1 }).connWrite tx.raw
    if w.2 then (w.1, [.write tx.raw (some tx.h)])
    else
      let c3 := w.1.erase id
      -- c.a.Stop(id): emits `stopped`; the nested callback finds no entry and ignores it
      let s := c3.agent.stop id
      ({ c3 with agent := s.1 },
        [.write tx.raw (some tx.h), .call tx.h id (if s.2.1.isSome then .stopErr else .writeErr)])

/-- `Client.handleAgentCallback` -/
def callback (c : Client) (id : TID) (e : CEv) : Client × List COut :=
  match c.lookup id with
  | none =>
    if !c.closed && c.hasFallback && e != .stopped then (c, [.fallback id e]) else (c, [])
  | some tx =>
    -- a closed client completes the transaction with what the agent reports (ErrAgentClosed from Agent.Close)
    if c.closed || c.maxAttempts ≤ tx.attempt || e.isMsg then (c.erase id, [.call tx.h id e])
    else retransmit (c.erase id) tx id

/-- `Client.Start` with a handler (`some h`, `h` names the handler) or `Indicate` (`none`) -/
def start (c : Client) (id : TID) (raw : Bytes) (handler : Option Nat) : Client × Option CErr × List COut :=
  if c.closed then (c, some .clientClosed, []) else
  match handler with
  | some h =>
    let tx : Txn := ⟨id, 0, c.rto, raw, h, c.now⟩
    let d := nextTimeout tx tx.start
    if (c.lookup id).isSome then (c, some .exists, []) else
    let c := c.insert tx
    match c.agent.start id d with
    | (_, some err) => (c.erase id, some (if err == .closed then .agentClosed else .exists), [])   -- deleteIfCurrent
    | (a, none) =>
      let w := ({ c with agent := a }).connWrite raw
      if w.2 then (w.1, none, [.write raw (some h)])
      else
        let c3 := w.1.erase id
        let s := c3.agent.stop id
        ({ c3 with agent := s.1 }, some (if s.2.1.isSome then .stopErr else .write), [.write raw (some h)])
  | none =>
    let w := c.connWrite raw
    (w.1, if w.2 then none else some .write, [.write raw none])

/-- run the callbacks for a list of agent events, in order -/
def callbacks (c : Client) : List (TID × CEv) → Client × List COut
  | [] => (c, [])
  | (id, e) :: r =>
    let (c1, o1) := c.callback id e
    let (c2, o2) := callbacks c1 r
    (c2, o1 ++ o2)

/-- the collector fires at virtual time `t`: `a.Collect(t)` and the callbacks it causes -/
def tick (c : Client) (t : Nat) : Client × List COut :=
  let c := { c with now := t }
  let (a, _, evs) := c.agent.collect t
  let c := { c with agent := a }
  c.callbacks (evs.map (fun e => (e.id, CEv.timeout)))

/-- `c.a.Process(m)` for a decoded datagram with transaction id `tid` and raw bytes `raw` -/
def deliverDecoded (c : Client) (tid : TID) (raw : Bytes) : Client × List COut :=
  match (c.agent.process tid).2.1 with
  | some _ => (c, [])            -- agent closed: the reader stops
  | none => ({ c with agent := (c.agent.process tid).1 }).callback tid (.msg raw)

/-- the reader's message object: `m.Raw = make([]byte, 1024)` -/
def readerMsg : Msg := { mem := List.replicate 1024 0, len := 1024 }

/-- the reader goroutine receives one datagram (at most 1024 bytes fit its buffer) -/
def deliver (c : Client) (d : Bytes) : Client × List COut :=
  match (readerMsg.readFrom d).2 with
  | .ok () => c.deliverDecoded (readerMsg.readFrom d).1.tid (readerMsg.readFrom d).1.raw
  | _ => (c, [])

/-- `Client.Close` -/
def close (c : Client) : Client × Option CErr × List COut :=
  if c.closed then (c, some .clientClosed, []) else
  let c := { c with closed := true }
  let (a, _, evs) := c.agent.close
  let c := { c with agent := a }
  -- every `closed` event reaches handleAgentCallback, which completes the transaction with ErrAgentClosed
  let (c, outs) := c.callbacks (evs.map (fun e => (e.id, CEv.agentClosed)))
  let outs := if c.closeConn then outs ++ [.connClose] else outs
  let failed := c.agentCloseErr || (c.closeConn && c.connCloseErr)
  (c, if failed then some .closeErr else none, outs)

/-- `SetRTO` -/
def setRTO (c : Client) (r : Nat) : Client := { c with rto := r }

end Client

inductive COp where
  | start (id : TID) (raw : Bytes) (handler : Option Nat)
  | deliver (d : Bytes)
  | tick (t : Nat)
  | clock (t : Nat)
  | failWrite (id : TID)
  | setRTO (r : Nat)
  | close
deriving Repr

def Client.step (c : Client) : COp → Client × Option CErr × List COut
  | .start id raw h => c.start id raw h
  | .deliver d => let r := c.deliver d; (r.1, none, r.2)
  | .tick t => let r := c.tick t; (r.1, none, r.2)
  | .clock t => ({ c with now := t }, none, [])
  | .failWrite id => ({ c with failIds := c.failIds ++ [id] }, none, [])
  | .setRTO r => (c.setRTO r, none, [])
  | .close => c.close

end Stun
