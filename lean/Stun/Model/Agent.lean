/-
  Model of agent.go: the transaction table of `Agent`, one function per method, each returning the new state, the
  returned error and the events handed to the handler (in the order of the Go map iteration, which is unspecified:
  comparisons sort within one call).
-/
import Stun.Basic.Bytes
namespace Stun

abbrev TID := Bytes

inductive AErr where
  | closed      -- ErrAgentClosed
  | notExists   -- ErrTransactionNotExists
  | exists      -- ErrTransactionExists
deriving DecidableEq, Repr

inductive EvKind where
  | stopped            -- StopWithError (Stop: ErrTransactionStopped)
  | timeout            -- ErrTransactionTimeOut
  | closed             -- ErrAgentClosed
  | msg (registered : Bool)   -- Process: the message; ghost flag: was the id registered
deriving DecidableEq, Repr

structure AEvent where
  handler : Nat        -- which handler (generation counter of SetHandler) received it
  id : TID
  kind : EvKind
deriving DecidableEq, Repr

structure Agent where
  closed : Bool := false
  table : List (TID × Nat) := []      -- transactions in progress: id ↦ deadline (ns)
  hgen : Nat := 0                     -- current handler
deriving Repr

namespace Agent

def has (a : Agent) (id : TID) : Bool := a.table.any (fun p => p.1 == id)
def del (a : Agent) (id : TID) : Agent := { a with table := a.table.filter (fun p => p.1 != id) }

/-- `Start` -/
def start (a : Agent) (id : TID) (deadline : Nat) : Agent × Option AErr :=
  if a.closed then (a, some .closed)
  else if a.has id then (a, some .exists)
  else ({ a with table := a.table ++ [(id, deadline)] }, none)

/-- `StopWithError` / `Stop` -/
def stop (a : Agent) (id : TID) : Agent × Option AErr × List AEvent :=
  if a.closed then (a, some .closed, [])
  else if a.has id then (a.del id, none, [⟨a.hgen, id, .stopped⟩])
  else (a.del id, some .notExists, [])

/-- `Process` -/
def process (a : Agent) (id : TID) : Agent × Option AErr × List AEvent :=
  if a.closed then (a, some .closed, [])
  else (a.del id, none, [⟨a.hgen, id, .msg (a.has id)⟩])

/-- `Collect`: deadlines strictly before `t` -/
def collect (a : Agent) (t : Nat) : Agent × Option AErr × List AEvent :=
  if a.closed then (a, some .closed, [])
  else
    let gone := a.table.filter (fun p => p.2 < t)
    ({ a with table := a.table.filter (fun p => ¬ p.2 < t) }, none, gone.map (fun p => ⟨a.hgen, p.1, .timeout⟩))

/-- `SetHandler` -/
def setHandler (a : Agent) : Agent × Option AErr :=
  if a.closed then (a, some .closed) else ({ a with hgen := a.hgen + 1 }, none)

/-- `Close` -/
def close (a : Agent) : Agent × Option AErr × List AEvent :=
  if a.closed then (a, some .closed, [])
  else ({ a with closed := true, table := [] }, none, a.table.map (fun p => ⟨a.hgen, p.1, .closed⟩))

end Agent

inductive AOp where
  | start (id : TID) (deadline : Nat)
  | stop (id : TID)
  | process (id : TID)
  | collect (t : Nat)
  | setHandler
  | close
deriving Repr

def Agent.step (a : Agent) : AOp → Agent × Option AErr × List AEvent
  | .start id d => let r := a.start id d; (r.1, r.2, [])
  | .stop id => a.stop id
  | .process id => a.process id
  | .collect t => a.collect t
  | .setHandler => let r := a.setHandler; (r.1, r.2, [])
  | .close => a.close

/-- run a history from a state; returns the final state and the list of (op, returned error, events) -/
def Agent.run (a : Agent) : List AOp → Agent × List (AOp × Option AErr × List AEvent)
  | [] => (a, [])
  | op :: r =>
    let (a', e, evs) := a.step op
    let (af, tr) := Agent.run a' r
    (af, (op, e, evs) :: tr)

end Stun
