/-
  C15 — Client.Close is final and honours connection ownership (L1 model; goroutine exit, data races and deadlocks
  are runtime facts observed by the harness, not theorems).
-/
import Stun.Proofs.ClientHistory
import Stun.Proofs.ClientSync
namespace Stun.C15
open Stun Stun.Client Stun.ClientProofs

/-- the first Close succeeds (nil or CloseErr); the only handler invocations it makes complete transactions in flight
    with ErrAgentClosed; it writes nothing; it closes the connection exactly once iff the client owns it; every
    later Close returns ErrClientClosed and does nothing -/
theorem close_once (c : Client) :
    (c.closed = false →
      (c.close).1.closed = true ∧ ((c.close).2.1 = none ∨ (c.close).2.1 = some .closeErr) ∧
      (∀ x ∈ (c.close).2.2, (∃ h id, x = COut.call h id .agentClosed) ∨ (x = COut.connClose ∧ c.closeConn = true)) ∧
      ((c.close).2.2.filter (fun x => x == COut.connClose)).length = (if c.closeConn then 1 else 0)) ∧
    (c.closed = true → c.close = (c, some .clientClosed, [])) := by
  obtain ⟨k1, k2⟩ := close_spec c
  refine ⟨fun h => ?_, k1⟩
  obtain ⟨b1, _, b3, b4, b5⟩ := k2 h
  exact ⟨b1, b3, b4, b5⟩

/-- after Close every Start and Indicate returns ErrClientClosed without writing -/
theorem after_close_rejects (c : Client) (hc : c.closed = true) (id : TID) (raw : Bytes) (h : Option Nat) :
    c.start id raw h = (c, some .clientClosed, []) := by
  unfold Client.start; rw [if_pos hc]

/-- a closed client whose agent is closed produces no output at all for any operation: no handler invocation, no
    write, no second connection close -/
theorem no_output_after_close (c : Client) (hc : c.closed = true) (ha : c.agent.closed = true) (op : COp) :
    (c.step op).2.2 = [] ∧ (c.step op).1.closed = true ∧ (c.step op).1.agent.closed = true := by
  cases op with
  | start id raw h =>
    have e : c.step (.start id raw h) = (c, some .clientClosed, []) := after_close_rejects c hc id raw h
    rw [e]; exact ⟨rfl, hc, ha⟩
  | deliver d =>
    have hd : c.deliver d = (c, []) := by
      unfold Client.deliver
      split
      · unfold Client.deliverDecoded
        have : (c.agent.process (readerMsg.readFrom d).1.tid).2.1 = some .closed := by
          unfold Agent.process; simp [ha]
        rw [this]
      · rfl
    have e : c.step (.deliver d) = ((c.deliver d).1, none, (c.deliver d).2) := rfl
    rw [e, hd]; exact ⟨rfl, hc, ha⟩
  | tick t =>
    have hcol : c.agent.collect t = (c.agent, some .closed, []) := by unfold Agent.collect; simp [ha]
    have ht : c.tick t = ({ c with now := t, agent := c.agent }, []) := by
      unfold Client.tick; simp only [hcol, List.map_nil, Client.callbacks]
    have e : c.step (.tick t) = ((c.tick t).1, none, (c.tick t).2) := rfl
    rw [e, ht]; exact ⟨rfl, hc, ha⟩
  | clock t => exact ⟨rfl, hc, ha⟩
  | failWrite id => exact ⟨rfl, hc, ha⟩
  | setRTO r => exact ⟨rfl, hc, ha⟩
  | close =>
    have e : c.step .close = c.close := rfl
    rw [e, (close_spec c).1 hc]; exact ⟨rfl, hc, ha⟩

/-- Close leaves the client closed with a closed agent — the hypothesis of `no_output_after_close` -/
theorem close_establishes (c : Client) (hc : c.closed = false) :
    (c.close).1.closed = true ∧ (c.close).1.agent.closed = true := by
  obtain ⟨b1, b2, _, _, _⟩ := (close_spec c).2 hc
  exact ⟨b1, b2⟩

/-- finality for whole histories: from a closed client with a closed agent, *every* continuation — any number of
    Start, deliver, tick, clock, failWrite, SetRTO and Close operations in any order — emits nothing (no handler
    invocation, no write, no connection close) and leaves the client closed -/
theorem closed_forever (ops : List COp) : ∀ (c : Client), c.closed = true → c.agent.closed = true →
    allOuts (run c ops).2 = [] ∧ (run c ops).1.closed = true ∧ (run c ops).1.agent.closed = true := by
  induction ops with
  | nil => intro c hc ha; exact ⟨rfl, hc, ha⟩
  | cons op r ih =>
    intro c hc ha
    obtain ⟨o1, o2, o3⟩ := no_output_after_close c hc ha op
    obtain ⟨i1, i2, i3⟩ := ih (c.step op).1 o2 o3
    refine ⟨?_, i2, i3⟩
    simp only [run, allOuts, List.flatMap_cons, o1, List.nil_append]
    exact i1

/-- the property's history form: whatever happened before (`pre`), once Close has been called on an open client,
    the rest of the history (`post`, which may contain further Close calls) emits nothing; in particular the
    connection is closed at most once in the whole history and no handler runs after Close returned -/
theorem nothing_after_close (c : Client) (pre post : List COp) (hopen : (run c pre).1.closed = false) :
    allOuts (run (run c (pre ++ [.close])).1 post).2 = [] := by
  have e : (run c (pre ++ [.close])).1 = ((run c pre).1.close).1 := by
    rw [run_append]; rfl
  rw [e]
  obtain ⟨b1, b2⟩ := close_establishes (run c pre).1 hopen
  exact (closed_forever post _ b1 b2).1

/-- every Start after Close returns ErrClientClosed, at any later point of any history -/
theorem start_after_close_rejected (c : Client) (ops : List COp) (hc : c.closed = true) (ha : c.agent.closed = true)
    (id : TID) (raw : Bytes) (h : Option Nat) :
    ((run c ops).1.step (.start id raw h)).2.1 = some .clientClosed := by
  have hcl := (closed_forever ops c hc ha).2.1
  have e : (run c ops).1.step (.start id raw h) = ((run c ops).1, some .clientClosed, []) :=
    after_close_rejects _ hcl id raw h
  rw [e]

/-- no operation other than Close ever closes the connection or changes the closed flag -/
theorem step_no_connClose (S) (c : Client) (hi : TInv c) (hf : FromStarts S c) (op : COp) (hop : op ≠ .close) :
    COut.connClose ∉ (c.step op).2.2 ∧ (c.step op).1.closed = c.closed := by
  cases op with
  | start id raw h =>
    cases h with
    | some h =>
      obtain ⟨_, _, _, hcl, hw, _⟩ := start_spec S c hi hf id raw h
      refine ⟨fun hm => ?_, hcl⟩
      have := hw _ hm
      cases this
    | none =>
      show COut.connClose ∉ (c.start id raw none).2.2 ∧ (c.start id raw none).1.closed = c.closed
      unfold Client.start
      by_cases hc : c.closed = true
      · rw [if_pos hc]; exact ⟨by simp, rfl⟩
      · rw [if_neg hc]
        refine ⟨by simp, ?_⟩
        show (c.connWrite raw).1.closed = c.closed
        unfold Client.connWrite; split <;> rfl
  | deliver d =>
    obtain ⟨_, _, _, hcl, ho⟩ := deliver_spec S c hi hf d
    have e : c.step (.deliver d) = ((c.deliver d).1, none, (c.deliver d).2) := rfl
    rw [e]; dsimp only; exact ⟨ho.noConnClose, hcl⟩
  | tick t =>
    obtain ⟨_, _, _, hcl, ho⟩ := tick_spec S c hi hf t
    have e : c.step (.tick t) = ((c.tick t).1, none, (c.tick t).2) := rfl
    rw [e]; dsimp only; exact ⟨ho.noConnClose, hcl⟩
  | clock t => exact ⟨by simp [Client.step], rfl⟩
  | failWrite id => exact ⟨by simp [Client.step], rfl⟩
  | setRTO r => exact ⟨by simp [Client.step], rfl⟩
  | close => exact absurd rfl hop

def connCloses (outs : List COut) : Nat := (outs.filter (fun x => x == COut.connClose)).length

/-- "the connection has been closed exactly once … (then never)", for whole histories: in every history of an open
    client — any operations, any number of Close calls anywhere — the connection is closed at most once, and not at
    all as long as no Close has been called -/
theorem conn_closed_at_most_once (ops : List COp) : ∀ (S) (c : Client), TInv c → FromStarts S c → c.closed = false →
    connCloses (allOuts (run c ops).2) ≤ 1 ∧
    ((∀ op ∈ ops, op ≠ .close) → connCloses (allOuts (run c ops).2) = 0) := by
  induction ops with
  | nil => intro S c _ _ _; exact ⟨by simp [run, allOuts, connCloses], fun _ => by simp [run, allOuts, connCloses]⟩
  | cons op r ih =>
    intro S c hi hf hc
    have hsplit : connCloses (allOuts (run c (op :: r)).2) =
        connCloses (c.step op).2.2 + connCloses (allOuts (run (c.step op).1 r).2) := by
      simp only [run, allOuts, connCloses, List.flatMap_cons, List.filter_append, List.length_append]
    rw [hsplit]
    by_cases hop : op = .close
    · subst hop
      obtain ⟨k, _⟩ := close_once c
      obtain ⟨_, _, _, k4⟩ := k hc
      obtain ⟨b1, b2⟩ := close_establishes c hc
      have hz := (closed_forever r (c.close).1 b1 b2).1
      have e : c.step .close = c.close := rfl
      rw [e, hz]
      refine ⟨?_, fun hall => absurd rfl (hall _ List.mem_cons_self)⟩
      have : connCloses (c.close).2.2 = if c.closeConn then 1 else 0 := k4
      rw [this]; simp only [connCloses, List.filter_nil, List.length_nil]
      split <;> omega
    · obtain ⟨n1, n2⟩ := step_no_connClose S c hi hf op hop
      obtain ⟨s1, s2, _⟩ := step_spec S c hi hf op
      have h0 : connCloses (c.step op).2.2 = 0 := by
        unfold connCloses
        rw [List.length_eq_zero_iff, List.filter_eq_nil_iff]
        intro x hx hb
        have : x = COut.connClose := by simpa using hb
        exact n1 (this ▸ hx)
      obtain ⟨i1, i2⟩ := ih _ (c.step op).1 s1 s2 (by rw [n2]; exact hc)
      rw [h0]
      exact ⟨by omega, fun hall => by rw [i2 (fun o ho => hall o (List.mem_cons_of_mem _ ho))]⟩

theorem connWrite_closeConn (c : Client) (raw : Bytes) : (c.connWrite raw).1.closeConn = c.closeConn := by
  unfold Client.connWrite; split <;> rfl

theorem start_closeConn (c : Client) (id : TID) (raw : Bytes) (h : Option Nat) :
    (c.start id raw h).1.closeConn = c.closeConn := by
  unfold Client.start
  split
  · rfl
  · split
    · split
      · rfl
      · dsimp only
        split
        · rfl
        · split
          · exact (connWrite_closeConn _ raw).trans rfl
          · exact (connWrite_closeConn _ raw).trans rfl
    · exact connWrite_closeConn c raw

theorem tick_closeConn (S) (c : Client) (hi : TInv c) (hf : FromStarts S c) (t : Nat) :
    (c.tick t).1.closeConn = c.closeConn := by
  unfold Client.tick
  simp only
  have s := callbacks_spec S (((c.agent.collect t).2.2).map (fun e => (e.id, CEv.timeout)))
    { c with now := t, agent := (c.agent.collect t).1 } (tinv_congr c _ rfl hi) (fun p hp => hf p hp)
  exact s.cfgSame.2.1

theorem deliver_closeConn (S) (c : Client) (hi : TInv c) (hf : FromStarts S c) (d : Bytes) :
    (c.deliver d).1.closeConn = c.closeConn := by
  unfold Client.deliver
  split
  · unfold Client.deliverDecoded
    split
    · rfl
    · have s := callback_spec S { c with agent := (c.agent.process (readerMsg.readFrom d).1.tid).1 }
        (tinv_congr c _ rfl hi) (fun p hp => hf p hp) (readerMsg.readFrom d).1.tid (.msg (readerMsg.readFrom d).1.raw)
      exact s.cfgSame.2.1
  · rfl
/-- the connection-ownership option never changes: no operation alters `closeConn` -/
theorem step_closeConn (S) (c : Client) (hi : TInv c) (hf : FromStarts S c) (op : COp) (hop : op ≠ .close) :
    (c.step op).1.closeConn = c.closeConn := by
  cases op with
  | start id raw h => exact start_closeConn c id raw h
  | deliver d =>
    have e : c.step (.deliver d) = ((c.deliver d).1, none, (c.deliver d).2) := rfl
    rw [e]; dsimp only; exact deliver_closeConn S c hi hf d
  | tick t =>
    have e : c.step (.tick t) = ((c.tick t).1, none, (c.tick t).2) := rfl
    rw [e]; dsimp only; exact tick_closeConn S c hi hf t
  | clock t => rfl
  | failWrite id => rfl
  | setRTO r => rfl
  | close => exact absurd rfl hop

/-- "… unless WithNoConnClose was given (then never)", for whole histories: a client that does not own its
    connection never closes it, whatever operations and however many Close calls the history contains; a client that
    owns it closes it exactly once in every history that contains a Close -/
theorem conn_close_ownership (ops : List COp) : ∀ (S) (c : Client), TInv c → FromStarts S c → c.closed = false →
    (c.closeConn = false → connCloses (allOuts (run c ops).2) = 0) ∧
    (c.closeConn = true → COp.close ∈ ops → connCloses (allOuts (run c ops).2) = 1) := by
  induction ops with
  | nil => intro S c _ _ _; exact ⟨fun _ => by simp [run, allOuts, connCloses], fun _ h => by simp at h⟩
  | cons op r ih =>
    intro S c hi hf hc
    have hsplit : connCloses (allOuts (run c (op :: r)).2) =
        connCloses (c.step op).2.2 + connCloses (allOuts (run (c.step op).1 r).2) := by
      simp only [run, allOuts, connCloses, List.flatMap_cons, List.filter_append, List.length_append]
    rw [hsplit]
    by_cases hop : op = .close
    · subst hop
      obtain ⟨k, _⟩ := close_once c
      obtain ⟨_, _, _, k4⟩ := k hc
      obtain ⟨b1, b2⟩ := close_establishes c hc
      have hz := (closed_forever r (c.close).1 b1 b2).1
      have e : c.step .close = c.close := rfl
      have k4' : connCloses (c.close).2.2 = if c.closeConn then 1 else 0 := k4
      rw [e, hz, k4']
      simp only [connCloses, List.filter_nil, List.length_nil, Nat.add_zero]
      exact ⟨fun h => by simp [h], fun h _ => by simp [h]⟩
    · obtain ⟨n1, n2⟩ := step_no_connClose S c hi hf op hop
      obtain ⟨s1, s2, _⟩ := step_spec S c hi hf op
      have hcc := step_closeConn S c hi hf op hop
      have h0 : connCloses (c.step op).2.2 = 0 := by
        unfold connCloses
        rw [List.length_eq_zero_iff, List.filter_eq_nil_iff]
        intro x hx hb
        have : x = COut.connClose := by simpa using hb
        exact n1 (this ▸ hx)
      obtain ⟨i1, i2⟩ := ih _ (c.step op).1 s1 s2 (by rw [n2]; exact hc)
      rw [h0, Nat.zero_add]
      refine ⟨fun h => i1 (by rw [hcc]; exact h), fun h hm => i2 (by rw [hcc]; exact h) ?_⟩
      rcases List.mem_cons.1 hm with hm | hm
      · exact absurd hm.symm hop
      · exact hm

/-- the hypotheses are met by a newly created client, so the history theorems speak about every history a user can
    produce: for the default client, whatever is done, a history with a Close closes the connection exactly once -/
theorem new_client_closes_once (ops : List COp) (h : COp.close ∈ ops) (hd : ({} : Client).closeConn = true) :
    connCloses (allOuts (run ({} : Client) ops).2) = 1 :=
  (conn_close_ownership ops [] {} inv_init (by intro p hp; simp at hp) rfl).2 hd h

end Stun.C15
