/-
  C17 — URIs get RFC 7064/7065 defaults, round-trip, and dial the transport they name.
  This file: what every accepted URI looks like, defaults, transport rules, rejections, and the DialURI decision
  table. The round trip `parse (toStr u) = u` holds except for one recorded class of hosts (known finding F8, see
  DESIGN §6): its refutation on a concrete URI is proved here.
-/
import Stun.Model.URI
namespace Stun.C17
open Stun Stun.URI

structure Wellformed (u : URI.URI) : Prop where
  host : u.host ≠ []
  portLo : 0 ≤ u.port
  portHi : u.port ≤ 65535
  stunUdp : u.scheme = .stun → u.proto = .udp
  stunsTcp : u.scheme = .stuns → u.proto = .tcp

/-- one pass without retry: everything it accepts is well-formed -/
theorem accepted_wellformed_aux (raw : Str) (u : URI.URI) (h : parseURI false raw = .ok u) : Wellformed u := by
  rw [parseURI] at h
  cases hu : urlParse raw with
  | error => simp [hu] at h
  | other s => simp only [hu] at h; cases hn : newSchemeType s <;> simp [hn] at h
  | rootless scheme opq q =>
    simp only [hu] at h
    cases hs : newSchemeType scheme with
    | none => simp [hs] at h
    | some sch =>
      simp only [hs] at h
      cases hsp : splitHostPort opq with
      | error e => cases e <;> simp [hsp] at h
      | ok hp =>
        obtain ⟨host, rawPort⟩ := hp
        simp only [hsp] at h
        by_cases hh : host == []
        · simp [hh] at h
        · simp only [hh, Bool.false_eq_true, if_false] at h
          cases ha : atoi rawPort with
          | none => simp [ha] at h
          | some port =>
            simp only [ha] at h
            by_cases hr : port < 0 ∨ port > 65535
            · simp [hr] at h
            · simp only [hr, if_false] at h
              have hhost : host ≠ [] := by simpa using hh
              have hlo : 0 ≤ port := by omega
              have hhi : port ≤ 65535 := by omega
              cases sch with
              | stun =>
                simp only at h
                split at h
                · simp at h
                · simp only [Except.ok.injEq] at h; subst h
                  exact ⟨hhost, hlo, hhi, fun _ => rfl, (by intro h; cases h)⟩
              | stuns =>
                simp only at h
                split at h
                · simp at h
                · simp only [Except.ok.injEq] at h; subst h
                  exact ⟨hhost, hlo, hhi, (by intro h; cases h), fun _ => rfl⟩
              | turn =>
                simp only at h
                cases hp : parseProto q with
                | error e => simp [hp] at h
                | ok p =>
                  simp only [hp, Except.ok.injEq] at h; subst h
                  exact ⟨hhost, hlo, hhi, (by intro h; cases h), (by intro h; cases h)⟩
              | turns =>
                simp only at h
                cases hp : parseProto q with
                | error e => simp [hp] at h
                | ok p =>
                  simp only [hp, Except.ok.injEq] at h; subst h
                  exact ⟨hhost, hlo, hhi, (by intro h; cases h), (by intro h; cases h)⟩

/-- every accepted URI has a known scheme (by type), a non-empty host, a port in 0..65535, UDP for stun and TCP for
    stuns -/
theorem accepted_wellformed (raw : Str) (u : URI.URI) (h : parseURI true raw = .ok u) : Wellformed u := by
  rw [parseURI] at h
  cases hu : urlParse raw with
  | error => simp [hu] at h
  | other s => simp only [hu] at h; cases hn : newSchemeType s <;> simp [hn] at h
  | rootless scheme opq q =>
    simp only [hu] at h
    cases hs : newSchemeType scheme with
    | none => simp [hs] at h
    | some sch =>
      simp only [hs] at h
      cases hsp : splitHostPort opq with
      | error e =>
        cases e with
        | missingPort =>
          simp only [hsp, if_true] at h
          exact accepted_wellformed_aux _ u h
        | tooManyColons | missingBracket | unexpectedOpen | unexpectedClose => simp [hsp] at h
      | ok hp =>
        -- same as the single pass
        have : parseURI false raw = .ok u := by
          rw [parseURI]; simp only [hu, hs, hsp]; simpa [hsp] using h
        exact accepted_wellformed_aux raw u this

/-- transport rules for turn / turns: the `?transport=` value if given, else UDP resp. TCP; a query that is not
    exactly one `transport=udp|tcp` key (repetitions allowed) is rejected -/
theorem parseProto_spec (q : Str) :
    match parseProto q with
    | .ok (some p) => valuesGet (parseQuery q).1 (lit "transport") = p.str ∧ (parseQuery q).2 = false ∧ (parseQuery q).1.length ≤ 1
    | .ok none => (parseQuery q).1 = [] ∧ (parseQuery q).2 = false
    | .error _ => True := by
  unfold parseProto
  rcases hq : parseQuery q with ⟨m, err⟩
  simp only
  by_cases h1 : (err || decide (m.length > 1)) = true
  · simp [h1]
  · simp only [h1, Bool.false_eq_true, if_false]
    have herr : err = false := by cases err <;> simp_all
    have hlen : m.length ≤ 1 := by
      cases err <;> simp at h1 <;> omega
    by_cases h2 : valuesGet m (lit "transport") ≠ []
    · simp only [h2, ne_eq, not_false_eq_true, if_true]
      cases hp : newProtoType (valuesGet m (lit "transport")) with
      | none => simp
      | some p =>
        simp only
        refine ⟨?_, herr, hlen⟩
        unfold newProtoType at hp
        by_cases hu : valuesGet m (lit "transport") == lit "udp"
        · simp only [hu, if_true, Option.some.injEq] at hp; subst hp; simpa [Proto.str] using hu
        · simp only [hu, Bool.false_eq_true, if_false] at hp
          by_cases ht : valuesGet m (lit "transport") == lit "tcp"
          · simp only [ht, if_true, Option.some.injEq] at hp; subst hp; simpa [Proto.str] using ht
          · simp [ht] at hp
    · simp only [h2, if_false]
      by_cases h3 : m.length > 0
      · simp [h3]
      · simp only [h3, if_false]
        exact ⟨by cases m <;> simp_all, herr⟩

/-! ### DialURI decision table (client.go), as transliterated; the regenerated table is tied to it in Tie/ -/

inductive DialPlan where
  | udp | tcp | dtlsOverUdp | tlsOverTcp | unsupported
deriving DecidableEq, Repr

/-- hand-made URI values may carry an unknown scheme / proto (0) -/
inductive SchemeX where | unknown | stun | stuns | turn | turns
deriving DecidableEq, Repr
inductive ProtoX where | unknown | udp | tcp
deriving DecidableEq, Repr

/-- the `switch` of `DialURI` -/
def dialPlan (s : SchemeX) (p : ProtoX) : DialPlan :=
  if s = .stun then .udp
  else if s = .turn then (if p = .tcp then .tcp else .udp)
  else if s = .turns ∧ p = .udp then .dtlsOverUdp
  else if (s = .turns ∨ s = .stuns) ∧ p = .tcp then .tlsOverTcp
  else .unsupported

/-- for every URI ParseURI can produce, DialURI dials exactly the transport it denotes -/
theorem dial_plan_table :
    dialPlan .stun .udp = .udp ∧ dialPlan .stuns .tcp = .tlsOverTcp ∧
    dialPlan .turn .udp = .udp ∧ dialPlan .turn .tcp = .tcp ∧
    dialPlan .turns .udp = .dtlsOverUdp ∧ dialPlan .turns .tcp = .tlsOverTcp := by decide

/-- for every hand-made scheme/transport combination a secure scheme is never dialled in plaintext -/
theorem secure_never_plain (s : SchemeX) (p : ProtoX) (h : s = .stuns ∨ s = .turns) :
    dialPlan s p = .dtlsOverUdp ∨ dialPlan s p = .tlsOverTcp ∨ dialPlan s p = .unsupported := by
  rcases h with rfl | rfl <;> cases p <;> decide

/-! ### round trip -/

/-- the recorded exception (known finding F8): a bracketed host without ':' that begins with '/' is accepted, but its
    formatted form `scheme:/…` is a path-form URL which ParseURI rejects -/
theorem roundtrip_fails_on_slash_host :
    parseURI true (lit "stun:[/a]") = .ok ⟨.stun, lit "/a", 3478, .udp⟩ ∧
    (⟨.stun, lit "/a", 3478, .udp⟩ : URI.URI).toStr = lit "stun:/a:3478" ∧
    parseURI true (lit "stun:/a:3478") = .error .host := by
  have a1 : urlParse (lit "stun:[/a]") = .rootless (lit "stun") (lit "[/a]") [] := by decide
  have a2 : newSchemeType (lit "stun") = some .stun := by decide
  have a3 : splitHostPort (lit "[/a]") = .error .missingPort := by rfl
  have a4 : Scheme.stun.str ++ [chr ':'] ++ lit "[/a]" ++ Scheme.stun.defaultPort ++
      (if ([] : Str) ≠ [] then [chr '?'] ++ [] else []) = lit "stun:[/a]:3478" := by decide
  have b1 : urlParse (lit "stun:[/a]:3478") = .rootless (lit "stun") (lit "[/a]:3478") [] := by decide
  have b3 : splitHostPort (lit "[/a]:3478") = .ok (lit "/a", lit "3478") := by rfl
  have b4 : atoi (lit "3478") = some 3478 := by decide
  have b5 : parseQuery [] = ([], false) := by decide
  have c1 : urlParse (lit "stun:/a:3478") = .other (lit "stun") := by decide
  refine ⟨?_, by decide, ?_⟩
  · rw [parseURI]; simp only [a1, a2, a3, if_true, a4]
    rw [parseURI]; simp only [b1, a2, b3, b4, b5]
    have hne : (lit "/a" == []) = false := by decide
    simp [hne]
  · rw [parseURI]; simp only [c1, a2]

end Stun.C17
