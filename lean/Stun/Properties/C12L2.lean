/-
  C12 at level L2: for every L2 history (blocking writes / agent registrations / first writes, responses processed
  meanwhile, releases with success or failure), whenever a handler is given a message,
  * the handler was registered by a `Start` of the history for exactly that transaction id (`l2_invocation_from_start`),
  * and the message is a datagram of the history carrying that id: the raw bytes handed to `deliverDecoded`, or the
    first 1024 bytes of a datagram the reader decoded successfully, whose decoded id is that id.
-/
import Stun.Proofs.ClientL2Msg
import Stun.Properties.C10L2
namespace Stun.C12L2
open Stun Stun.Client Stun.ClientProofs

theorem l2_message_is_datagram_of_same_id (ops : List COp2) (h : Nat) (id : TID) (raw : Bytes)
    (hm : COut.call h id (.msg raw) ∈ (({} : Client2).run ops).2) :
    (∃ raw0, (h, id, raw0) ∈ starts2Of ops) ∧ ∃ op ∈ ops, MsgSrc op id raw :=
  ⟨C10L2.l2_invocation_from_start ops h id (.msg raw) hm,
   run2_msg ops {} (by intro s hs; simp at hs) h id raw hm⟩

/-- non-vacuity: in the K1 history handler 1 is given the response, and the theorem names its source -/
example : COut.call 1 C10L2.id1 (.msg C10L2.resp1) ∈ (({} : Client2).run C10L2.k1History).2 := by decide

end Stun.C12L2
