/-
  C01 — decoding arbitrary bytes is total and memory-safe.
  Every statement quantifies over every backing array `mem` (any capacity, any content beyond the visible part)
  and every visible length `len ≤ mem.length`, i.e. over every byte string in every buffer.
-/
import Stun.Proofs.DecodeMsg
namespace Stun.C01
open Stun Stun.Spec Stun.DecodeProofs

/-- No slice expression of `Decode` can go out of range, whatever the bytes and the capacity. -/
theorem decode_no_panic (mem : Bytes) (len : Nat) (hcap : len ≤ mem.length) :
    (decodeRaw mem len).2 ≠ .panic := by
  have := decodeRaw_char mem len hcap
  cases h : rfcParse (mem.take len) with
  | none => rw [h] at this; obtain ⟨d, e, hk⟩ := this; rw [hk]; simp
  | some p => rw [h] at this; rw [this]; simp

/-- `Decode` always returns: the attribute loop is a well-founded recursion on `size - offset` (accepted by Lean
    without fuel), and it appends at most one attribute per 4 body bytes. -/
theorem decode_attr_count (mem : Bytes) (len : Nat) (hcap : len ≤ mem.length) (d : Decoded)
    (h : decodeRaw mem len = (some d, .ok ())) : 4 * d.attrs.length ≤ d.hdr.length := by
  have key := decodeRaw_char mem len hcap
  cases hp : rfcParse (mem.take len) with
  | none => rw [hp] at key; obtain ⟨d', e, hk⟩ := key; rw [hk] at h; simp at h
  | some p =>
    rw [hp] at key; rw [key] at h
    simp only [Prod.mk.injEq, Option.some.injEq, and_true] at h
    subst h
    simp only [List.length_map]
    have hch := rfcParse_chain hp
    -- every attribute advances the chain by at least 4
    have : ∀ (as : List Attr) (pos : Nat), AChain (20 + p.length) pos as → pos + 4 * as.length ≤ 20 + p.length := by
      intro as
      induction as with
      | nil => intro pos h; simp only [AChain] at h; simp only [List.length_nil]; omega
      | cons a r ih =>
        intro pos h
        obtain ⟨h1, _, _, h4⟩ := h
        have := ih _ h4
        simp only [List.length_cons]; omega
    have := this _ _ hch
    omega

/-- what "each exposed value is a view of exactly the declared bytes inside the message's own declared body, in
    wire order and non-overlapping" means for the windows `Decode` returns -/
structure ViewsOK (len : Nat) (d : Decoded) : Prop where
  /-- the declared body lies inside the visible buffer -/
  body_in_buffer : 20 + d.hdr.length ≤ len
  /-- every value window has exactly the declared length and lies inside the declared body, after its 4-byte header -/
  each : ∀ v ∈ d.attrs, 24 ≤ v.val.off ∧ v.val.len = v.length ∧
            v.val.off + v.val.len + pad4 v.val.len ≤ 20 + d.hdr.length
  /-- wire order, pairwise disjoint (separated by at least the next attribute's header) -/
  ordered : d.attrs.Pairwise (fun a b => a.val.off + a.val.len + pad4 a.val.len + 4 ≤ b.val.off)

theorem decode_views (mem : Bytes) (len : Nat) (hcap : len ≤ mem.length) (d : Decoded)
    (h : decodeRaw mem len = (some d, .ok ())) : ViewsOK len d := by
  have key := decodeRaw_char mem len hcap
  cases hp : rfcParse (mem.take len) with
  | none => rw [hp] at key; obtain ⟨d', e, hk⟩ := key; rw [hk] at h; simp at h
  | some p =>
    rw [hp] at key; rw [key] at h
    simp only [Prod.mk.injEq, Option.some.injEq, and_true] at h
    subst h
    obtain ⟨_, _, _, hsz, _, _, _, _⟩ := rfcParse_some hp
    have hlen : (mem.take len).length = len := by simp; omega
    have hch := rfcParse_chain hp
    have hb := AChain_bounds _ _ _ hch
    refine ⟨by simp only; omega, ?_, ?_⟩
    · intro v hv
      simp only [List.mem_map] at hv
      obtain ⟨a, ha, rfl⟩ := hv
      have := hb.2 a ha
      simp only [viewOf]
      exact ⟨by omega, trivial, by omega⟩
    · simp only
      rw [List.pairwise_map]
      exact (AChain_pairwise _ _ _ hch).imp (fun h => by simpa [viewOf] using h)

/-- a successfully decoded input satisfies `IsMessage` -/
theorem decode_isMessage (mem : Bytes) (len : Nat) (hcap : len ≤ mem.length) (d : Option Decoded)
    (h : decodeRaw mem len = (d, .ok ())) : isMessage (mem.take len) = true := by
  have key := decodeRaw_char mem len hcap
  cases hp : rfcParse (mem.take len) with
  | none => rw [hp] at key; obtain ⟨d', e, hk⟩ := key; rw [hk] at h; simp at h
  | some p =>
    obtain ⟨h20, hc, _⟩ := rfcParse_some hp
    simp only [List.length_take] at h20
    simp [isMessage, messageHeaderSize, magicCookie, hc, cookie]; omega

/-- every copying entry point (`Decode(data,m)`, `Write`, `UnmarshalBinary`, `GobDecode`, and `CloneTo` with
    `data = src.Raw`) is `Decode` on a buffer whose visible part is `data`; none of them can panic, whatever the
    receiver held before and whatever its capacity. -/
theorem decodeFrom_no_panic (m : Msg) (data : Bytes) : (m.decodeFrom data).2 ≠ .panic := by
  have hcap : (m.setRaw data).len ≤ (m.setRaw data).mem.length := by
    unfold Msg.setRaw; split <;> simp <;> omega
  have := decode_char (m.setRaw data) hcap
  unfold Msg.decodeFrom
  cases hp : rfcParse (m.setRaw data).raw with
  | none => rw [hp] at this; obtain ⟨m', e, hk⟩ := this; rw [hk]; simp
  | some p => rw [hp] at this; rw [this]; simp

theorem setRaw_raw (m : Msg) (data : Bytes) : (m.setRaw data).raw = data := by
  unfold Msg.setRaw Msg.raw; split <;> simp

/-- `ReadFrom` (for whatever the reader delivers) cannot panic either -/
theorem readFrom_no_panic (m : Msg) (chunk : Bytes) : (m.readFrom chunk).2 ≠ .panic := by
  unfold Msg.readFrom
  simp only
  generalize hm : ({ m with mem := chunk.take m.mem.length ++ m.mem.drop (chunk.take m.mem.length).length,
                              len := (chunk.take m.mem.length).length } : Msg) = m1
  have hcap : m1.len ≤ m1.mem.length := by subst hm; simp
  have := decode_char m1 hcap
  cases hp : rfcParse m1.raw with
  | none => rw [hp] at this; obtain ⟨m', e, hk⟩ := this; rw [hk]; simp
  | some p => rw [hp] at this; rw [this]; simp

-- non-vacuity: header + SOFTWARE "abc" + one padding byte decodes to one attribute whose value window is [24,27)
set_option maxRecDepth 4000 in
private def exMsg : Bytes := [0x00,0x01,0x00,0x08,0x21,0x12,0xa4,0x42,1,2,3,4,5,6,7,8,9,10,11,12,0x80,0x22,0x00,0x03,0x61,0x62,0x63,0x00]
example : decodeRaw exMsg 28 = (some ⟨⟨1, 0, 8, [1,2,3,4,5,6,7,8,9,10,11,12]⟩, [⟨0x8022, 3, ⟨24, 3⟩⟩]⟩, .ok ()) := by
  simp [decodeRaw, exMsg, Sl.sub?, messageHeaderSize, be16, be32, u16, u32, magicCookie, readValue, w16]
  rw [decodeLoop]; simp [attributeHeaderSize, Sl.sub?, Sl.from?, Sl.to?, be16, u16, compatAttrType, nearestPaddedValueLength, padding]
  rw [decodeLoop]; simp

end Stun.C01
