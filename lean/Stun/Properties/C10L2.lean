/-
  C10/C12 at level L2 (a retransmission's `Connection.Write` may block while the reader runs).

  * `step2_l1` / `run2_l1`: with no blocking write scripted, L2 is L1 — so every L1 theorem (C10–C12, C15) is the L2
    theorem for connections whose writes do not block.
  * `k1_history`: Start(h1); the retransmission's Write blocks; the response is processed (h1 gets the message, the
    transaction is finished and its object goes back to the pool); the Write then fails. On the pinned tree the error
    path finished the same transaction again (defect K1, reproduced on the implementation by
    corpus/C10/k1_double_put.ops: the next Start's handler received the stale error and lost its own response).
    The repaired client (`deleteIfCurrent`) and this model do nothing in that case: exactly one invocation.
  * `blocked_write_failure_alone`: a failing blocked Write with nothing in between is the ordinary write failure.
  * `l2_handler_at_most_once`, `l2_never_started_never_invoked`, `l2_invocation_from_start`: at most once, never
    unstarted, for ALL L2 histories (Proofs/ClientL2Acct.lean redoes the L1 induction over suspended states).
-/
import Stun.Model.ClientL2
import Stun.Proofs.ClientHistory
import Stun.Proofs.ClientL2Acct
namespace Stun.C10L2
open Stun Stun.Client Stun.ClientProofs

theorem callback_l1 (k : Client2) (hb : k.blockIds = []) (ha : k.blockAgentIds = []) (id : TID) (e : CEv) :
    k.callback id e = ((k.lift (k.c.callback id e)).1, (k.lift (k.c.callback id e)).2, false) := by
  unfold Client2.callback
  simp only [hb, ha, List.contains_nil, Bool.false_eq_true, if_false]
  unfold Client2.lift Client.callback
  split
  · rfl
  · split
    · rfl
    · split <;> rfl

theorem callbacks_l1 (k : Client2) (hb : k.blockIds = []) (ha : k.blockAgentIds = []) (evs : List (TID × CEv)) :
    k.callbacks evs = k.lift (k.c.callbacks evs) := by
  induction evs generalizing k with
  | nil => rfl
  | cons p r ih =>
    obtain ⟨id, e⟩ := p
    simp only [Client2.callbacks, Client.callbacks, callback_l1 k hb ha]
    have hb' : (k.lift (k.c.callback id e)).1.blockIds = [] := hb
    have ha' : (k.lift (k.c.callback id e)).1.blockAgentIds = [] := ha
    rw [ih _ hb' ha']
    rfl

theorem tick_l1 (k : Client2) (hb : k.blockIds = []) (ha : k.blockAgentIds = []) (t : Nat) : k.tick t = k.lift (k.c.tick t) := by
  unfold Client2.tick Client.tick
  simp only
  rcases k.c.agent.collect t with ⟨a, e, evs⟩
  exact callbacks_l1 (⟨{ k.c with agent := a, now := t }, k.blockIds, k.blockAgentIds, k.susp⟩ : Client2) hb ha
    (evs.map (fun (e : AEvent) => (e.id, CEv.timeout)))

/-- with nothing scripted to block, one L2 step is the L1 step (and nothing becomes blocked) -/
theorem step2_l1 (k : Client2) (hb : k.blockIds = []) (ha : k.blockAgentIds = []) (op : COp) :
    (k.step (.l1 op)).1.c = (k.c.step op).1 ∧ (k.step (.l1 op)).2 = (k.c.step op).2 ∧
    (k.step (.l1 op)).1.blockIds = [] ∧ (k.step (.l1 op)).1.blockAgentIds = [] ∧ (k.step (.l1 op)).1.susp = k.susp := by
  cases op with
  | tick t =>
    simp only [Client2.step, Client.step, tick_l1 k hb ha]
    exact ⟨rfl, rfl, hb, ha, rfl⟩
  | start id raw h => simp [Client2.step, hb, ha]
  | deliver d => simp [Client2.step, hb, ha]
  | clock t => simp [Client2.step, hb, ha]
  | failWrite id => simp [Client2.step, hb, ha]
  | setRTO r => simp [Client2.step, hb, ha]
  | close => simp [Client2.step, hb, ha]

/-- whole histories: without blocking writes the L2 outputs are the L1 outputs -/
theorem run2_l1 (k : Client2) (hb : k.blockIds = []) (ha : k.blockAgentIds = []) (ops : List COp) :
    (k.run (ops.map .l1)).2 = allOuts (run k.c ops).2 ∧ (k.run (ops.map .l1)).1.c = (run k.c ops).1 := by
  induction ops generalizing k with
  | nil => exact ⟨rfl, rfl⟩
  | cons op r ih =>
    obtain ⟨s1, s2, s3, s4, _⟩ := step2_l1 k hb ha op
    obtain ⟨i1, i2⟩ := ih (k.step (.l1 op)).1 s3 s4
    simp only [List.map_cons, Client2.run, run, allOuts, List.flatMap_cons]
    rw [s1] at i1 i2
    refine ⟨?_, i2⟩
    rw [i1, s2]; rfl

def id1 : TID := [1, 2, 3, 4, 5, 6, 7, 8, 9, 10, 11, 12]
def req1 : Bytes := [0, 1, 0, 0]
def resp1 : Bytes := [1, 1, 0, 0]

/-- K1: the history Start; (Write of the first retransmission blocks); response processed; Write fails -/
def k1History : List COp2 :=
  [.l1 (.start id1 req1 (some 1)), .blockWrite id1, .l1 (.tick 300000001), .deliverDecoded id1 resp1, .release false]

/-- the K1 history on the repaired client: the late write failure finds the transaction completed and does nothing -/
theorem k1_history :
    (({} : Client2).run k1History).2 =
      [.write req1 (some 1),                   -- Start
       .write req1 (some 1),                   -- the retransmission, entered and blocked
       .call 1 id1 (.msg resp1)] ∧             -- the response reaches h1; the failed Write adds nothing
    calls 1 (({} : Client2).run k1History).2 = 1 := by
  decide

/-- … and a second transaction started in between is not touched by the late failure -/
theorem k1_history_other_start_untouched :
    (({} : Client2).run [.l1 (.start id1 req1 (some 1)), .blockWrite id1, .l1 (.tick 300000001),
      .deliverDecoded id1 resp1, .l1 (.start [9,9,9,9,9,9,9,9,9,9,9,9] req1 (some 2)), .release false,
      .deliverDecoded [9,9,9,9,9,9,9,9,9,9,9,9] resp1]).2 =
      [.write req1 (some 1), .write req1 (some 1), .call 1 id1 (.msg resp1), .write req1 (some 2),
       .call 2 [9,9,9,9,9,9,9,9,9,9,9,9] (.msg resp1)] := by
  decide

/-- a failing blocked Write with nothing in between is the ordinary L1 write failure: one invocation -/
theorem blocked_write_failure_alone :
    (({} : Client2).run [.l1 (.start id1 req1 (some 1)), .blockWrite id1, .l1 (.tick 300000001), .release false]).2 =
      [.write req1 (some 1), .write req1 (some 1), .call 1 id1 .writeErr] := by
  decide

/-- F12 (known finding): the response arrives while `Start` is still inside its first `Connection.Write`; the handler
    runs; the `Write` then fails and `Start` returns an error — "if Start returns an error the handler is never
    invoked" does not hold on this schedule. (The agent no longer knows the id, so the error is a StopErr.) -/
theorem f12_start_error_after_handler_ran :
    (({} : Client2).step (.startBlocked id1 req1 1)).2.1 = none ∧
    ((({} : Client2).step (.startBlocked id1 req1 1)).1.step (.deliverDecoded id1 resp1)).2.2 = [.call 1 id1 (.msg resp1)] ∧
    (((({} : Client2).step (.startBlocked id1 req1 1)).1.step (.deliverDecoded id1 resp1)).1.step (.release false)).2.1
      = some .stopErr := by
  decide

/-- without an intervening response the blocked first write behaves like the L1 Start: error, handler never invoked -/
theorem start_blocked_failure_alone :
    (({} : Client2).run [.startBlocked id1 req1 1, .release false, .l1 (.tick 900000000), .l1 .close]).2 =
      [.write req1 (some 1), .connClose] := by
  decide

/-- the third suspension point: the collector is inside `ClientAgent.Start` of a retransmission (the transaction is
    registered with the client again, not yet with the agent); the response completes it; `Start` then fails. The
    client must not finish the transaction a second time (defect K1b on the pinned tree: same double `Put` as K1). -/
theorem k1b_history :
    (({} : Client2).run [.l1 (.start id1 req1 (some 1)), .blockAgent id1, .l1 (.tick 300000001),
      .deliverDecoded id1 resp1, .release false]).2 =
      [.write req1 (some 1), .call 1 id1 (.msg resp1)] := by
  decide

/-- with nothing in between, a failing agent `Start` is the L1 behaviour: the handler gets the agent's error once -/
theorem agent_start_failure_alone :
    (({} : Client2).run [.l1 (.start id1 req1 (some 1)), .blockAgent id1, .l1 (.tick 300000001), .release false]).2 =
      [.write req1 (some 1), .call 1 id1 .agentClosed] := by
  decide

/-- … and a succeeding one is the L1 retransmission -/
theorem agent_start_ok_alone :
    (({} : Client2).run [.l1 (.start id1 req1 (some 1)), .blockAgent id1, .l1 (.tick 300000001), .release true]).2 =
      [.write req1 (some 1), .write req1 (some 1)] := by
  decide

/-- F14 (known finding, C11): the response is processed while the collector is inside `ClientAgent.Start`; the
    retransmission then still registers the id with the agent and writes the request once more — a write after the
    transaction has completed -/
theorem f14_write_after_completion :
    (({} : Client2).run [.l1 (.start id1 req1 (some 1)), .blockAgent id1, .l1 (.tick 300000001),
      .deliverDecoded id1 resp1, .release true]).2 =
      [.write req1 (some 1), .call 1 id1 (.msg resp1), .write req1 (some 1)] := by
  decide


/-! ### at most once, for ALL L2 histories

  Histories over every L1 operation plus blocking writes, blocking agent registrations, blocking first writes of
  `Start`, their release with success or failure, and datagrams processed in between - any length, any ids, any
  number of simultaneously suspended calls. `Proofs/ClientL2Acct.lean` redoes the L1 accounting over suspended states:
  every suspended call carries the transaction it registered (`SuspOK`), its second half finishes that transaction
  only if it is still the registered one (`deleteIfCurrent`), and so invocations plus table entries never exceed the
  `Start`s. The inequality (not equality) is forced by `Start`'s own error path, which deletes by id. -/

/-- no handler is ever invoked twice, whatever blocks and whatever happens meanwhile -/
theorem l2_handler_at_most_once (ops : List COp2) (h : Nat) (hu : startCount2 h ops ≤ 1) :
    calls h (({} : Client2).run ops).2 ≤ 1 := by
  have := (run2_spec ops [] {} inv2_init).2.2 h
  have h0 : pend h ({} : Client2).c = 0 := rfl
  omega

/-- a handler that was never given to `Start` is never invoked -/
theorem l2_never_started_never_invoked (ops : List COp2) (h : Nat) (hu : startCount2 h ops = 0) :
    calls h (({} : Client2).run ops).2 = 0 := by
  have := (run2_spec ops [] {} inv2_init).2.2 h
  have h0 : pend h ({} : Client2).c = 0 := rfl
  omega

/-- every invocation is the handler of a `Start` of the history, under the id it was started with -/
theorem l2_invocation_from_start (ops : List COp2) (h : Nat) (id : TID) (e : CEv)
    (hm : COut.call h id e ∈ (({} : Client2).run ops).2) : ∃ raw, (h, id, raw) ∈ starts2Of ops := by
  obtain ⟨raw, hr⟩ := (run2_spec ops [] {} inv2_init).2.1 h id e hm
  exact ⟨raw, by simpa using hr⟩

/-- the hypothesis is met by the K1 / K1b / F12 / F14 histories (one `Start` of handler 1 each), so the theorem
    speaks about them -/
example : startCount2 1 k1History ≤ 1 := by decide
example : startCount2 1 [.startBlocked id1 req1 1, .deliverDecoded id1 resp1, .release false] ≤ 1 := by decide

/-- F15 (known finding): `Start(h1)` is inside its first `Connection.Write`; the response arrives and completes it
    (h1 runs); a second `Start(h2)` registers the SAME transaction id and returns nil; the first `Write` then fails and
    `Start(h1)`'s error path deletes by id - removing h2's registration - and stops h2's agent transaction. h2's own
    response then goes to nobody, no timeout is ever reported for it and `Close` does not complete it: a handler whose
    `Start` returned nil is never invoked. (`l2_handler_at_most_once` is an inequality for exactly this reason.) -/
theorem f15_same_id_restart_loses_handler :
    let ops : List COp2 := [.startBlocked id1 req1 1, .deliverDecoded id1 resp1, .l1 (.start id1 req1 (some 2)),
      .release false, .deliverDecoded id1 resp1, .l1 (.tick 900000000), .l1 .close]
    ((({} : Client2).step (.startBlocked id1 req1 1)).1.step (.deliverDecoded id1 resp1)).1.step
        (.l1 (.start id1 req1 (some 2))) |>.2.1 = none ∧          -- Start(h2) returned nil
    calls 1 (({} : Client2).run ops).2 = 1 ∧ calls 2 (({} : Client2).run ops).2 = 0 := by
  decide

end Stun.C10L2
