/-
  C13 — the Agent behaves as its transaction-table specification, for every sequence of calls.
-/
import Stun.Model.Agent
namespace Stun.C13
open Stun Stun.Agent

/-- number of table entries for `id` -/
def cnt (id : TID) (l : List (TID × Nat)) : Nat := (l.filter (fun p => p.1 == id)).length

def keys (a : Agent) : List TID := a.table.map (·.1)

/-- table invariant: no transaction id is registered twice; a closed agent has an empty table -/
structure Inv (a : Agent) : Prop where
  nodup : (keys a).Nodup
  closedEmpty : a.closed = true → a.table = []

def isTerminal : EvKind → Bool
  | .stopped | .timeout | .closed => true
  | .msg r => r

/-- number of terminal events for `id` in an event list (a Process of a registered id ends it too) -/
def terms (id : TID) (evs : List AEvent) : Nat := (evs.filter (fun e => e.id == id && isTerminal e.kind)).length

/-- 1 if this step is a successful `Start id` -/
def startInc (id : TID) (op : AOp) (e : Option AErr) : Nat :=
  match op, e with
  | .start id' _, none => if id' == id then 1 else 0
  | _, _ => 0

theorem cnt_le_one (a : Agent) (h : Inv a) (id : TID) : cnt id a.table ≤ 1 := by
  have hn := h.nodup
  unfold keys at hn
  unfold cnt
  generalize a.table = l at hn
  induction l with
  | nil => simp
  | cons p r ih =>
    simp only [List.map_cons, List.nodup_cons] at hn
    simp only [List.filter_cons]
    by_cases hp : p.1 == id
    · simp only [hp, if_true, List.length_cons]
      have : (r.filter (fun q => q.1 == id)) = [] := by
        rw [List.filter_eq_nil_iff]
        intro q hq hqid
        have h1 : q.1 = id := by simpa using hqid
        have h2 : p.1 = id := by simpa using hp
        exact hn.1 (by rw [h2, ← h1]; exact List.mem_map_of_mem hq)
      rw [this]; simp
    · simp only [hp]; exact ih hn.2

theorem has_iff_cnt (a : Agent) (id : TID) : a.has id = true ↔ 0 < cnt id a.table := by
  unfold Agent.has cnt
  rw [List.any_eq_true, List.length_pos_iff]
  constructor
  · rintro ⟨p, hp, hpid⟩ hnil
    have : p ∈ a.table.filter (fun p => p.1 == id) := List.mem_filter.mpr ⟨hp, hpid⟩
    rw [hnil] at this; simp at this
  · intro hne
    obtain ⟨p, hp⟩ := List.exists_mem_of_ne_nil _ hne
    have := List.mem_filter.mp hp
    exact ⟨p, this.1, this.2⟩

theorem cnt_zero_of_not_has (a : Agent) (id : TID) (h : ¬ a.has id = true) : cnt id a.table = 0 :=
  Nat.eq_zero_of_not_pos (fun hpos => h ((has_iff_cnt a id).mpr hpos))

theorem cnt_del_self (l : List (TID × Nat)) (id : TID) : cnt id (l.filter (fun p => p.1 != id)) = 0 := by
  unfold cnt
  rw [List.filter_filter, List.length_eq_zero_iff, List.filter_eq_nil_iff]
  intro p _; simp

theorem cnt_del_other (l : List (TID × Nat)) (id id' : TID) (h : id' ≠ id) :
    cnt id (l.filter (fun p => p.1 != id')) = cnt id l := by
  unfold cnt
  rw [List.filter_filter]
  congr 1
  apply List.filter_congr
  intro p _
  by_cases hp : p.1 = id
  · simp [hp, Ne.symm h]
  · simp [hp]

theorem cnt_partition (l : List (TID × Nat)) (id : TID) (q : TID × Nat → Bool) :
    cnt id (l.filter q) + cnt id (l.filter (fun p => !q p)) = cnt id l := by
  unfold cnt
  induction l with
  | nil => rfl
  | cons p r ih =>
    cases hq : q p <;> cases hk : (p.1 == id) <;>
      simp only [List.filter_cons, hq, hk, Bool.not_true, Bool.not_false, if_true, if_false, List.length_cons,
        Bool.false_eq_true] <;> omega

theorem nodup_filter (l : List (TID × Nat)) (q : TID × Nat → Bool) (h : (l.map (·.1)).Nodup) :
    ((l.filter q).map (·.1)).Nodup := by
  induction l with
  | nil => simp
  | cons p r ih =>
    simp only [List.map_cons, List.nodup_cons] at h
    by_cases hq : q p
    · simp only [List.filter_cons, hq, if_true, List.map_cons, List.nodup_cons]
      refine ⟨?_, ih h.2⟩
      intro hm
      obtain ⟨x, hx, hx1⟩ := List.mem_map.mp hm
      exact h.1 (List.mem_map.mpr ⟨x, (List.mem_filter.mp hx).1, hx1⟩)
    · simp only [List.filter_cons, hq]; exact ih h.2

/-- generic form of `nodup_filter` (any value type) -/
theorem nodup_filter' {β : Type} (l : List (TID × β)) (q : TID × β → Bool) (h : (l.map (·.1)).Nodup) :
    ((l.filter q).map (·.1)).Nodup := by
  induction l with
  | nil => simp
  | cons p r ih =>
    simp only [List.map_cons, List.nodup_cons] at h
    by_cases hq : q p
    · simp only [List.filter_cons, hq, if_true, List.map_cons, List.nodup_cons]
      refine ⟨?_, ih h.2⟩
      intro hm
      obtain ⟨x, hx, hx1⟩ := List.mem_map.mp hm
      exact h.1 (List.mem_map.mpr ⟨x, (List.mem_filter.mp hx).1, hx1⟩)
    · simp only [List.filter_cons, hq]; exact ih h.2

theorem terms_map (l : List (TID × Nat)) (id : TID) (g : Nat) (k : EvKind) (hk : isTerminal k = true) :
    terms id (l.map (fun p => (⟨g, p.1, k⟩ : AEvent))) = cnt id l := by
  unfold terms cnt
  induction l with
  | nil => simp
  | cons p r ih =>
    by_cases hp : p.1 == id <;> simp [List.filter_cons, hp, hk] <;> simpa using ih

/-- one step: the invariant is kept, and for every id
    (successful Start of id) + (registered before) = (terminal events for id) + (registered after) -/
theorem step_spec (a : Agent) (h : Inv a) (op : AOp) :
    Inv (a.step op).1 ∧
    ∀ id, startInc id op (a.step op).2.1 + cnt id a.table = terms id (a.step op).2.2 + cnt id (a.step op).1.table := by
  cases hcl : a.closed with
  | true =>
    have : a.step op = (a, some .closed, []) := by
      cases op <;> simp [Agent.step, Agent.start, Agent.stop, Agent.process, Agent.collect, Agent.setHandler,
        Agent.close, hcl]
    rw [this]
    refine ⟨h, fun id => ?_⟩
    cases op <;> simp [startInc, terms]
  | false =>
  have hdel : ∀ id', Inv (a.del id') := fun id' =>
    ⟨nodup_filter _ _ h.nodup, by intro hc; simp [Agent.del, hcl] at hc⟩
  cases op with
  | start id' d =>
    cases hh : a.has id' with
    | true =>
      have : a.step (.start id' d) = (a, some .exists, []) := by simp [Agent.step, Agent.start, hcl, hh]
      rw [this]; exact ⟨h, fun id => by simp [startInc, terms]⟩
    | false =>
      have : a.step (.start id' d) = ({ a with table := a.table ++ [(id', d)] }, none, []) := by
        simp [Agent.step, Agent.start, hcl, hh]
      rw [this]
      have h0 : cnt id' a.table = 0 := cnt_zero_of_not_has a id' (by simp [hh])
      refine ⟨⟨?_, by simp [hcl]⟩, ?_⟩
      · unfold keys; simp only [List.map_append, List.map_cons, List.map_nil]
        rw [List.nodup_append]
        refine ⟨h.nodup, by simp, ?_⟩
        intro x hx y hy
        simp only [List.mem_singleton] at hy; subst hy
        intro hxy; subst hxy
        obtain ⟨p, hp, hp1⟩ := List.mem_map.mp hx
        have : 0 < cnt x a.table := (has_iff_cnt a x).mp (by
          unfold Agent.has; rw [List.any_eq_true]; exact ⟨p, hp, by simp [hp1]⟩)
        omega
      · intro id
        simp only [startInc, terms, cnt, List.filter_append, List.length_append, List.filter_nil, List.length_nil]
        cases hid : (id' == id) <;> simp [List.filter_cons, hid] <;> omega
  | stop id' =>
    cases hh : a.has id' with
    | true =>
      have : a.step (.stop id') = (a.del id', none, [⟨a.hgen, id', .stopped⟩]) := by
        simp [Agent.step, Agent.stop, hcl, hh]
      rw [this]
      refine ⟨hdel id', fun id => ?_⟩
      have h1 : cnt id' a.table = 1 := by
        have := (has_iff_cnt a id').mp hh; have := cnt_le_one a h id'; omega
      by_cases hid : id' = id
      · subst hid
        have : terms id' [(⟨a.hgen, id', .stopped⟩ : AEvent)] = 1 := by simp [terms, isTerminal]
        rw [this]; simp only [startInc, Agent.del]; rw [cnt_del_self, h1]
      · have : terms id [(⟨a.hgen, id', .stopped⟩ : AEvent)] = 0 := by simp [terms, hid]
        rw [this]; simp only [startInc, Agent.del]; rw [cnt_del_other _ _ _ hid]
    | false =>
      have : a.step (.stop id') = (a.del id', some .notExists, []) := by
        simp [Agent.step, Agent.stop, hcl, hh]
      rw [this]
      refine ⟨hdel id', fun id => ?_⟩
      have h0 : cnt id' a.table = 0 := cnt_zero_of_not_has a id' (by simp [hh])
      by_cases hid : id' = id
      · subst hid; simp only [startInc, terms, Agent.del]; rw [cnt_del_self, h0]; simp
      · simp only [startInc, terms, Agent.del]; rw [cnt_del_other _ _ _ hid]; simp
  | process id' =>
    have : a.step (.process id') = (a.del id', none, [⟨a.hgen, id', .msg (a.has id')⟩]) := by
      simp [Agent.step, Agent.process, hcl]
    rw [this]
    refine ⟨hdel id', fun id => ?_⟩
    by_cases hid : id' = id
    · subst hid
      cases hh : a.has id' with
      | true =>
        have h1 : cnt id' a.table = 1 := by
          have := (has_iff_cnt a id').mp hh; have := cnt_le_one a h id'; omega
        have : terms id' [(⟨a.hgen, id', .msg true⟩ : AEvent)] = 1 := by simp [terms, isTerminal]
        rw [this]; simp only [startInc, Agent.del]; rw [cnt_del_self, h1]
      | false =>
        have h0 : cnt id' a.table = 0 := cnt_zero_of_not_has a id' (by simp [hh])
        have : terms id' [(⟨a.hgen, id', .msg false⟩ : AEvent)] = 0 := by simp [terms, isTerminal]
        rw [this]; simp only [startInc, Agent.del]; rw [cnt_del_self, h0]
    · have : terms id [(⟨a.hgen, id', .msg (a.has id')⟩ : AEvent)] = 0 := by simp [terms, hid]
      rw [this]; simp only [startInc, Agent.del]; rw [cnt_del_other _ _ _ hid]
  | collect t =>
    have : a.step (.collect t) = ({ a with table := a.table.filter (fun p => ¬ p.2 < t) }, none,
        (a.table.filter (fun p => p.2 < t)).map (fun p => ⟨a.hgen, p.1, .timeout⟩)) := by
      simp [Agent.step, Agent.collect, hcl]
    rw [this]
    refine ⟨⟨nodup_filter _ _ h.nodup, by simp [hcl]⟩, fun id => ?_⟩
    simp only [startInc, Nat.zero_add]
    rw [terms_map _ _ _ _ rfl]
    have := cnt_partition a.table id (fun p => decide (p.2 < t))
    have e : (a.table.filter fun p => decide (¬ p.2 < t)) = (a.table.filter fun p => !decide (p.2 < t)) := by
      apply List.filter_congr; intro p _; by_cases hlt : p.2 < t <;> simp [hlt]
    rw [e]; omega
  | setHandler =>
    have : a.step .setHandler = ({ a with hgen := a.hgen + 1 }, none, []) := by
      simp [Agent.step, Agent.setHandler, hcl]
    rw [this]
    exact ⟨⟨h.nodup, by simp [hcl]⟩, fun id => by simp [startInc, terms]⟩
  | close =>
    have : a.step .close = ({ a with closed := true, table := [] }, none,
        a.table.map (fun p => ⟨a.hgen, p.1, .closed⟩)) := by
      simp [Agent.step, Agent.close, hcl]
    rw [this]
    refine ⟨⟨by simp [keys], by simp⟩, fun id => ?_⟩
    simp only [startInc, Nat.zero_add]
    rw [terms_map _ _ _ _ rfl]; simp [cnt]

/-- totals over a recorded history -/
def totalStarts (id : TID) (tr : List (AOp × Option AErr × List AEvent)) : Nat :=
  (tr.map (fun x => startInc id x.1 x.2.1)).sum
def totalTerms (id : TID) (tr : List (AOp × Option AErr × List AEvent)) : Nat :=
  (tr.map (fun x => terms id x.2.2)).sum

/-- For every history from any consistent state and every transaction id:
    successful Starts + registered at the beginning = terminal events + still registered at the end.
    Hence every registration gets at most one terminal event, and exactly one once it is no longer registered. -/
theorem exactly_one_terminal (ops : List AOp) (a : Agent) (h : Inv a) (id : TID) :
    Inv (a.run ops).1 ∧
    totalStarts id (a.run ops).2 + cnt id a.table = totalTerms id (a.run ops).2 + cnt id (a.run ops).1.table := by
  induction ops generalizing a with
  | nil => exact ⟨h, by simp [Agent.run, totalStarts, totalTerms]⟩
  | cons op r ih =>
    obtain ⟨hi, hs⟩ := step_spec a h op
    have hs' := hs id
    rcases hstep : a.step op with ⟨a', e, evs⟩
    rw [hstep] at hi hs'
    simp only at hi hs'
    obtain ⟨hi2, hr⟩ := ih a' hi
    simp only [Agent.run, hstep]
    refine ⟨hi2, ?_⟩
    simp only [totalStarts, totalTerms, List.map_cons, List.sum_cons] at hr ⊢
    omega

/-- a fresh agent satisfies the invariant -/
theorem inv_init : Inv {} := ⟨by simp [keys], by simp⟩

/-- after Close every call returns ErrAgentClosed, emits nothing and changes nothing -/
theorem after_close (a : Agent) (hc : a.closed = true) (op : AOp) : a.step op = (a, some .closed, []) := by
  cases op <;> simp [Agent.step, Agent.start, Agent.stop, Agent.process, Agent.collect, Agent.setHandler,
    Agent.close, hc]

/-- Start fails exactly for a closed agent or a duplicate id -/
theorem start_ok_iff (a : Agent) (id : TID) (d : Nat) :
    (a.start id d).2 = none ↔ a.closed = false ∧ a.has id = false := by
  unfold Agent.start
  by_cases hc : a.closed = true
  · simp [hc]
  · by_cases hh : a.has id = true <;> simp [hc, hh]

/-- Stop emits exactly one `stopped` event for a registered id and reports not-exists otherwise -/
theorem stop_spec (a : Agent) (hc : a.closed = false) (id : TID) :
    (a.has id = true → (a.stop id).2 = (none, [⟨a.hgen, id, .stopped⟩])) ∧
    (a.has id = false → (a.stop id).2 = (some .notExists, [])) := by
  unfold Agent.stop
  constructor <;> intro hh <;> simp [hc, hh]

/-- Process always emits the message and unregisters the id -/
theorem process_spec (a : Agent) (hc : a.closed = false) (id : TID) :
    (a.process id).2.1 = none ∧ (∃ r, (a.process id).2.2 = [⟨a.hgen, id, .msg r⟩]) ∧ (a.process id).1.has id = false := by
  unfold Agent.process
  simp only [hc, Bool.false_eq_true, if_false]
  refine ⟨trivial, ⟨_, rfl⟩, ?_⟩
  simp [Agent.has, Agent.del]

/-- Collect(t) emits a timeout for exactly the transactions whose deadline is strictly before t
    (a deadline equal to t is not collected) and keeps exactly the others -/
theorem collect_spec (a : Agent) (hc : a.closed = false) (t : Nat) :
    (a.collect t).2.1 = none ∧
    (a.collect t).2.2 = (a.table.filter (fun p => p.2 < t)).map (fun p => ⟨a.hgen, p.1, .timeout⟩) ∧
    (a.collect t).1.table = a.table.filter (fun p => ¬ p.2 < t) := by
  unfold Agent.collect; simp [hc]

/-- Close emits a closed event for exactly the remaining transactions -/
theorem close_spec (a : Agent) (hc : a.closed = false) :
    (a.close).2.1 = none ∧ (a.close).2.2 = a.table.map (fun p => ⟨a.hgen, p.1, .closed⟩) ∧
    (a.close).1.closed = true ∧ (a.close).1.table = [] := by
  unfold Agent.close; simp [hc]

-- non-vacuity: a 5-call history with a timeout, a stop and a close
example : (({} : Agent).run [.start [1] 10, .start [2] 20, .collect 15, .stop [2], .close]).2.map (fun x => x.2.2.length)
    = [0, 0, 1, 1, 0] := by decide

/-- two `Collect`s report, together, exactly what one `Collect` at the later time reports (as a multiset: the events
    of the first call come first), and leave the same table: ticks of a collector may be split, merged or - being
    single critical sections (C14) - overlap, without any transaction being reported twice or not at all -/
theorem collect_twice (a : Agent) (t1 t2 : Nat) (h : t1 ≤ t2) :
    ((a.collect t1).1.collect t2).1 = (a.collect t2).1 ∧
    List.Perm ((a.collect t1).2.2 ++ ((a.collect t1).1.collect t2).2.2) (a.collect t2).2.2 := by
  unfold Agent.collect
  by_cases hc : a.closed = true
  · simp [hc]
  · simp only [hc, Bool.false_eq_true, if_false]
    constructor
    · -- the table: keeping ≥ t1 and then ≥ t2 is keeping ≥ t2
      congr 1
      rw [List.filter_filter]
      apply List.filter_congr
      intro p _
      by_cases h2 : p.2 < t2 <;> by_cases h1 : p.2 < t1 <;> simp [h1, h2] <;> omega
    · rw [← List.map_append]
      apply List.Perm.map
      -- gone(t2) splits into gone(t1) and the part of the rest that is < t2
      have hsplit := List.filter_append_perm (fun p : TID × Nat => decide (p.2 < t1)) (a.table.filter (fun p => decide (p.2 < t2)))
      have e1 : (a.table.filter (fun p => decide (p.2 < t2))).filter (fun p => decide (p.2 < t1)) =
          a.table.filter (fun p => decide (p.2 < t1)) := by
        rw [List.filter_filter]
        apply List.filter_congr
        intro p _
        by_cases h1 : p.2 < t1 <;> by_cases h2 : p.2 < t2 <;> simp [h1, h2]; omega
      have e2 : (a.table.filter (fun p => decide (p.2 < t2))).filter (fun p => !decide (p.2 < t1)) =
          (a.table.filter (fun p => decide ¬ p.2 < t1)).filter (fun p => decide (p.2 < t2)) := by
        rw [List.filter_filter, List.filter_filter]
        apply List.filter_congr
        intro p _
        by_cases h1 : p.2 < t1 <;> by_cases h2 : p.2 < t2 <;> simp [h1, h2]
      rw [e1, e2] at hsplit
      exact hsplit

/-- the same accounting for the histories a user sees — those of a freshly created agent: at every point no
    transaction id has received more terminal events than it had successful Starts, the difference is 1 exactly
    while it is registered, and once the agent is closed every successful Start has had exactly one terminal event -/
theorem fresh_history (ops : List AOp) (id : TID) :
    totalTerms id (Agent.run {} ops).2 ≤ totalStarts id (Agent.run {} ops).2 ∧
    totalStarts id (Agent.run {} ops).2 = totalTerms id (Agent.run {} ops).2 + cnt id (Agent.run {} ops).1.table ∧
    ((Agent.run {} ops).1.closed = true → totalStarts id (Agent.run {} ops).2 = totalTerms id (Agent.run {} ops).2) := by
  obtain ⟨hi, he⟩ := exactly_one_terminal ops {} inv_init id
  have h0 : cnt id ({} : Agent).table = 0 := by simp [cnt]
  rw [h0, Nat.add_zero] at he
  refine ⟨by omega, he, fun hc => ?_⟩
  have : cnt id (Agent.run {} ops).1.table = 0 := by rw [hi.closedEmpty hc]; simp [cnt]
  omega

/-- Close is final for whole histories: from a closed agent every call of every continuation returns ErrAgentClosed,
    emits no event and leaves the state as it is -/
theorem closed_forever (ops : List AOp) (a : Agent) (hc : a.closed = true) :
    (a.run ops).1 = a ∧ ∀ x ∈ (a.run ops).2, x.2 = (some AErr.closed, []) := by
  induction ops with
  | nil => exact ⟨rfl, by simp [Agent.run]⟩
  | cons op r ih =>
    have e := after_close a hc op
    simp only [Agent.run, e]
    refine ⟨ih.1, ?_⟩
    intro x hx
    rcases List.mem_cons.1 hx with rfl | hx
    · rfl
    · exact ih.2 x hx

end Stun.C13
