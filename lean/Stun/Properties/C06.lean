/-
  C06 — typed attributes round-trip and use the RFC 5389 §15 wire formats.
  Spec encoders/decoders are in Stun/Spec/Attrs.lean (written from the RFC). For every valid value:
  (1) what the setter hands to Add is the RFC encoding, (2) the getter reads any RFC-encoded value correctly,
  (3) an RFC decoder reads the encoding back (spec round trip), (4) add → re-decode → Get returns the value.
-/
import Stun.Spec.Attrs
import Stun.Proofs.CanonicalDecode
namespace Stun.C06
open Stun Stun.Msg Stun.Spec Stun.BuildProofs
set_option maxHeartbeats 400000

theorem xor_invol (a k : Bytes) (h : a.length ≤ k.length) : xorBytes (xorBytes a k) k = a := by
  unfold xorBytes
  induction a generalizing k with
  | nil => simp
  | cons x r ih =>
    cases k with
    | nil => simp at h
    | cons y s =>
      simp only [List.zipWith_cons_cons, List.cons.injEq]
      refine ⟨?_, ih s (by simpa using h)⟩
      rw [UInt8.xor_assoc, UInt8.xor_self, UInt8.xor_zero]

theorem xorBytes_length (a k : Bytes) (h : a.length ≤ k.length) : (xorBytes a k).length = a.length := by
  simp [xorBytes, List.length_zipWith]; omega

theorem xorKey_eq (tid : Bytes) : xorKey tid = put32 magicCookie ++ tid := rfl

/-! #### the bytes handed to `Add` are the RFC encodings -/

/-- a valid address: 4 bytes, or 16 bytes that are not an IPv4-mapped IPv6 address -/
def PlainAddr (ip : Bytes) : Prop := ip.length = 4 ∨ (ip.length = 16 ∧ isIPv4 ip = false)

theorem addrFamily_plain (ip : Bytes) (h : PlainAddr ip) : addrFamily ip = some (familyOf ip, ip) := by
  unfold addrFamily familyOf
  rcases h with h | ⟨h, hv⟩
  · simp [h, familyIPv4]
  · simp [h, hv, familyIPv6]

/-- an IPv4-mapped IPv6 address is written as its 4-byte IPv4 form (RFC family 0x01) -/
theorem addrFamily_mapped (ip : Bytes) (h : ip.length = 16) (hv : isIPv4 ip = true) :
    addrFamily ip = some (1, (ip.drop 12).take 4) := by
  unfold addrFamily; simp [h, hv, familyIPv4]

theorem xor_add_eq_rfc (m : Msg) (attr : Nat) (ip : Bytes) (port : Nat) (h : PlainAddr ip) :
    xorAddToAs m attr ip port = (m.add attr (encXor m.tid ip port), none) := by
  unfold xorAddToAs; rw [addrFamily_plain ip h]
  simp only [encXor, xorKey_eq, xorBytes]
  congr 2
  have : magicCookie >>> 16 = 0x2112 := by decide
  rw [this]
  have : put16 (familyOf ip) = [0, UInt8.ofNat (familyOf ip)] := by
    unfold familyOf put16; split <;> rfl
  rw [this]

theorem mapped_add_eq_rfc (m : Msg) (attr : Nat) (ip : Bytes) (port : Nat) (h : PlainAddr ip) :
    mappedAddToAs m attr ip port = (m.add attr (encMapped ip port), none) := by
  unfold mappedAddToAs; rw [addrFamily_plain ip h]
  simp only [encMapped]
  have : put16 (familyOf ip) = [0, UInt8.ofNat (familyOf ip)] := by
    unfold familyOf put16; split <;> rfl
  rw [this]

theorem errorCode_add_eq_rfc (m : Msg) (code : Nat) (reason : Bytes) (h : reason.length ≤ 763) :
    errorCodeAddTo m code reason = (m.add attrErrorCode (encErrorCode code reason), none) := by
  unfold errorCodeAddTo checkOverflow
  have : reason.length + errorCodeReasonStart ≤ errorCodeReasonMaxB + errorCodeReasonStart := by
    simp only [errorCodeReasonMaxB]; omega
  simp [this, encErrorCode, errorCodeModulo]

theorem unknown_add_eq_rfc (m : Msg) (ts : List Nat) :
    unknownAddTo m ts = (m.add attrUnknownAttributes (encUnknown ts), none) := rfl

theorem text_add (m : Msg) (k : TextKind) (v : Bytes) (h : v.length ≤ k.limit) :
    textAddToAs m k.attr v k.limit = (m.add k.attr v, none) := by
  unfold textAddToAs checkOverflow; simp [h]

/-! #### the getters read RFC-encoded values correctly (any transaction id, any port, IPv4 and IPv6) -/

theorem be16_cons2 (a b : UInt8) (t : Bytes) : be16 (a :: b :: t) = u16 a b := rfl

theorem xorGet_rfc (m : Msg) (attr : Nat) (ip : Bytes) (port : Nat)
    (hlen : ip.length = 4 ∨ ip.length = 16) (hp : port < 65536) (htid : m.tid.length = 12)
    (hg : m.get attr = some (encXor m.tid ip port)) : xorGetFromAs m attr = .ok ⟨ip, port⟩ := by
  unfold xorGetFromAs; rw [hg]
  have hk : (xorKey m.tid).length = 16 := by simp [xorKey, put32, htid]
  have hzl : (List.zipWith (· ^^^ ·) ip (xorKey m.tid)).length = ip.length := by
    simp [List.length_zipWith]; omega
  have hl : (encXor m.tid ip port).length = 4 + ip.length := by simp [encXor, put16, hzl]; omega
  have hxp : port ^^^ 0x2112 < 65536 := Nat.xor_lt_two_pow (n := 16) hp (by decide)
  have r0 : rd16 (encXor m.tid ip port) 0 = some (familyOf ip) := by
    unfold rd16; rw [if_pos (by omega)]
    simp only [List.drop_zero, encXor, List.cons_append, List.nil_append, be16_cons2, u16]
    unfold familyOf; split <;> simp
  have r2 : rd16 (encXor m.tid ip port) 2 = some (port ^^^ 0x2112) := by
    unfold rd16; rw [if_pos (by omega)]
    simp only [encXor, List.cons_append, List.nil_append, List.drop_succ_cons, List.drop_zero, List.append_assoc]
    rw [be16_put16_append _ hxp]
  have s4 : sliceFrom (encXor m.tid ip port) 4 = some (List.zipWith (· ^^^ ·) ip (xorKey m.tid)) := by
    unfold sliceFrom; rw [if_pos (by omega)]
    simp [encXor, put16]
  simp only
  rw [if_neg (by omega)]
  simp only [r0, r2, s4]
  have hfam : ¬ (familyOf ip ≠ familyIPv6 ∧ familyOf ip ≠ familyIPv4) := by
    unfold familyOf familyIPv6 familyIPv4; split <;> simp
  rw [if_neg hfam]
  have hip : (if familyOf ip = familyIPv6 then 16 else 4) = ip.length := by
    unfold familyOf familyIPv6; rcases hlen with h | h <;> simp [h]
  rw [hip, hzl]
  simp only [checkOverflow, Nat.le_refl, decide_true, Bool.not_true, Bool.false_eq_true, if_false, not_true_eq_false]
  have hx : xorBytes (List.zipWith (· ^^^ ·) ip (xorKey m.tid)) (put32 magicCookie ++ m.tid) = ip := by
    have := xor_invol ip (xorKey m.tid) (by omega)
    simpa [xorBytes, xorKey_eq] using this
  rw [hx]
  have hport : (port ^^^ 0x2112) ^^^ (magicCookie >>> 16) = port := by
    have : magicCookie >>> 16 = 0x2112 := by decide
    rw [this, Nat.xor_assoc, Nat.xor_self, Nat.xor_zero]
  rw [hport]
  simp [Msg.zeros]

theorem mappedGet_rfc (m : Msg) (attr : Nat) (ip : Bytes) (port : Nat)
    (hlen : ip.length = 4 ∨ ip.length = 16) (hp : port < 65536)
    (hg : m.get attr = some (encMapped ip port)) : mappedGetFromAs m attr = .ok ⟨ip, port⟩ := by
  unfold mappedGetFromAs; rw [hg]
  have hl : (encMapped ip port).length = 4 + ip.length := by simp [encMapped, put16]; omega
  have r0 : rd16 (encMapped ip port) 0 = some (familyOf ip) := by
    unfold rd16; rw [if_pos (by omega)]
    simp only [List.drop_zero, encMapped, List.cons_append, List.nil_append, be16_cons2, u16]
    unfold familyOf; split <;> simp
  have r2 : rd16 (encMapped ip port) 2 = some port := by
    unfold rd16; rw [if_pos (by omega)]
    simp only [encMapped, List.cons_append, List.nil_append, List.drop_succ_cons, List.drop_zero]
    rw [be16_put16_append _ hp]
  have s4 : sliceFrom (encMapped ip port) 4 = some ip := by
    unfold sliceFrom; rw [if_pos (by omega)]
    simp [encMapped, put16]
  simp only
  rw [if_neg (by omega)]
  simp only [r0, r2, s4]
  have hfam : ¬ (familyOf ip ≠ familyIPv6 ∧ familyOf ip ≠ familyIPv4) := by
    unfold familyOf familyIPv6 familyIPv4; split <;> simp
  rw [if_neg hfam]
  have hip : (if familyOf ip = familyIPv6 then 16 else 4) = ip.length := by
    unfold familyOf familyIPv6; rcases hlen with h | h <;> simp [h]
  rw [hip]
  simp [Msg.zeros]

theorem errorCodeGet_rfc (m : Msg) (code : Nat) (reason : Bytes) (hc : code < 25600)
    (hg : m.get attrErrorCode = some (encErrorCode code reason)) : errorCodeGetFrom m = .ok (code, reason) := by
  unfold errorCodeGetFrom; rw [hg]
  have hl : (encErrorCode code reason).length = 4 + reason.length := by simp [encErrorCode]; omega
  have r2 : rdByte (encErrorCode code reason) 2 = some (UInt8.ofNat (code / 100)) := by
    unfold rdByte; rw [if_pos (by omega)]; simp [encErrorCode]
  have r3 : rdByte (encErrorCode code reason) 3 = some (UInt8.ofNat (code % 100)) := by
    unfold rdByte; rw [if_pos (by omega)]; simp [encErrorCode]
  have s4 : sliceFrom (encErrorCode code reason) errorCodeReasonStart = some reason := by
    unfold sliceFrom errorCodeReasonStart; rw [if_pos (by omega)]; simp [encErrorCode]
  simp only
  rw [if_neg (by simp only [errorCodeReasonStart]; omega)]
  simp only [r2, r3, s4]
  have e1 : (UInt8.ofNat (code / 100)).toNat = code / 100 := by simp [UInt8.toNat_ofNat']; omega
  have e2 : (UInt8.ofNat (code % 100)).toNat = code % 100 := by simp [UInt8.toNat_ofNat']; omega
  rw [e1, e2]
  simp only [w16, errorCodeModulo]
  congr 2
  omega

theorem encUnknown_length (l : List Nat) : (encUnknown l).length = 2 * l.length := by
  unfold encUnknown
  induction l with
  | nil => rfl
  | cons x r ih => simp only [List.flatMap_cons, List.length_append, put16_length, List.length_cons, ih]; omega

theorem unknownLoop_rfc (ts : List Nat) (h : ∀ t ∈ ts, t < 65536) : ∀ (pre : List Nat) (acc : List Nat) (fuel : Nat),
    ts.length ≤ fuel →
    unknownLoop (encUnknown (pre ++ ts)) (2 * pre.length) fuel acc = some (acc ++ ts) := by
  induction ts with
  | nil =>
    intro pre acc fuel _
    have hl := encUnknown_length pre
    rw [List.append_nil, List.append_nil]
    cases fuel with
    | zero => simp only [unknownLoop]; rw [if_neg (by omega)]
    | succ n => simp only [unknownLoop]; rw [if_neg (by omega)]
  | cons t r ih =>
    intro pre acc fuel hf
    cases fuel with
    | zero => simp at hf
    | succ n =>
      have hl := encUnknown_length (pre ++ t :: r)
      simp only [List.length_append, List.length_cons] at hl
      have hdrop : (encUnknown (pre ++ t :: r)).drop (2 * pre.length) = put16 t ++ encUnknown r := by
        have e := (encUnknown_length pre).symm
        unfold encUnknown at e ⊢
        rw [List.flatMap_append, List.flatMap_cons, e, List.drop_left]
      have r16 : rd16 (encUnknown (pre ++ t :: r)) (2 * pre.length) = some t := by
        unfold rd16; rw [if_pos (by omega), hdrop, be16_put16_append _ (h t List.mem_cons_self)]
      simp only [unknownLoop]
      rw [if_pos (by omega), r16]
      simp only [attrTypeSize]
      have := ih (fun x hx => h x (List.mem_cons_of_mem _ hx)) (pre ++ [t]) (acc ++ [t]) n (by simpa using hf)
      simp only [List.append_assoc, List.singleton_append, List.length_append, List.length_cons, List.length_nil] at this
      have e : 2 * pre.length + 2 = 2 * (pre.length + (0 + 1)) := by omega
      rw [e]; exact this

theorem unknownGet_rfc (m : Msg) (ts : List Nat) (h : ∀ t ∈ ts, t < 65536)
    (hg : m.get attrUnknownAttributes = some (encUnknown ts)) : unknownGetFrom m = .ok ts := by
  unfold unknownGetFrom; rw [hg]
  have hlen := encUnknown_length ts
  simp only
  rw [if_neg (by simp only [attrTypeSize, hlen]; omega)]
  have := unknownLoop_rfc ts h [] [] (encUnknown ts).length (by rw [hlen]; omega)
  simp only [List.nil_append, List.length_nil, Nat.mul_zero] at this
  rw [this]

theorem textGet (m : Msg) (attr : Nat) (v : Bytes) (hg : m.get attr = some v) : textGetFromAs m attr = .ok v := by
  unfold textGetFromAs; rw [hg]

/-! #### an independent RFC decoder reads what the library writes (spec round trips) -/

theorem decXor_encXor (tid ip : Bytes) (port : Nat) (hlen : ip.length = 4 ∨ ip.length = 16) (hp : port < 65536)
    (htid : tid.length = 12) : decXor tid (encXor tid ip port) = some (ip, port) := by
  have hk : (xorKey tid).length = 16 := by simp [xorKey, put32, htid]
  have hzl : (List.zipWith (· ^^^ ·) ip (xorKey tid)).length = ip.length := by
    simp [List.length_zipWith]; omega
  have hxp : port ^^^ 0x2112 < 65536 := Nat.xor_lt_two_pow (n := 16) hp (by decide)
  simp only [encXor, put16, List.cons_append, List.nil_append, decXor, hzl]
  have hf : (UInt8.ofNat (familyOf ip) = 1 ∧ ip.length = 4) ∨ (UInt8.ofNat (familyOf ip) = 2 ∧ ip.length = 16) := by
    unfold familyOf; rcases hlen with h | h <;> simp [h]
  rw [if_pos hf]
  have hx := xor_invol ip (xorKey tid) (by omega)
  simp only [xorBytes] at hx
  rw [hx]
  have hu : u16 (UInt8.ofNat ((port ^^^ 0x2112) / 256)) (UInt8.ofNat (port ^^^ 0x2112)) = port ^^^ 0x2112 := by
    have := be16_put16_append (port ^^^ 0x2112) hxp []
    simpa [put16, be16] using this
  rw [hu, Nat.xor_assoc, Nat.xor_self, Nat.xor_zero]

theorem decMapped_encMapped (ip : Bytes) (port : Nat) (hlen : ip.length = 4 ∨ ip.length = 16) (hp : port < 65536) :
    decMapped (encMapped ip port) = some (ip, port) := by
  simp only [encMapped, put16, List.cons_append, List.nil_append, decMapped]
  have hf : (UInt8.ofNat (familyOf ip) = 1 ∧ ip.length = 4) ∨ (UInt8.ofNat (familyOf ip) = 2 ∧ ip.length = 16) := by
    unfold familyOf; rcases hlen with h | h <;> simp [h]
  rw [if_pos hf]
  have hu : u16 (UInt8.ofNat (port / 256)) (UInt8.ofNat port) = port := by
    have := be16_put16_append port hp []
    simpa [put16, be16] using this
  rw [hu]

theorem decErrorCode_enc (code : Nat) (reason : Bytes) (hc : code < 25600) :
    decErrorCode (encErrorCode code reason) = some (code, reason) := by
  simp only [encErrorCode, List.cons_append, List.nil_append, decErrorCode]
  have e1 : (UInt8.ofNat (code / 100)).toNat = code / 100 := by simp [UInt8.toNat_ofNat']; omega
  have e2 : (UInt8.ofNat (code % 100)).toNat = code % 100 := by simp [UInt8.toNat_ofNat']; omega
  rw [e1, e2]; congr 2; omega

theorem decUnknown_enc (ts : List Nat) (h : ∀ t ∈ ts, t < 65536) : decUnknown (encUnknown ts) = some ts := by
  induction ts with
  | nil => rfl
  | cons t r ih =>
    simp only [encUnknown, List.flatMap_cons, put16, List.cons_append, List.nil_append, decUnknown]
    have := ih (fun x hx => h x (List.mem_cons_of_mem _ hx))
    simp only [encUnknown] at this
    rw [this]
    have hu : u16 (UInt8.ofNat (t / 256)) (UInt8.ofNat t) = t := by
      have := be16_put16_append t (h t List.mem_cons_self) []
      simpa [put16, be16] using this
    simp [hu]

/-! #### message level: add, re-decode, read back -/

/-- after adding an attribute of a type not yet present, the re-decoded message's `Get` returns exactly that value -/
theorem get_after_add (m b : Msg) (t : Nat) (v : Bytes) (h : Canonical m) (hm : m.method < 4096) (hc : m.cls < 4)
    (ht : t < 65536) (hfit : m.length + 4 + v.length + pad4 v.length < 65536) (hne : t ≠ 0x8020)
    (hfresh : ∀ a ∈ m.attrs, compat a.typ ≠ t) :
    ((b.decodeFrom (m.add t v).raw).1).get t = some v ∧ ((b.decodeFrom (m.add t v).raw).1).tid = m.tid := by
  have hc' := canonical_add m _ t v h ht hfit
  have hl := h.rawLen
  obtain ⟨_, _, _, _, r5, r6, r7, r8⟩ := add_spec m t v (by omega) h.cap (by have := pad4_lt' v.length; omega)
  obtain ⟨_, _, _, _, d4, d5, _⟩ := canonical_decode (m.add t v) b hc' (by rw [r6]; exact hm) (by rw [r7]; exact hc)
  refine ⟨?_, by rw [d4, r8]⟩
  unfold Msg.get
  rw [d5, r5, List.map_append, List.find?_append]
  have hnone : (m.attrs.map aliasAttr).find? (fun a => a.typ == t) = none := by
    rw [List.find?_eq_none]
    intro a ha
    obtain ⟨a0, ha0, rfl⟩ := List.mem_map.mp ha
    have := hfresh a0 ha0
    simpa [aliasAttr] using this
  rw [hnone]
  have hv : v.length % 65536 = v.length := Nat.mod_eq_of_lt (by omega)
  simp [aliasAttr, compat, hne, hv]

end Stun.C06
