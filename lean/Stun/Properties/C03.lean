/-
  C03 — built messages are well-formed and the struct always matches its wire bytes.
  `Canonical m` (Proofs/Canonical.lean) says: raw = header(type, length, cookie, tid) ++ TLVs of `m.attrs` with zero
  padding, `m.length` = number of body bytes (< 65536), every attribute's Length field = its value's length.
  Statements hold for every previous state of the message object (any spare capacity, any stale content) and every
  MAC function with 20-byte output (HMAC-SHA1 in the driver).
-/
import Stun.Proofs.CanonicalDecode
import Stun.Proofs.Encode
namespace Stun.C03
open Stun Stun.Msg Stun.Spec Stun.BuildProofs

/-- `Build` (Reset, WriteHeader, setters) yields a canonical message from any starting state -/
theorem build_canonical (mac : Bytes → Bytes → Bytes) (hmac : ∀ k x, (mac k x).length = 20)
    (m : Msg) (ss : List Setter) (hcap : m.len ≤ m.mem.length) (htid : m.tid.length = 12)
    (hf : AllFit mac ss m.reset.writeHeader) : Canonical (build mac m ss).1 :=
  BuildProofs.build_canonical mac hmac m ss hcap htid hf

/-- every single building operation preserves canonicity: Add / typed setters / SetType / transaction-ID setter /
    integrity / fingerprint (as `Setter`s), and WriteHeader, WriteLength; hence any sequence of them does
    (`ops_canonical` below). -/
theorem op_preserves_canonical (mac : Bytes → Bytes → Bytes) (hmac : ∀ k x, (mac k x).length = 20)
    (s : Setter) (m : Msg) (h : Canonical m) (hf : SetterFits s m) : Canonical (s.addTo mac m).1 :=
  setter_canonical mac hmac s m h hf

theorem writeHeader_preserves (m : Msg) (h : Canonical m) : Canonical m.writeHeader := canonical_writeHeader m h
theorem writeLength_preserves (m : Msg) (h : Canonical m) : Canonical m.writeLength := canonical_writeLength m _ h

/-- building operations as data, for sequences of arbitrary length -/
inductive Op where
  | set (s : Setter)
  | writeHeader
  | writeLength

def Op.run (mac : Bytes → Bytes → Bytes) (o : Op) (m : Msg) : Msg :=
  match o with
  | .set s => (s.addTo mac m).1
  | .writeHeader => m.writeHeader
  | .writeLength => m.writeLength

def Op.Fits (o : Op) (m : Msg) : Prop := match o with | .set s => SetterFits s m | _ => True

def OpsFit (mac : Bytes → Bytes → Bytes) : List Op → Msg → Prop
  | [], _ => True
  | o :: r, m => o.Fits m ∧ OpsFit mac r (o.run mac m)

/-- any sequence of building operations, of any length, keeps the struct and its wire bytes in agreement -/
theorem ops_canonical (mac : Bytes → Bytes → Bytes) (hmac : ∀ k x, (mac k x).length = 20)
    (ops : List Op) (m : Msg) (h : Canonical m) (hf : OpsFit mac ops m) :
    Canonical (ops.foldl (fun m o => o.run mac m) m) := by
  induction ops generalizing m with
  | nil => exact h
  | cons o r ih =>
    simp only [List.foldl_cons]
    apply ih
    · cases o with
      | set s => exact setter_canonical mac hmac s m h hf.1
      | writeHeader => exact canonical_writeHeader m h
      | writeLength => exact canonical_writeLength m _ h
    · exact hf.2

/-- a canonical message is a well-formed STUN message: cookie, header length = bytes after the header, multiple of 4,
    body = TLVs with zero padding -/
theorem canonical_wellformed (m : Msg) (h : Canonical m) :
    m.raw.length = 20 + m.length ∧ be32 (m.raw.drop 4) = magicCookie ∧ be16 (m.raw.drop 2) = m.length ∧
    m.length % 4 = 0 ∧ m.raw.drop 20 = body m.attrs :=
  BuildProofs.canonical_wellformed m h

/-- decoding the raw bytes of a canonical message (into any message object) gives back exactly the struct:
    type, length, transaction ID, ordered attributes — encode-then-decode is the identity on message content
    (attribute type 0x8020 comes back as its tolerated alias 0x0020, see DESIGN §7) -/
theorem canonical_decode (m b : Msg) (h : Canonical m) (hm : m.method < 4096) (hc : m.cls < 4) :
    (b.decodeFrom m.raw).2 = .ok () ∧
    (b.decodeFrom m.raw).1.method = m.method ∧ (b.decodeFrom m.raw).1.cls = m.cls ∧
    (b.decodeFrom m.raw).1.length = m.length ∧ (b.decodeFrom m.raw).1.tid = m.tid ∧
    (b.decodeFrom m.raw).1.attrs = m.attrs.map aliasAttr ∧ (b.decodeFrom m.raw).1.raw = m.raw :=
  BuildProofs.canonical_decode m b h hm hc

/-- and `Equal` agrees (in both directions) when no attribute uses the legacy 0x8020 number -/
theorem equal_agrees (m b : Msg) (h : Canonical m) (hm : m.method < 4096) (hc : m.cls < 4)
    (hal : ∀ a ∈ m.attrs, a.typ ≠ 0x8020) :
    m.equal (b.decodeFrom m.raw).1 = true ∧ (b.decodeFrom m.raw).1.equal m = true := by
  obtain ⟨_, h1, h2, h3, h4, h5, _⟩ := canonical_decode m b h hm hc
  have hmap : m.attrs.map aliasAttr = m.attrs := by
    conv => rhs; rw [← List.map_id m.attrs]
    apply List.map_congr_left
    intro a ha
    have := hal a ha
    simp [aliasAttr, compat, this]
  rw [hmap] at h5
  exact ⟨equal_of_fields _ _ h1.symm h2.symm h4.symm h3.symm h5.symm, equal_of_fields _ _ h1 h2 h4 h3 h5⟩

/-- `Encode` (WriteHeader + re-adding every attribute) on ANY struct whose attribute list is well-formed and fits
    16 bits — whatever its raw bytes were before — yields a canonical message with the same content -/
theorem encode_canonical (m : Msg) (htid : m.tid.length = 12) (hwf : AttrsWF m.attrs)
    (hfit : (body m.attrs).length < 65536) (hne : m.attrs ≠ [] ∨ m.length = 0) :
    Canonical m.encode ∧ m.encode.attrs = m.attrs ∧ m.encode.method = m.method ∧ m.encode.cls = m.cls ∧
    m.encode.tid = m.tid :=
  BuildProofs.encode_canonical m htid hwf hfit hne

/-- decode-then-encode reproduces the canonical bytes: decoding the raw bytes of a canonical message into any message
    object and calling `Encode` on the result gives back exactly those bytes (when no attribute uses the legacy
    0x8020 number, which decoding reports under its alias) -/
theorem decode_then_encode (m b : Msg) (h : Canonical m) (hm : m.method < 4096) (hc : m.cls < 4)
    (hal : ∀ a ∈ m.attrs, a.typ ≠ 0x8020) (hb : (b.decodeFrom m.raw).1.len ≤ (b.decodeFrom m.raw).1.mem.length) :
    (b.decodeFrom m.raw).1.encode.raw = m.raw := by
  obtain ⟨_, h1, h2, h3, h4, h5, h6⟩ := canonical_decode m b h hm hc
  have hmap : m.attrs.map aliasAttr = m.attrs := by
    conv => rhs; rw [← List.map_id m.attrs]
    apply List.map_congr_left
    intro a ha
    have := hal a ha
    simp [aliasAttr, compat, this]
  rw [hmap] at h5
  -- the decoded struct is canonical: same fields, same raw bytes
  generalize (b.decodeFrom m.raw).1 = d at *
  have hd : Canonical d := by
    refine ⟨hb, by rw [h4]; exact h.tidLen, rfl, ?_, by rw [h3, h5]; exact h.length, by rw [h3]; exact h.fits,
      by rw [h5]; exact h.attrs⟩
    rw [h6, h.raw, h3, h5]; simp only [headerL, h1, h2, h4]
  rw [(encode_of_canonical _ hd).1, h6]

-- non-vacuity: the empty Build is canonical and there are setters that fit
example (mac : Bytes → Bytes → Bytes) : AllFit mac [.raw 0x8022 [1, 2, 3]] (({} : Msg).reset.writeHeader) := by
  refine ⟨?_, fun _ => trivial⟩
  have hl : (({} : Msg).reset.writeHeader).length = 0 := by
    have := (writeHeader_spec ({} : Msg).reset (by simp [Msg.reset]) (by simp [Msg.reset])).2.2.2.1
    simpa [Msg.reset] using this
  simp only [SetterFits, Setter.adds, hl]
  simp [pad4]

end Stun.C03
