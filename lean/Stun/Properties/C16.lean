/-
  C16 — ParseURI terminates safely on every string.
  `parseURI` (Model/URI.lean) transliterates the repaired uri.go: the default-port retry carries a flag and is taken at
  most once. Lean accepts the definition by well-founded recursion on that flag (measure 1 → 0) — that acceptance *is*
  the proof that the recursion depth is at most one for every input; all helper functions are structural recursions
  on the input bytes (linear passes). The model has no panic / crash outcome: every result is `.ok` or `.error`.
  For the code as it was (retry without a flag) the refutation below shows why it never terminated on `[::1]x`.
-/
import Stun.Model.URI
namespace Stun.C16
open Stun Stun.URI

/-- totality: every input gives a URI or an error (the function is total by construction; stated for the record) -/
theorem parseURI_total (raw : Str) : (∃ u, parseURI true raw = .ok u) ∨ (∃ e, parseURI true raw = .error e) := by
  cases parseURI true raw with
  | ok u => exact Or.inl ⟨u, rfl⟩
  | error e => exact Or.inr ⟨e, rfl⟩

/-- the second pass never retries: a missing port there is final -/
theorem no_second_retry (raw : Str) (scheme opq q : Str) (sch : Scheme)
    (h1 : urlParse raw = .rootless scheme opq q) (h2 : newSchemeType scheme = some sch)
    (h3 : splitHostPort opq = .error .missingPort) :
    parseURI false raw = .error (.split .missingPort) := by
  rw [parseURI]; simp [h1, h2, h3]

/-- the first pass retries exactly with `scheme:opaque:<default port>[?query]` and the result of that single second
    pass is the result -/
theorem retry_once (raw : Str) (scheme opq q : Str) (sch : Scheme)
    (h1 : urlParse raw = .rootless scheme opq q) (h2 : newSchemeType scheme = some sch)
    (h3 : splitHostPort opq = .error .missingPort) :
    parseURI true raw = parseURI false (sch.str ++ [chr ':'] ++ opq ++ sch.defaultPort ++
        (if q ≠ [] then [chr '?'] ++ q else [])) := by
  rw [parseURI]; simp [h1, h2, h3]

/-- why the unrepaired code never returned on `stun:[::1]x`: however many default ports are appended, the address
    still "misses a port" (the ']' is not followed by the last ':'), so every retry retried again -/
theorem lastIndex_spec (sep : UInt8) (s : Str) (i : Nat) (h : lastIndex sep s = some i) : s[i]? = some sep := by
  unfold lastIndex at h
  cases hl : (s.zipIdx.filter (fun p => p.1 == sep)).getLast? with
  | none => rw [hl] at h; simp at h
  | some x =>
    rw [hl] at h; simp only [Option.map_some, Option.some.injEq] at h
    have hm := List.mem_of_getLast? hl
    obtain ⟨hz, hx⟩ := List.mem_filter.mp hm
    obtain ⟨a, j⟩ := x
    simp only at h hx; subst h
    have := List.mem_zipIdx_iff_getElem?.mp hz
    rw [this]; simp at hx; rw [hx]

theorem lastIndex_some_of_mem (sep : UInt8) (s : Str) (h : sep ∈ s) : ∃ i, lastIndex sep s = some i := by
  unfold lastIndex
  obtain ⟨i, hi⟩ := List.getElem?_of_mem h
  have hz : (sep, i) ∈ s.zipIdx := List.mem_zipIdx_iff_getElem?.mpr hi
  have hf : (sep, i) ∈ s.zipIdx.filter (fun p => p.1 == sep) := List.mem_filter.mpr ⟨hz, by simp⟩
  cases hl : (s.zipIdx.filter (fun p => p.1 == sep)).getLast? with
  | none => rw [List.getLast?_eq_none_iff] at hl; rw [hl] at hf; simp at hf
  | some x => exact ⟨x.2, rfl⟩

theorem missing_port_forever (k : Nat) :
    splitHostPort (lit "[::1]x" ++ (List.replicate k (lit ":3478")).flatten) = .error .missingPort := by
  have hl : lit "[::1]x" = [91, 58, 58, 49, 93, 120] := by decide
  rw [hl]
  generalize (List.replicate k (lit ":3478")).flatten = tail
  obtain ⟨i, hi⟩ := lastIndex_some_of_mem (chr ':') ([91, 58, 58, 49, 93, 120] ++ tail) (by
    have : chr ':' = 58 := by decide
    rw [this]; simp)
  have hspec := lastIndex_spec _ _ _ hi
  have hne : i ≠ 5 := by
    intro h5; subst h5
    have : chr ':' = 58 := by decide
    rw [this] at hspec; simp at hspec
  have hidx : index (chr ']') ([91, 58, 58, 49, 93, 120] ++ tail) = some 4 := by
    have : chr ']' = 93 := by decide
    rw [this]; simp [index, List.findIdx?_cons]
  have hhead : ([91, 58, 58, 49, 93, 120] ++ tail : Str).head? = some (chr '[') := by
    have : chr '[' = 91 := by decide
    rw [this]; rfl
  unfold splitHostPort
  rw [hi]
  simp only [hhead, beq_self_eq_true, if_true, hidx]
  have h1 : ¬ ((4 + 1 == ([91, 58, 58, 49, 93, 120] ++ tail : Str).length) = true) := by simp
  have h2 : ¬ ((4 + 1 == i) = true) := by simp; omega
  have h3 : ¬ ((([91, 58, 58, 49, 93, 120] ++ tail : Str).getD (4 + 1) 0 == chr ':') = true) := by
    have : chr ':' = 58 := by decide
    rw [this]; simp
  have hc : chr ':' = 58 := by decide
  simp [h1, h2, h3, hc]

end Stun.C16
