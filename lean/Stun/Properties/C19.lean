/-
  C19 — message type encoding is the RFC 5389 figure-3 layout and a bijection.
  Property theorems only. Proved for all inputs without enumeration: Go's masks and shifts are rewritten into
  div/mod arithmetic (`Stun.Bits`), the value is split into its mixed-radix digits [16,2,8,2,32], and `omega`
  decides the rest.
-/
import Stun.Model.MsgType
import Stun.Proofs.Bits
namespace Stun.C19
open Stun.Bits

/-- closed arithmetic form of `Value()` for every uint16 method and byte class -/
theorem typeValue_arith (m c : Nat) (hm : m < 65536) (hc : c < 256) :
    typeValue m c = m % 16 + 32 * (m / 16 % 8) + 512 * (m / 128 % 32) + 16 * (c % 2) + 256 * (c / 2 % 2) := by
  unfold typeValue w16
  simp only [and_0xf, and_0x70, and_0xf80, and_0x1, and_0x2, Nat.shiftLeft_eq, Nat.reducePow]
  have e1 : m % 65536 = m := Nat.mod_eq_of_lt hm
  have e2 : c % 65536 = c := Nat.mod_eq_of_lt (by omega)
  rw [e1, e2]
  have ha : m % 16 < 16 := Nat.mod_lt _ (by decide)
  have hb : m / 16 % 8 < 8 := Nat.mod_lt _ (by decide)
  have hd : m / 128 % 32 < 32 := Nat.mod_lt _ (by decide)
  have h0 : c % 2 < 2 := Nat.mod_lt _ (by decide)
  have h1 : c / 2 % 2 < 2 := Nat.mod_lt _ (by decide)
  generalize m % 16 = a at *
  generalize m / 16 % 8 = b at *
  generalize m / 128 % 32 = d at *
  generalize c % 2 = c0 at *
  generalize c / 2 % 2 = c1 at *
  omega

/-- closed arithmetic form of `ReadValue()` for every natural number (hence every uint16) -/
theorem readValue_arith (v : Nat) :
    readValue v = (v % 16 + 16 * (v / 32 % 8) + 128 * (v / 512 % 32), v / 16 % 2 + 2 * (v / 256 % 2)) := by
  unfold readValue w16
  simp only [and_0xf, and_0x70, and_0xf80, and_0x1, and_0x2, Nat.shiftRight_eq_div_pow,
    Nat.div_div_eq_div_mul, Nat.reducePow, Nat.reduceMul]
  refine Prod.ext ?_ ?_ <;> simp only <;> omega

private theorem digits (a c0 b c1 d : Nat) (ha : a < 16) (h0 : c0 < 2) (hb : b < 8) (h1 : c1 < 2) (hd : d < 32) :
    let X := a + 16 * c0 + 32 * b + 256 * c1 + 512 * d
    X % 16 = a ∧ X / 16 % 2 = c0 ∧ X / 32 % 8 = b ∧ X / 256 % 2 = c1 ∧ X / 512 % 32 = d ∧ X < 16384 := by
  intro X
  refine ⟨?_, ?_, ?_, ?_, ?_, ?_⟩ <;> omega

private theorem decompV (v : Nat) :
    v = v % 16 + 16 * (v / 16 % 2) + 32 * (v / 32 % 8) + 256 * (v / 256 % 2) + 512 * (v / 512 % 32)
          + 16384 * (v / 16384) := by
  have h1 : v / 32 = v / 16 / 2 := by rw [Nat.div_div_eq_div_mul]
  have h2 : v / 256 = v / 32 / 8 := by rw [Nat.div_div_eq_div_mul]
  have h3 : v / 512 = v / 256 / 2 := by rw [Nat.div_div_eq_div_mul]
  have h4 : v / 16384 = v / 512 / 32 := by rw [Nat.div_div_eq_div_mul]
  omega

private theorem decompM (m : Nat) (hm : m < 4096) : m = m % 16 + 16 * (m / 16 % 8) + 128 * (m / 128 % 32) := by
  have h1 : m / 128 = m / 16 / 8 := by rw [Nat.div_div_eq_div_mul]
  omega

/-- `Value()` places the method and class bits exactly as figure 3 prescribes. -/
theorem value_eq_rfc (m c : Nat) (hm : m < 4096) (hc : c < 4) : typeValue m c = Spec.fig3 m c := by
  rw [typeValue_arith m c (by omega) (by omega)]; unfold Spec.fig3; omega

/-- the two leading bits of every encoded type are zero -/
theorem value_lt_2_14 (m c : Nat) (hm : m < 4096) (hc : c < 4) : typeValue m c < 16384 := by
  rw [typeValue_arith m c (by omega) (by omega)]
  have := digits (m % 16) (c % 2) (m / 16 % 8) (c / 2 % 2) (m / 128 % 32)
    (Nat.mod_lt _ (by decide)) (Nat.mod_lt _ (by decide)) (Nat.mod_lt _ (by decide))
    (Nat.mod_lt _ (by decide)) (Nat.mod_lt _ (by decide))
  simp only at this
  omega

/-- decoding an encoded type gives back the method and class -/
theorem read_value (m c : Nat) (hm : m < 4096) (hc : c < 4) : readValue (typeValue m c) = (m, c) := by
  rw [readValue_arith, typeValue_arith m c (by omega) (by omega)]
  have hD := digits (m % 16) (c % 2) (m / 16 % 8) (c / 2 % 2) (m / 128 % 32)
    (Nat.mod_lt _ (by decide)) (Nat.mod_lt _ (by decide)) (Nat.mod_lt _ (by decide))
    (Nat.mod_lt _ (by decide)) (Nat.mod_lt _ (by decide))
  simp only at hD
  obtain ⟨d1, d2, d3, d4, d5, _⟩ := hD
  have hM := decompM m hm
  have e : m % 16 + 32 * (m / 16 % 8) + 512 * (m / 128 % 32) + 16 * (c % 2) + 256 * (c / 2 % 2)
      = m % 16 + 16 * (c % 2) + 32 * (m / 16 % 8) + 256 * (c / 2 % 2) + 512 * (m / 128 % 32) := by omega
  rw [e, d1, d2, d3, d4, d5]
  refine Prod.ext ?_ ?_ <;> simp only <;> omega

/-- reading any wire value and re-encoding yields its low 14 bits -/
theorem value_read (v : Nat) : typeValue (readValue v).1 (readValue v).2 = v % 16384 := by
  rw [readValue_arith]; simp only
  have hV := decompV v
  have b1 : v % 16 < 16 := Nat.mod_lt _ (by decide)
  have b2 : v / 16 % 2 < 2 := Nat.mod_lt _ (by decide)
  have b3 : v / 32 % 8 < 8 := Nat.mod_lt _ (by decide)
  have b4 : v / 256 % 2 < 2 := Nat.mod_lt _ (by decide)
  have b5 : v / 512 % 32 < 32 := Nat.mod_lt _ (by decide)
  rw [typeValue_arith _ _ (by omega) (by omega)]
  generalize v % 16 = a at *
  generalize v / 16 % 2 = c0 at *
  generalize v / 32 % 8 = b at *
  generalize v / 256 % 2 = c1 at *
  generalize v / 512 % 32 = d at *
  generalize v / 16384 = q at *
  have e1 : (a + 16 * b + 128 * d) % 16 = a := by omega
  have e2 : (a + 16 * b + 128 * d) / 16 % 8 = b := by omega
  have e3 : (a + 16 * b + 128 * d) / 128 % 32 = d := by omega
  have e4 : (c0 + 2 * c1) % 2 = c0 := by omega
  have e5 : (c0 + 2 * c1) / 2 % 2 = c1 := by omega
  rw [e1, e2, e3, e4, e5]
  omega

/-- `ReadValue` extracts exactly the figure-3 method and class bits of any wire value -/
theorem readValue_eq_rfc (v : Nat) : readValue v = (Spec.fig3Method v, Spec.fig3Class v) := by
  rw [readValue_arith]; rfl

/-- every decoded method fits 12 bits and every class 2 bits -/
theorem readValue_range (v : Nat) : (readValue v).1 < 4096 ∧ (readValue v).2 < 4 := by
  rw [readValue_arith]; simp only; omega

/-- encoding is injective on the domain (consequence of `read_value`) -/
theorem value_injective (m c m' c' : Nat) (hm : m < 4096) (hc : c < 4) (hm' : m' < 4096) (hc' : c' < 4)
    (h : typeValue m c = typeValue m' c') : m = m' ∧ c = c' := by
  have h1 := read_value m c hm hc
  have h2 := read_value m' c' hm' hc'
  rw [h] at h1
  rw [h1] at h2
  exact ⟨(Prod.mk.inj h2).1, (Prod.mk.inj h2).2⟩

/-- encoding is onto the 14-bit values: every value below 2^14 is the encoding of what `ReadValue` returns -/
theorem value_surjective (v : Nat) (hv : v < 16384) :
    typeValue (readValue v).1 (readValue v).2 = v := by
  rw [value_read]; omega

/-- outside the domain: `Value()` silently drops method bits 12-15 and class bits 2-7, so every uint16 method and
    byte class encodes as its reduction into the domain (what `NewType` does with an out-of-range argument) -/
theorem value_out_of_domain (m c : Nat) (hm : m < 65536) (hc : c < 256) :
    typeValue m c = typeValue (m % 4096) (c % 4) := by
  rw [typeValue_arith m c hm hc, typeValue_arith (m % 4096) (c % 4) (by omega) (by omega)]
  omega

/-- hence every encoded type, whatever the method and class, has its two leading bits clear -/
theorem value_lt_2_14_any (m c : Nat) (hm : m < 65536) (hc : c < 256) : typeValue m c < 16384 := by
  rw [value_out_of_domain m c hm hc]
  exact value_lt_2_14 _ _ (Nat.mod_lt _ (by decide)) (Nat.mod_lt _ (by decide))

/-- and decoding it yields the reduced method and class -/
theorem read_value_any (m c : Nat) (hm : m < 65536) (hc : c < 256) :
    readValue (typeValue m c) = (m % 4096, c % 4) := by
  rw [value_out_of_domain m c hm hc]
  exact read_value _ _ (Nat.mod_lt _ (by decide)) (Nat.mod_lt _ (by decide))

example : typeValue 0x1001 6 = 0x0101 := by decide

-- non-vacuity / sanity: Binding success response is 0x0101, Allocate error response 0x0113
example : typeValue 0x001 2 = 0x0101 ∧ typeValue 0x003 3 = 0x0113 := by decide
example : readValue 0x0101 = (1, 2) := by decide

end Stun.C19
