/-
  C05 — FINGERPRINT follows RFC 5389 §15.5.
  CRC-32 is the bit-serial specification in Spec/CRC32.lean (compared with Go's hash/crc32 by the correspondence).
  This file: the setter's value, add-then-check, and the exact acceptance condition of the checker.
  The burst-detection theorem is in Properties/C05Burst.lean.
-/
import Stun.Properties.C04
namespace Stun.C05
open Stun Stun.Msg Stun.Spec Stun.BuildProofs Stun.DecodeProofs Stun.C04

/-- the setter's value: CRC-32 of all preceding bytes with the *final* header length, xor 0x5354554e -/
theorem fp_addTo_value (m : Msg) (h : Canonical m) (hfit : m.length + 8 < 65536) :
    (fingerprintAddTo m).2 = none ∧ Canonical (fingerprintAddTo m).1 ∧
    (fingerprintAddTo m).1.attrs = m.attrs ++
      [⟨attrFingerprint, 4, put32 (crc32 (headerL m (put16 (m.length + 8)) ++ body m.attrs) ^^^ 0x5354554e)⟩] := by
  obtain ⟨a, b, c, _⟩ := fingerprint_canonical m h hfit
  exact ⟨a, b, c⟩

/-- exact acceptance condition of the checker on any message with at least 8 visible bytes: the FIRST FINGERPRINT
    attribute has a 4-byte value equal to the CRC over everything before the last 8 bytes of the raw message -/
theorem fp_check_iff (m : Msg) (h8 : 8 ≤ m.len) :
    fingerprintCheck m = .ok ↔
      ∃ b, m.get attrFingerprint = some b ∧ b.length = 4 ∧
        be32 b = crc32 (m.raw.take (m.len - 8)) ^^^ 0x5354554e := by
  unfold fingerprintCheck
  cases hg : m.get attrFingerprint with
  | none => simp
  | some b =>
    simp only [fingerprintSize, attributeHeaderSize]
    by_cases hb : b.length = 4
    · have : ¬ m.len < 4 + 4 := by omega
      simp only [hb, ne_eq, not_true_eq_false, if_false, this]
      constructor
      · intro h
        refine ⟨b, rfl, hb, ?_⟩
        by_cases hv : be32 b = fingerprintValue (m.raw.take (m.len - (4 + 4)))
        · simpa [fingerprintValue, fingerprintXORValue] using hv
        · have : (be32 b == fingerprintValue (m.raw.take (m.len - (4 + 4)))) = false := by simpa using hv
          simp [this] at h
      · rintro ⟨b', hb', _, hv⟩
        simp only [Option.some.injEq] at hb'; subst hb'
        have : be32 b = fingerprintValue (m.raw.take (m.len - (4 + 4))) := by
          simpa [fingerprintValue, fingerprintXORValue] using hv
        simp [this]
    · simp only [ne_eq, hb, not_false_eq_true, if_true]
      constructor
      · intro h; simp at h
      · rintro ⟨b', hb', hl, _⟩; simp only [Option.some.injEq] at hb'; subst hb'; exact absurd hl hb

theorem be32_put32 (n : Nat) (h : n < 4294967296) : be32 (put32 n) = n := by
  have := be32_put32_append n h []; simpa using this

theorem crc32_lt (bs : Bytes) : crc32 bs < 4294967296 := by
  unfold crc32; exact BitVec.isLt _

/-- a message whose last attribute was added by the fingerprint setter passes the check — on the built message and
    on the receiver's decode of its bytes — provided no earlier attribute already is a FINGERPRINT -/
theorem fp_add_then_check (m b : Msg) (h : Canonical m) (hm : m.method < 4096) (hc : m.cls < 4)
    (hfit : m.length + 8 < 65536) (hfresh : ∀ a ∈ m.attrs, compat a.typ ≠ attrFingerprint) :
    fingerprintCheck (b.decodeFrom (fingerprintAddTo m).1.raw).1 = .ok := by
  obtain ⟨_, hcan, hattrs, hmeth, hcls, htid⟩ := fingerprint_canonical m h hfit
  generalize hv : fingerprintValue (headerL m (put16 (m.length + 8)) ++ body m.attrs) = val at hattrs
  generalize hm' : (fingerprintAddTo m).1 = m' at *
  have hvlt : val < 4294967296 := by
    rw [← hv]; unfold fingerprintValue fingerprintXORValue
    exact Nat.xor_lt_two_pow (n := 32) (crc32_lt _) (by decide)
  obtain ⟨_, d1, d2, d3, d4, d5, d6⟩ := canonical_decode m' b hcan (by rw [hmeth]; exact hm) (by rw [hcls]; exact hc)
  generalize hd : (b.decodeFrom m'.raw).1 = d at *
  have hl' : m'.length = m.length + 8 := by
    have := hcan.length
    rw [this, hattrs, body_append, List.length_append, tlvBytes_length', ← h.length]; simp [zeros, pad4, put32]
  have hdlen : d.len = 20 + m.length + 8 := by
    have h1 : d.raw.length = m'.raw.length := by rw [d6]
    have hcap : d.len ≤ d.mem.length := by
      rw [← hd]; unfold Msg.decodeFrom Msg.decode
      cases decodeRaw (b.setRaw m'.raw).mem (b.setRaw m'.raw).len with
      | mk o out =>
        cases o <;> (simp only; unfold Msg.setRaw; split <;> simp <;> omega)
    have := hcan.rawLen; have := hcan.cap
    simp only [Msg.raw, List.length_take] at h1
    omega
  rw [fp_check_iff d (by omega)]
  refine ⟨put32 val, ?_, rfl, ?_⟩
  · -- Get returns the appended FINGERPRINT
    unfold Msg.get
    rw [d5, hattrs, List.map_append, List.find?_append]
    have hnone : (m.attrs.map aliasAttr).find? (fun a => a.typ == attrFingerprint) = none := by
      rw [List.find?_eq_none]
      intro a ha
      obtain ⟨a0, ha0, rfl⟩ := List.mem_map.mp ha
      have := hfresh a0 ha0
      simpa [aliasAttr] using this
    rw [hnone]; simp [aliasAttr, compat, attrFingerprint]
  · rw [be32_put32 _ hvlt, d6, hdlen, ← hv]
    unfold fingerprintValue fingerprintXORValue
    congr 2
    -- the raw bytes before the last 8 are header (with the final length) ++ old body
    have hrawm' : m'.raw = headerL m (put16 (m.length + 8)) ++ (body m.attrs ++ tlvBytes attrFingerprint (put32 val) (zeros (pad4 (put32 val).length))) := by
      rw [hcan.raw, hattrs, body_append, hl']; simp only [headerL, hmeth, hcls, htid]
    rw [hrawm']
    have hhl : (headerL m (put16 (m.length + 8))).length = 20 := headerL_length m _ h.tidLen rfl
    have : 20 + m.length + 8 - 8 = (headerL m (put16 (m.length + 8)) ++ body m.attrs).length := by
      rw [List.length_append, hhl, ← h.length]; omega
    rw [this, ← List.append_assoc, List.take_left]

end Stun.C05
