/-
  C14 — the Agent is linearizable under concurrency (logic part).
  What Lean decides: if every method call consists of ONE atomic critical section that applies the sequential
  `Agent.step` to the shared table and fixes the call's return value and events (everything after it touches no shared
  state), then every concurrent execution is explained by the sequential order of the critical sections, and that
  order respects real time. Together with C13 this gives "of several concurrent terminators of one transaction
  exactly one emits its terminal event".
  The premise is not assumed silently: the lock structure of every Agent method is regenerated from agent.go on every
  run (Stun/Gen/Generated.lean) and `Tie/Locks.lean` (`agentLocks`) proves that it has this shape.
  Not carried by the theorem (runtime truth): Go's mutex and memory model, the race detector's verdict, actual
  scheduling, deadlock freedom — observed by the `agent-conc` stream under `-race` with a linearizability checker.
-/
import Stun.Properties.C13
namespace Stun.C14
open Stun

/-- one completed method call of a concurrent execution: invocation time, time of its critical section, response
    time, and what it returned / emitted -/
structure Call where
  inv : Nat
  crit : Nat
  resp : Nat
  op : AOp
  ret : Option AErr
  evs : List AEvent

/-- timestamps of a call are ordered: invoked, then its critical section, then its response -/
def WellTimed (c : Call) : Prop := c.inv < c.crit ∧ c.crit < c.resp

/-- sequential specification run over a list of calls: every call's result is what `Agent.step` gives -/
def SeqExplains : Agent → List Call → Prop
  | _, [] => True
  | a, c :: r => (a.step c.op).2 = (c.ret, c.evs) ∧ SeqExplains (a.step c.op).1 r

/-- the premise, as established by the lock facts: the calls, listed in the order in which their critical sections
    happened, each applied `Agent.step` atomically to the shared state -/
structure SingleCritExecution (a0 : Agent) (calls : List Call) : Prop where
  timed : ∀ c ∈ calls, WellTimed c
  critOrder : calls.Pairwise (fun x y => x.crit < y.crit)
  atomic : SeqExplains a0 calls

/-- `a` precedes `b` in real time -/
def Precedes (a b : Call) : Prop := a.resp < b.inv

/-- Linearizability: the order of the critical sections is a sequential order of all calls that explains every return
    value and event and never contradicts real-time order (if `b` finished before `a` began, `a` is not placed
    before `b`). -/
theorem realtime_respected (calls : List Call) (ht : ∀ c ∈ calls, WellTimed c)
    (ho : calls.Pairwise (fun x y => x.crit < y.crit)) : calls.Pairwise (fun x y => ¬ Precedes y x) := by
  induction calls with
  | nil => exact List.Pairwise.nil
  | cons c r ih =>
    rw [List.pairwise_cons] at ho ⊢
    refine ⟨?_, ih (fun x hx => ht x (List.mem_cons_of_mem _ hx)) ho.2⟩
    intro y hy hp
    have h1 := ht c List.mem_cons_self
    have h2 := ht y (List.mem_cons_of_mem _ hy)
    have h3 := ho.1 y hy
    unfold Precedes WellTimed at *
    omega

theorem single_crit_linearizable (a0 : Agent) (calls : List Call) (h : SingleCritExecution a0 calls) :
    SeqExplains a0 calls ∧ calls.Pairwise (fun x y => ¬ Precedes y x) :=
  ⟨h.atomic, realtime_respected calls h.timed h.critOrder⟩

/-- the sequential run of the calls' operations is the model's `Agent.run` -/
theorem seqExplains_run (a0 : Agent) (calls : List Call) (h : SeqExplains a0 calls) :
    (a0.run (calls.map (·.op))).2 = calls.map (fun c => (c.op, c.ret, c.evs)) := by
  induction calls generalizing a0 with
  | nil => rfl
  | cons c r ih =>
    obtain ⟨h1, h2⟩ := h
    simp only [List.map_cons, Agent.run]
    rw [ih _ h2]
    simp only [List.cons.injEq, and_true]
    have e : ((a0.step c.op).2.1, (a0.step c.op).2.2) = (c.ret, c.evs) := h1
    rw [Prod.mk.injEq] at e
    rw [e.1, e.2]

/-- exactly one of several concurrent terminators wins: in every single-critical-section execution from a consistent
    agent, for every transaction id: successful Starts + registered before = terminal events + registered after —
    so one registration never receives two terminal events, whoever (Stop, Collect, Close, Process) raced for it -/
theorem one_terminator_wins (a0 : Agent) (hi : C13.Inv a0) (calls : List Call) (h : SingleCritExecution a0 calls)
    (id : TID) :
    C13.totalStarts id (calls.map (fun c => (c.op, c.ret, c.evs))) + C13.cnt id a0.table
      = C13.totalTerms id (calls.map (fun c => (c.op, c.ret, c.evs))) + C13.cnt id (a0.run (calls.map (·.op))).1.table := by
  have := (C13.exactly_one_terminal (calls.map (·.op)) a0 hi id).2
  rw [seqExplains_run a0 calls h.atomic] at this
  exact this

theorem seqExplains_take (a0 : Agent) (calls : List Call) (h : SeqExplains a0 calls) (n : Nat) :
    SeqExplains a0 (calls.take n) := by
  induction calls generalizing a0 n with
  | nil => simpa using h
  | cons c r ih =>
    cases n with
    | zero => simp [SeqExplains]
    | succ k =>
      obtain ⟨h1, h2⟩ := h
      rw [List.take_succ_cons]
      exact ⟨h1, ih _ h2 k⟩

/-- single-critical-section executions are prefix closed: what has happened up to any critical section is itself
    such an execution (so every statement about them holds at every moment, not only at the end) -/
theorem prefix_execution (a0 : Agent) (calls : List Call) (h : SingleCritExecution a0 calls) (n : Nat) :
    SingleCritExecution a0 (calls.take n) :=
  ⟨fun c hc => h.timed c (List.mem_of_mem_take hc), h.critOrder.sublist (List.take_sublist n calls),
   seqExplains_take a0 calls h.atomic n⟩

/-- concurrent executions of a NEW agent: at every moment and for every transaction id, the terminal events emitted
    so far never outnumber the successful Starts so far, whatever Stop/Process/Collect/Close calls raced — and they
    are equal as soon as a Close has had its critical section -/
theorem fresh_concurrent_terminals (calls : List Call) (h : SingleCritExecution {} calls) (n : Nat) (id : TID) :
    C13.totalTerms id ((calls.take n).map (fun c => (c.op, c.ret, c.evs)))
      ≤ C13.totalStarts id ((calls.take n).map (fun c => (c.op, c.ret, c.evs))) ∧
    ((Agent.run {} ((calls.take n).map (·.op))).1.closed = true →
      C13.totalStarts id ((calls.take n).map (fun c => (c.op, c.ret, c.evs)))
        = C13.totalTerms id ((calls.take n).map (fun c => (c.op, c.ret, c.evs)))) := by
  have hp := prefix_execution {} calls h n
  obtain ⟨f1, _, f3⟩ := C13.fresh_history ((calls.take n).map (·.op)) id
  rw [seqExplains_run {} (calls.take n) hp.atomic] at f1 f3
  exact ⟨f1, f3⟩

end Stun.C14
