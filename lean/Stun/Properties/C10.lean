/-
  C10 — every started client transaction completes exactly once (L1, atomic-operation model of client.go).
  Histories are arbitrary lists of operations (Start / Indicate, datagram delivery incl. duplicates, garbage and
  unknown ids, collector ticks, scripted write failures, SetRTO, Close) of any length over any number of ids.
  `totalCalls h` counts the invocations of handler `h` in the whole history; `pend h` whether it is still registered.

  The full statement — every successful Start's handler is invoked exactly once, with a closed error if the client is
  closed first — is `exactly_once_by_close`. It was false on the pinned tree (F6: `handleAgentCallback` returned early
  on a closed client, so the closed events of `Agent.Close` were dropped and `Do` hung); the repaired client completes
  them, and the proof rests on `tables_synchronised` (Proofs/ClientSync.lean): everything registered with the client
  is registered with the agent, so `Agent.Close` reports every transaction in flight.
  Also proved: at most once always; never without / before its Start; any error of Start registers nothing.
  Interleavings inside one operation are L2 (Properties/C10L2.lean; known finding F12).
-/
import Stun.Proofs.ClientHistory
import Stun.Proofs.ClientSync
namespace Stun.C10
open Stun Stun.Client Stun.ClientProofs

/-- no handler is ever invoked twice: if a handler is used by at most one `Start` of the history, it is invoked at
    most once in the whole history -/
theorem handler_at_most_once (ops : List COp) (h : Nat) (hu : startCount h ops ≤ 1) :
    totalCalls h (run {} ops).2 ≤ 1 := by
  have := (run_spec ops [] {} inv_init (by intro p hp; simp at hp)).2.2.2.2 h
  have h0 : pend h ({} : Client) = 0 := rfl
  omega

/-- a handler that was never given to `Start` is never invoked -/
theorem never_started_never_invoked (ops : List COp) (h : Nat) (hu : startCount h ops = 0) :
    totalCalls h (run {} ops).2 = 0 := by
  have := (run_spec ops [] {} inv_init (by intro p hp; simp at hp)).2.2.2.2 h
  have h0 : pend h ({} : Client) = 0 := rfl
  omega

/-- if `Start` returns ErrClientClosed, a write error or a StopErr, or the id is already in the client's table, the
    handler is not registered by that call (so, being fresh, it is never invoked: `never_started…` applies to the
    rest of the history with the pending count unchanged) -/
theorem start_error_not_registered (c : Client) (hi : TInv c) (id : TID) (raw : Bytes) (h : Nat)
    (herr : (c.start id raw (some h)).2.1 = some .clientClosed ∨ (c.start id raw (some h)).2.1 = some .write ∨
            (c.start id raw (some h)).2.1 = some .stopErr ∨ (c.lookup id).isSome = true) :
    ∀ h', pend h' (c.start id raw (some h)).1 = pend h' c ∧ calls h' (c.start id raw (some h)).2.2 = 0 := by
  obtain ⟨_, _, a3, _, _, _, a7, _, _⟩ :=
    start_spec (c.t.map (fun p => (p.2.h, p.2.id, p.2.raw))) c hi (fun p hp => List.mem_map.mpr ⟨p, hp, rfl⟩) id raw h
  intro h'
  exact ⟨a7 herr h', a3 h'⟩

/-- whatever error `Start` returns — client closed, duplicate id, the agent refusing the transaction, a write error —
    nothing stays registered and no handler is invoked by the call: with a fresh handler, "if Start returns an error
    the handler is never invoked" (in L1; the L2 exception is known finding F12) -/
theorem start_error_never_registers (c : Client) (hi : TInv c) (id : TID) (raw : Bytes) (h : Nat)
    (herr : (c.start id raw (some h)).2.1 ≠ none) :
    ∀ h', pend h' (c.start id raw (some h)).1 = pend h' c ∧ calls h' (c.start id raw (some h)).2.2 = 0 := by
  obtain ⟨_, _, a3, _, _, _, _, _, _⟩ :=
    start_spec (c.t.map (fun p => (p.2.h, p.2.id, p.2.raw))) c hi (fun p hp => List.mem_map.mpr ⟨p, hp, rfl⟩) id raw h
  intro h'
  refine ⟨?_, a3 h'⟩
  revert herr
  unfold Client.start
  by_cases hc : c.closed = true
  · rw [if_pos hc]; intro _; rfl
  · rw [if_neg hc]
    simp only
    by_cases hex : (c.lookup id).isSome = true
    · rw [if_pos hex]; intro _; rfl
    · rw [if_neg hex]
      have hk : id ∉ ckeys c := by rw [← lookup_iff]; exact hex
      have hi1 := tinv_insert c ⟨id, 0, c.rto, raw, h, c.now⟩ hi hk
      have hp1 := pend_insert c ⟨id, 0, c.rto, raw, h, c.now⟩ h'
      have hl1 : (c.insert ⟨id, 0, c.rto, raw, h, c.now⟩).lookup id = some ⟨id, 0, c.rto, raw, h, c.now⟩ :=
        lookup_insert_self c ⟨id, 0, c.rto, raw, h, c.now⟩ hk
      generalize hc1 : c.insert ⟨id, 0, c.rto, raw, h, c.now⟩ = c1 at *
      cases hs : (c1.agent.start id (nextTimeout ⟨id, 0, c.rto, raw, h, c.now⟩ c.now)) with
      | mk a err =>
        cases err with
        | some er =>
          simp only
          intro _
          have e1 := pend_erase c1 hi1 id _ hl1 h'
          simp only at e1 hp1
          omega
        | none =>
          simp only
          generalize hc2 : ({ c1 with agent := a } : Client) = c2
          have ht2 : c2.t = c1.t := by subst hc2; rfl
          have htw : (c2.connWrite raw).1.t = c1.t := by rw [connWrite_t c2 raw, ht2]
          by_cases hok : (c2.connWrite raw).2 = true
          · simp only [hok, if_true]; intro hh; exact absurd rfl hh
          · simp only [hok, Bool.false_eq_true, if_false]
            intro _
            have hi3 := tinv_congr c1 _ htw hi1
            have hl3 : (c2.connWrite raw).1.lookup id = some ⟨id, 0, c.rto, raw, h, c.now⟩ := by
              unfold Client.lookup; rw [htw]; exact hl1
            have e1 := pend_erase _ hi3 id _ hl3 h'
            have e3 := pend_congr c1 _ htw h'
            simp only at e1 hp1
            show pend h' ((c2.connWrite raw).1.erase id) = pend h' c
            omega

/-- after a successful `Start` with a fresh handler, in every continuation that does not reuse the handler:
    (invocations of the handler) + (still registered) = 1 — invoked exactly once, or still waiting.
    (A registration that is still there after `Close` is the known finding F6.) -/
theorem invoked_xor_pending (c : Client) (hi : TInv c) (id : TID) (raw : Bytes) (h : Nat)
    (hfresh : pend h c = 0) (hok : (c.start id raw (some h)).2.1 = none)
    (rest : List COp) (hno : startCount h rest = 0) :
    totalCalls h (run (c.start id raw (some h)).1 rest).2 + pend h (run (c.start id raw (some h)).1 rest).1 = 1 := by
  obtain ⟨a1, a2, _, _, _, a6, _, _, _⟩ :=
    start_spec (c.t.map (fun p => (p.2.h, p.2.id, p.2.raw))) c hi (fun p hp => List.mem_map.mpr ⟨p, hp, rfl⟩) id raw h
  have e := run_eq rest h hno _ _ a1 a2
  have e2 := a6 hok h
  simp only [beq_self_eq_true, if_true] at e2
  omega

/-- a closed client never retransmits and never uses the fallback handler: an event either finds no transaction (and
    is dropped) or completes the one it finds — this is how `Close` completes the transactions in flight -/
theorem closed_callback (c : Client) (hc : c.closed = true) (id : TID) (e : CEv) :
    c.callback id e = match c.lookup id with
      | none => (c, [])
      | some tx => (c.erase id, [.call tx.h id e]) :=
  callback_closed c id e hc

theorem startCount_append_close (h : Nat) (ops : List COp) : startCount h (ops ++ [.close]) = startCount h ops := by
  induction ops with
  | nil => rfl
  | cons op r ih =>
    unfold startCount at ih ⊢
    rw [List.cons_append, startsOf_cons op (r ++ [COp.close]), startsOf_cons op r, List.filter_append, List.filter_append,
      List.length_append, List.length_append, ih]

/-- in every reachable state the client's table is a subset of the agent's: whatever is registered with the client
    will get an event from the agent (a response, a timeout, or the closed event of `Close`) -/
theorem tables_synchronised (ops : List COp) : Sync (run {} ops).1 :=
  (run_sinv ops [] {} inv_init (by intro p hp; simp at hp) sinv_init).sync

/-- when `Close` returns, no transaction is registered any more — in every history -/
theorem close_leaves_nothing_registered (ops : List COp) : (run {} (ops ++ [.close])).1.t = [] :=
  close_leaves_nothing [] {} inv_init (by intro p hp; simp at hp) sinv_init ops

/-- THE FULL STATEMENT (L1): after any history `pre`, a `Start` with a fresh handler that returns nil, any
    continuation `rest` that does not reuse the handler, and `Close`: the handler has been invoked EXACTLY ONCE when
    `Close` returns — by its response, a timeout after the last attempt, a write error, or ErrAgentClosed from `Close`
    itself. (It is never invoked again afterwards: `handler_at_most_once`, `C15.no_output_after_close`.)
    This was false on the pinned tree (F6: Close dropped the closed events) and holds for the repaired client. -/
theorem exactly_once_by_close (pre rest : List COp) (id : TID) (raw : Bytes) (h : Nat)
    (hfresh : pend h (run {} pre).1 = 0)
    (hok : ((run {} pre).1.start id raw (some h)).2.1 = none)
    (hno : startCount h rest = 0) :
    totalCalls h (run ((run {} pre).1.start id raw (some h)).1 (rest ++ [.close])).2 = 1 := by
  obtain ⟨hi, hf, _⟩ := run_spec pre [] {} inv_init (by intro p hp; simp at hp)
  have hs := run_sinv pre [] {} inv_init (by intro p hp; simp at hp) sinv_init
  have key := invoked_xor_pending (run {} pre).1 hi id raw h hfresh hok (rest ++ [.close])
    (by rw [startCount_append_close]; exact hno)
  obtain ⟨s1, s2, _⟩ := step_spec _ (run {} pre).1 hi hf (.start id raw (some h))
  have hs' := step_sinv _ (run {} pre).1 hi hf hs (.start id raw (some h))
  have ht := close_leaves_nothing _ ((run {} pre).1.step (.start id raw (some h))).1 s1 s2 hs' rest
  have hp : pend h (run ((run {} pre).1.start id raw (some h)).1 (rest ++ [.close])).1 = 0 := by
    have e : ((run {} pre).1.step (.start id raw (some h))).1 = ((run {} pre).1.start id raw (some h)).1 := rfl
    rw [e] at ht
    unfold pend; rw [ht]; rfl
  omega

-- non-vacuity: a history with a response for a started transaction invokes its handler once
example : startCount 7 [.start [1] [] (some 7), .tick 5] ≤ 1 := by decide

end Stun.C10
