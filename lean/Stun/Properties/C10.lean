/-
  C10 — every started client transaction completes exactly once (L1, atomic-operation model of client.go).
  Histories are arbitrary lists of operations (Start / Indicate, datagram delivery incl. duplicates, garbage and
  unknown ids, collector ticks, scripted write failures, SetRTO, Close) of any length over any number of ids.
  `totalCalls h` counts the invocations of handler `h` in the whole history; `pend h` whether it is still registered.

  Full statement of the property for reference (NOT proved, false on the unchanged tree — known finding F6):
    every successful Start's handler is invoked exactly once, with a closed error if the client is closed first.
  What is proved: at most once always; never without / before its Start; exactly once OR still registered
  (`invoked_xor_pending`) — the gap to the full statement is exactly "still registered after Close" (F6).
  Interleavings inside one operation are outside L1 (known finding K1).
-/
import Stun.Proofs.ClientHistory
namespace Stun.C10
open Stun Stun.Client Stun.ClientProofs

/-- no handler is ever invoked twice: if a handler is used by at most one `Start` of the history, it is invoked at
    most once in the whole history -/
theorem handler_at_most_once (ops : List COp) (h : Nat) (hu : startCount h ops ≤ 1) :
    totalCalls h (run {} ops).2 ≤ 1 := by
  have := (run_spec ops [] {} inv_init (by intro p hp; simp at hp)).2.2.2.2 h
  have h0 : pend h ({} : Client) = 0 := rfl
  omega

/-- a handler that was never given to `Start` is never invoked -/
theorem never_started_never_invoked (ops : List COp) (h : Nat) (hu : startCount h ops = 0) :
    totalCalls h (run {} ops).2 = 0 := by
  have := (run_spec ops [] {} inv_init (by intro p hp; simp at hp)).2.2.2.2 h
  have h0 : pend h ({} : Client) = 0 := rfl
  omega

/-- if `Start` returns ErrClientClosed, a write error or a StopErr, or the id is already in the client's table, the
    handler is not registered by that call (so, being fresh, it is never invoked: `never_started…` applies to the
    rest of the history with the pending count unchanged) -/
theorem start_error_not_registered (c : Client) (hi : TInv c) (id : TID) (raw : Bytes) (h : Nat)
    (herr : (c.start id raw (some h)).2.1 = some .clientClosed ∨ (c.start id raw (some h)).2.1 = some .write ∨
            (c.start id raw (some h)).2.1 = some .stopErr ∨ (c.lookup id).isSome = true) :
    ∀ h', pend h' (c.start id raw (some h)).1 = pend h' c ∧ calls h' (c.start id raw (some h)).2.2 = 0 := by
  obtain ⟨_, _, a3, _, _, _, a7, _, _⟩ :=
    start_spec (c.t.map (fun p => (p.2.h, p.2.id, p.2.raw))) c hi (fun p hp => List.mem_map.mpr ⟨p, hp, rfl⟩) id raw h
  intro h'
  exact ⟨a7 herr h', a3 h'⟩

/-- after a successful `Start` with a fresh handler, in every continuation that does not reuse the handler:
    (invocations of the handler) + (still registered) = 1 — invoked exactly once, or still waiting.
    (A registration that is still there after `Close` is the known finding F6.) -/
theorem invoked_xor_pending (c : Client) (hi : TInv c) (id : TID) (raw : Bytes) (h : Nat)
    (hfresh : pend h c = 0) (hok : (c.start id raw (some h)).2.1 = none)
    (rest : List COp) (hno : startCount h rest = 0) :
    totalCalls h (run (c.start id raw (some h)).1 rest).2 + pend h (run (c.start id raw (some h)).1 rest).1 = 1 := by
  obtain ⟨a1, a2, _, _, _, a6, _, _, _⟩ :=
    start_spec (c.t.map (fun p => (p.2.h, p.2.id, p.2.raw))) c hi (fun p hp => List.mem_map.mpr ⟨p, hp, rfl⟩) id raw h
  have e := run_eq rest h hno _ _ a1 a2
  have e2 := a6 hok h
  simp only [beq_self_eq_true, if_true] at e2
  omega

/-- once the client is closed nothing is invoked any more (so a registration that survives `Close` stays) -/
theorem closed_no_invocation (c : Client) (hc : c.closed = true) (id : TID) (e : CEv) : c.callback id e = (c, []) :=
  callback_closed c id e hc

-- non-vacuity: a history with a response for a started transaction invokes its handler once
example : startCount 7 [.start [1] [] (some 7), .tick 5] ≤ 1 := by decide

end Stun.C10
