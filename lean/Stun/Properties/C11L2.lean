/-
  C11 at level L2: over every L2 history (blocking writes, blocking agent registrations, blocking first writes of
  Start, responses processed meanwhile, releases with success or failure) a request is written at most n+1 times.
  The potential of Proofs/ClientWrites.lean is extended by one unit for every call suspended at `ClientAgent.Start`
  (it has advanced the attempt counter and not written yet): Proofs/ClientL2Writes.lean.
  Known finding F14 (a write AFTER the transaction completed, `f14_write_after_completion`) is such a history: the late
  write is within the n+1 bound; what it violates is "a finished transaction writes nothing more".
-/
import Stun.Proofs.ClientL2Writes
import Stun.Properties.C10L2
namespace Stun.C11L2
open Stun Stun.Client Stun.ClientProofs

theorem l2_writes_at_most_n_plus_1 (n : Nat) (ops : List COp2) (h : Nat) (hu : startCount2 h ops ≤ 1) :
    wr h (({ c := { maxAttempts := n } } : Client2).run ops).2 ≤ n + 1 := by
  have hinv : Inv2 [] ({ c := { maxAttempts := n } } : Client2) :=
    ⟨⟨by simp, by simp [ckeys]⟩, by intro p hp; simp at hp, by intro s hs; simp at hs⟩
  have hb := run2_budget n h ops [] _ hinv rfl
  have h0 : pot n h ({ c := { maxAttempts := n } } : Client2) = 0 := rfl
  have : (n + 1) * startCount2 h ops ≤ n + 1 := by
    calc (n + 1) * startCount2 h ops ≤ (n + 1) * 1 := Nat.mul_le_mul_left _ hu
      _ = n + 1 := Nat.mul_one _
  omega

/-- non-vacuity and tightness at L2: n = 1, the retransmission suspended at ClientAgent.Start, the response processed
    meanwhile, the registration then succeeds: exactly n + 1 = 2 writes (the second one is F14's late write) -/
example : wr 1 (({ c := { maxAttempts := 1 } } : Client2).run
    [.l1 (.start C10L2.id1 C10L2.req1 (some 1)), .blockAgent C10L2.id1, .l1 (.tick 300000001),
     .deliverDecoded C10L2.id1 C10L2.resp1, .release true]).2 = 2 := by
  decide

end Stun.C11L2
