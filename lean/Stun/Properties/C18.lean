/-
  C18 — the pooled HMAC equals RFC 2104 HMAC for every key, message, chunking and reuse history.
  `acquire key` = take ANY object in ANY state (whatever it served before) and `resetTo key`.
  Parametric in the hash `H` and block size `B` (assumption: digests are not longer than a block, true for SHA-1 and
  SHA-256 with B = 64). `sync.Pool` handing an object to one taker at a time is an assumption (DESIGN §5).
-/
import Stun.Model.HmacPool
import Stun.Spec.Hash
namespace Stun.C18
open Stun Stun.Hmac

variable (H : Bytes → Bytes) (B : Nat)

/-- the RFC 2104 pads of a key -/
def ipadOf (key : Bytes) : Bytes := mkPad B (if key.length > B then H key else key) 0x36
def opadOf (key : Bytes) : Bytes := mkPad B (if key.length > B then H key else key) 0x5c

/-- the object is consistently keyed with `key` and has absorbed `w` since the last reset/acquire -/
def Good (key w : Bytes) (h : Hmac) : Prop :=
  h.broken = false ∧ h.inner = ipadOf H B key ++ w ∧
  ((h.marshaled = false ∧ h.ipad = .key (ipadOf H B key) ∧ h.opad = .key (opadOf H B key)) ∨
   (h.marshaled = true ∧ h.ipad = .state (ipadOf H B key) ∧ h.opad = .state (opadOf H B key)))

/-- acquiring from the pool: whatever the object served before (any pads, any absorbed data, any flags — even an
    inconsistent or broken object), after `resetTo key` it is consistently keyed with nothing absorbed -/
theorem resetTo_establishes (h : Hmac) (key : Bytes) : Good H B key [] (resetTo H B h key) := by
  unfold Good resetTo ipadOf opadOf
  simp

theorem new_good (key : Bytes) : Good H B key [] (Hmac.new H B key) := resetTo_establishes H B _ key

theorem write_good (key w p : Bytes) (h : Hmac) (g : Good H B key w h) : Good H B key (w ++ p) (h.write p) := by
  obtain ⟨g1, g2, g3⟩ := g
  refine ⟨g1, ?_, g3⟩
  simp [Hmac.write, g2, List.append_assoc]

/-- RFC 2104 with the pads made explicit -/
def hmacSpec (key msg : Bytes) : Bytes := H (opadOf H B key ++ H (ipadOf H B key ++ msg))

theorem sum_good (key w inp : Bytes) (h : Hmac) (g : Good H B key w h) :
    (h.sum H inp).2 = inp ++ hmacSpec H B key w ∧ Good H B key w (h.sum H inp).1 := by
  obtain ⟨ipad, opad, inner, outer, marshaled, broken⟩ := h
  obtain ⟨g1, g2, g3⟩ := g
  simp only at g1 g2 g3
  subst g1 g2
  rcases g3 with ⟨m, ip, op⟩ | ⟨m, ip, op⟩
  · subst m ip op
    simp only [Hmac.sum, Bool.false_eq_true, if_false, hmacSpec]
    exact ⟨trivial, by simp, rfl, Or.inl ⟨rfl, rfl, rfl⟩⟩
  · subst m ip op
    simp only [Hmac.sum, if_true, hmacSpec]
    exact ⟨trivial, by simp, rfl, Or.inr ⟨rfl, rfl, rfl⟩⟩

theorem reset_good (key w : Bytes) (h : Hmac) (g : Good H B key w h) : Good H B key [] (h.reset) := by
  obtain ⟨ipad, opad, inner, outer, marshaled, broken⟩ := h
  obtain ⟨g1, g2, g3⟩ := g
  simp only at g1 g2 g3
  subst g1 g2
  rcases g3 with ⟨m, ip, op⟩ | ⟨m, ip, op⟩
  · subst m ip op
    simp only [Hmac.reset, Bool.false_eq_true, if_false]
    exact ⟨rfl, by simp, Or.inr ⟨rfl, rfl, rfl⟩⟩
  · subst m ip op
    simp only [Hmac.reset, if_true]
    exact ⟨rfl, by simp, Or.inr ⟨rfl, rfl, rfl⟩⟩

/-- run a sequence of operations, collecting what each `Sum` returned together with what RFC 2104 prescribes for the
    data written since the last reset -/
def run : Hmac → Bytes → List HOp → List (Bytes × Bytes × Bytes)
  | _, _, [] => []
  | h, w, .write p :: r => run (h.write p) (w ++ p) r
  | h, w, .sum inp :: r => ((h.sum H inp).2, inp, w) :: run (h.sum H inp).1 w r
  | h, _, .reset :: r => run h.reset [] r

/-- every `Sum` in every operation sequence after an acquire returns `in ++ HMAC(key, data written since the last
    reset)`: for every chunking of the writes, every key length, every previous history of the pooled object -/
theorem sum_eq_spec (key : Bytes) (ops : List HOp) (h : Hmac) (w : Bytes) (g : Good H B key w h) :
    ∀ x ∈ run H h w ops, x.1 = x.2.1 ++ hmacSpec H B key x.2.2 := by
  induction ops generalizing h w with
  | nil => intro x hx; simp [run] at hx
  | cons op r ih =>
    cases op with
    | write p => exact ih _ _ (write_good H B key w p h g)
    | sum inp =>
      intro x hx
      simp only [run, List.mem_cons] at hx
      obtain ⟨s1, s2⟩ := sum_good H B key w inp h g
      rcases hx with rfl | hx
      · exact s1
      · exact ih _ _ s2 x hx
    | reset => exact ih _ _ (reset_good H B key w h g)

theorem acquire_then_ops (prev : Hmac) (key : Bytes) (ops : List HOp) :
    ∀ x ∈ run H (resetTo H B prev key) [] ops, x.1 = x.2.1 ++ hmacSpec H B key x.2.2 :=
  sum_eq_spec H B key ops _ [] (resetTo_establishes H B prev key)

/-- chunking is irrelevant: writing `a` then `b` is writing `a ++ b` -/
theorem write_append (h : Hmac) (a b : Bytes) : (h.write a).write b = h.write (a ++ b) := by
  simp [Hmac.write, List.append_assoc]

/-- `hmacSpec` is RFC 2104 as written in Spec/Hash.lean, when digests fit a block -/
theorem hmacSpec_eq_rfc (hH : ∀ x, (H x).length ≤ B) (key msg : Bytes) :
    hmacSpec H B key msg = Spec.hmac H B key msg := by
  unfold hmacSpec Spec.hmac ipadOf opadOf mkPad zerosB
  by_cases hk : key.length > B
  · have : (H key).take B = H key := List.take_of_length_le (hH key)
    simp [hk, this]
  · have : key.take B = key := List.take_of_length_le (by omega)
    simp [hk, this]

-- non-vacuity: a marshaled object (after Reset) keyed with a long key is Good
example : Good H 4 [1, 2, 3, 4, 5] [] (Hmac.reset (resetTo H 4 (Hmac.new H 4 [9]) [1, 2, 3, 4, 5])) :=
  reset_good H 4 _ [] _ (resetTo_establishes H 4 _ _)

end Stun.C18
