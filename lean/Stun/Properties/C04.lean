/-
  C04 — MESSAGE-INTEGRITY is computed and verified exactly as RFC 5389 §15.4.
  The MAC is a parameter `mac : key → message → tag`; theorems that need it assume only a 20-byte output. The driver
  instantiates it with Spec.hmacSHA1 (RFC 2104 / RFC 3174 written in Lean), which the correspondence compares with the
  library's pooled HMAC on every signed message. Collision resistance is not (and cannot be) a theorem: tamper
  detection is stated as "rejected iff the MAC over the covered span differs".
-/
import Stun.Proofs.CanonicalDecode
namespace Stun.C04
open Stun Stun.Msg Stun.Spec Stun.BuildProofs Stun.DecodeProofs
set_option maxHeartbeats 400000

/-- `m` is a successfully decoded message: `p` is the RFC parse of its visible bytes and the struct holds it -/
structure DecodedAs (m : Msg) (p : Parsed) : Prop where
  cap : m.len ≤ m.mem.length
  parse : rfcParse m.raw = some p
  length : m.length = p.length
  attrs : m.attrs = p.attrs.map attrOfSpec

/-- the first attribute of type `t` in a parsed list -/
def firstOf (t : Nat) : List Attr → Option Attr
  | [] => none
  | a :: r => if a.typ = t then some a else firstOf t r

theorem get_firstOf (as : List Attr) (t : Nat) :
    (as.map attrOfSpec).find? (fun a => a.typ == t) = (firstOf t as).map attrOfSpec := by
  induction as with
  | nil => rfl
  | cons a r ih =>
    simp only [List.map_cons, List.find?_cons, firstOf]
    by_cases h : a.typ = t
    · have : (attrOfSpec a).typ == t := by simp [attrOfSpec, h]
      simp [this, h]
    · have : ((attrOfSpec a).typ == t) = false := by simp [attrOfSpec, h]
      simp only [this, h, if_false]; exact ih

/-- bytes taken by all attributes of a chain -/
theorem sizeReduced_true (endp : Nat) : ∀ (as : List Attr) (pos : Nat), AChain endp pos as →
    sizeReducedAux true (as.map attrOfSpec) = endp - pos := by
  intro as
  induction as with
  | nil => intro pos h; simp [AChain] at h; simp [sizeReducedAux, h]
  | cons a r ih =>
    intro pos h
    obtain ⟨h1, h2, h3, h4⟩ := h
    have hb := (AChain_bounds endp r _ h4).1
    simp only [List.map_cons, sizeReducedAux, if_true, Bool.true_or, attrOfSpec, attributeHeaderSize]
    rw [ih _ h4, npvl_eq]
    omega

/-- the `sizeReduced` loop: bytes after the first MESSAGE-INTEGRITY attribute (padded), or 0 if there is none -/
theorem sizeReduced_false (endp : Nat) : ∀ (as : List Attr) (pos : Nat), AChain endp pos as →
    sizeReducedAux false (as.map attrOfSpec) =
      match firstOf attrMessageIntegrity as with
      | none => 0
      | some a => endp - (a.off + a.length + pad4 a.length) := by
  intro as
  induction as with
  | nil => intro pos h; simp [sizeReducedAux, firstOf]
  | cons a r ih =>
    intro pos h
    obtain ⟨h1, h2, h3, h4⟩ := h
    simp only [List.map_cons, sizeReducedAux, Bool.false_eq_true, if_false, Nat.zero_add, Bool.false_or, firstOf,
      attrOfSpec]
    by_cases ht : a.typ = attrMessageIntegrity
    · simp only [ht, beq_self_eq_true, if_true]
      exact sizeReduced_true endp r _ h4
    · have : (a.typ == attrMessageIntegrity) = false := by simpa using ht
      simp only [this, ht, if_false]
      exact ih _ h4

theorem firstOf_mem (t : Nat) (as : List Attr) (a : Attr) (h : firstOf t as = some a) : a ∈ as ∧ a.typ = t := by
  induction as with
  | nil => simp [firstOf] at h
  | cons x r ih =>
    simp only [firstOf] at h
    by_cases hx : x.typ = t
    · simp only [hx, if_true, Option.some.injEq] at h; subst h; exact ⟨List.mem_cons_self, hx⟩
    · simp only [hx, if_false] at h; exact ⟨List.mem_cons_of_mem _ (ih h).1, (ih h).2⟩

theorem be16_lt (l : Bytes) : be16 l < 65536 := by
  match l with
  | [] => simp [be16]
  | [_] => simp [be16]
  | a :: b :: _ => exact u16_lt a b

/-- overwrite the header length field of a byte string -/
def setLen (bs : Bytes) (n : Nat) : Bytes := writeAt bs 2 (put16 n)

theorem writeAt_writeAt_same (l : Bytes) (pos : Nat) (d1 d2 : Bytes) (hl : d1.length = d2.length)
    (h : pos + d1.length ≤ l.length) : writeAt (writeAt l pos d1) pos d2 = writeAt l pos d2 := by
  unfold writeAt
  have e1 : (l.take pos ++ d1 ++ l.drop (pos + d1.length)).take pos = l.take pos := by
    rw [List.append_assoc, List.take_append_of_le_length (by simp; omega), List.take_take]; simp
  have e2 : (l.take pos ++ d1 ++ l.drop (pos + d1.length)).drop (pos + d2.length) = l.drop (pos + d2.length) := by
    have : pos + d2.length = (l.take pos ++ d1).length := by simp; omega
    rw [this, List.drop_left, ← this, hl]
  rw [e1, e2]

theorem writeAt_lenField_self (l : Bytes) (h : 4 ≤ l.length) : writeAt l 2 (put16 (be16 (l.drop 2))) = l := by
  match l, h with
  | a :: b :: c :: d :: r, _ =>
    simp only [List.drop_succ_cons, List.drop_zero, be16, put16_u16]
    simp [writeAt]

/-- `m` after the integrity check, and its verdict: every decoded message, every key -/
theorem check_spec (mac : Bytes → Bytes → Bytes) (key : Bytes) (m : Msg) (p : Parsed) (h : DecodedAs m p) :
    (match firstOf attrMessageIntegrity p.attrs with
      | none => (integrityCheck mac key m).2 = .err .notFound
      | some a =>
        let E := a.off + a.length + pad4 a.length     -- end of the (padded) MESSAGE-INTEGRITY attribute
        (integrityCheck mac key m).2 =
          (if a.val == mac key ((setLen m.raw (E - 20)).take (E - 24)) then .ok else .err .mismatch)) ∧
    (integrityCheck mac key m).1.raw = m.raw ∧ (integrityCheck mac key m).1.length = m.length ∧
    (integrityCheck mac key m).1.attrs = m.attrs ∧ (integrityCheck mac key m).1.len = m.len := by
  obtain ⟨h20, hck, hplen, hsz, htl, _, _, _⟩ := rfcParse_some h.parse
  have hch := rfcParse_chain h.parse
  have hrl : m.raw.length = m.len := by simp only [Msg.raw, List.length_take]; have := h.cap; omega
  rw [hrl] at h20 hsz
  have hget : m.attrs.find? (fun a => a.typ == attrMessageIntegrity)
      = (firstOf attrMessageIntegrity p.attrs).map attrOfSpec := by rw [h.attrs]; exact get_firstOf _ _
  have hsr := sizeReduced_false _ _ _ hch
  rw [← h.attrs] at hsr
  unfold integrityCheck Msg.get
  rw [hget]
  cases hf : firstOf attrMessageIntegrity p.attrs with
  | none => simp
  | some a =>
    obtain ⟨hmem, _⟩ := firstOf_mem _ _ _ hf
    have hb := (AChain_bounds _ _ _ hch).2 a hmem
    rw [hf] at hsr
    simp only at hsr
    simp only [Option.map_some, attrOfSpec]
    rw [hsr]
    generalize hE : a.off + a.length + pad4 a.length = E at *
    have hpl : p.length < 65536 := by rw [hplen]; exact be16_lt _
    have hcap := h.cap
    have hE1 : 24 ≤ E := by omega
    have hE2 : E ≤ 20 + p.length := hb.2
    -- the uint32 adjustments do not wrap
    have hL1 : w32 (m.length + 4294967296 - w32 (20 + p.length - E)) = E - 20 := by
      unfold w32; rw [h.length, Nat.mod_eq_of_lt (show 20 + p.length - E < 4294967296 by omega)]
      rw [show p.length + 4294967296 - (20 + p.length - E) = (E - 20) + 4294967296 by omega]
      rw [Nat.add_mod_right]; exact Nat.mod_eq_of_lt (by omega)
    rw [hL1]
    obtain ⟨d1, d2, d3, d4, d5, d6, d7, d8⟩ := writeLength_spec { m with length := E - 20 } (by simp only; omega) h.cap
    generalize hm1 : ({ m with length := E - 20 } : Msg).writeLength = m1 at *
    have hraw0 : ({ m with length := E - 20 } : Msg).raw = m.raw := rfl
    rw [hraw0] at d1
    simp only at d1 d2 d3 d4 d5
    have hS : w32 (messageHeaderSize + m1.length + 4294967296 - (attributeHeaderSize + messageIntegritySize)) = E - 24 := by
      unfold w32; rw [d4]; simp only [messageHeaderSize, attributeHeaderSize, messageIntegritySize]; omega
    rw [hS]
    rw [if_neg (by rw [d3]; omega)]
    have hb1 : m1.mem.take (E - 24) = (setLen m.raw (E - 20)).take (E - 24) := by
      have : m1.mem.take (E - 24) = (m1.mem.take m1.len).take (E - 24) := by
        rw [List.take_take, Nat.min_eq_left (by omega)]
      have e2 : m1.mem.take m1.len = m1.raw := rfl
      rw [this, e2, d1]; unfold setLen; rfl
    rw [hb1]
    generalize hexp : mac key ((setLen m.raw (E - 20)).take (E - 24)) = expected at *
    obtain ⟨s1, s2, s3, s4, s5, s6, s7, s8⟩ := sumIntoSpare_spec m1 expected (by rw [d2, d3]; exact h.cap)
    generalize hm2 : m1.sumIntoSpare expected = m2 at *
    obtain ⟨w1, w2, w3, w4, w5, w6, w7, w8⟩ := writeLength_spec { m2 with length := m.length }
      (by simp only; rw [s2, d2]; omega) (by simp only; rw [s2, s3, d2, d3]; exact h.cap)
    have hraw2 : ({ m2 with length := m.length } : Msg).raw = m2.raw := rfl
    rw [hraw2, s1, d1] at w1
    simp only at w1 w2 w4 w5
    refine ⟨rfl, ?_, w4, by rw [w5, s5, d5], by rw [w2, s2, d2]⟩
    rw [w1, writeAt_writeAt_same m.raw 2 (put16 (E - 20)) (put16 m.length) rfl (by simp [put16_len]; omega)]
    have : put16 m.length = put16 (be16 (m.raw.drop 2)) := by rw [h.length, hplen]
    rw [this]
    exact writeAt_lenField_self m.raw (by omega)

/-- the property's "if and only if": with a 20-byte MAC function, the check succeeds iff the first
    MESSAGE-INTEGRITY attribute is 20 bytes long and equals the MAC of the bytes preceding that attribute with the
    header length rewritten to end at that attribute (`a.off` = offset of its value = bytes before it + 4) -/
theorem check_iff (mac : Bytes → Bytes → Bytes) (hmac : ∀ k x, (mac k x).length = 20) (key : Bytes)
    (m : Msg) (p : Parsed) (h : DecodedAs m p) (a : Attr) (hf : firstOf attrMessageIntegrity p.attrs = some a) :
    (integrityCheck mac key m).2 = .ok ↔
      a.length = 20 ∧ a.val = mac key ((setLen m.raw a.off).take (a.off - 4)) := by
  have hs := (check_spec mac key m p h).1
  rw [hf] at hs
  simp only at hs
  rw [hs]
  have hch := rfcParse_chain h.parse
  obtain ⟨hmem, _⟩ := firstOf_mem _ _ _ hf
  -- the value has the declared length
  have hvl : a.val.length = a.length := by
    have : ∀ (as : List Attr) (pos : Nat), AChain (20 + p.length) pos as → ∀ x ∈ as, x.val.length = x.length := by
      intro as
      induction as with
      | nil => intro _ _ x hx; simp at hx
      | cons y r ih =>
        intro pos hc x hx
        obtain ⟨_, h2, _, h4⟩ := hc
        simp only [List.mem_cons] at hx
        rcases hx with rfl | hx
        · exact h2
        · exact ih _ h4 x hx
    exact this _ _ hch a hmem
  by_cases h20 : a.length = 20
  · have hp : pad4 a.length = 0 := by rw [h20]; rfl
    have e1 : a.off + a.length + pad4 a.length - 20 = a.off := by omega
    have e2 : a.off + a.length + pad4 a.length - 24 = a.off - 4 := by omega
    rw [e1, e2]
    by_cases hv : a.val = mac key ((setLen m.raw a.off).take (a.off - 4))
    · simp [hv, h20]
    · have : (a.val == mac key ((setLen m.raw a.off).take (a.off - 4))) = false := by simpa using hv
      simp [this, hv]
  · have hne : a.val ≠ mac key ((setLen m.raw (a.off + a.length + pad4 a.length - 20)).take
        (a.off + a.length + pad4 a.length - 24)) := by
      intro heq
      have := congrArg List.length heq
      rw [hvl, hmac] at this; exact h20 this
    have : (a.val == mac key ((setLen m.raw (a.off + a.length + pad4 a.length - 20)).take
        (a.off + a.length + pad4 a.length - 24))) = false := by simpa using hne
    simp [this, h20]

/-- the check never panics on a decoded message and leaves the message as it found it -/
theorem check_no_panic (mac : Bytes → Bytes → Bytes) (key : Bytes) (m : Msg) (p : Parsed) (h : DecodedAs m p) :
    (integrityCheck mac key m).2 ≠ .panic := by
  have hs := (check_spec mac key m p h).1
  cases hf : firstOf attrMessageIntegrity p.attrs with
  | none => rw [hf] at hs; rw [hs]; simp
  | some a => rw [hf] at hs; simp only at hs; rw [hs]; split <;> simp

theorem check_pure (mac : Bytes → Bytes → Bytes) (key : Bytes) (m : Msg) (p : Parsed) (h : DecodedAs m p) :
    (integrityCheck mac key m).1.raw = m.raw ∧ (integrityCheck mac key m).1.length = m.length ∧
    (integrityCheck mac key m).1.attrs = m.attrs ∧ (integrityCheck mac key m).1.len = m.len :=
  (check_spec mac key m p h).2

/-- a different key is rejected whenever it yields a different MAC over the covered span; so is any change of the
    MAC value or of a covered byte that changes the MAC (collision resistance itself is not provable) -/
theorem wrong_mac_rejected (mac : Bytes → Bytes → Bytes) (key : Bytes) (m : Msg) (p : Parsed) (h : DecodedAs m p)
    (a : Attr) (hf : firstOf attrMessageIntegrity p.attrs = some a)
    (hne : a.val ≠ mac key ((setLen m.raw (a.off + a.length + pad4 a.length - 20)).take
              (a.off + a.length + pad4 a.length - 24))) :
    (integrityCheck mac key m).2 = .err .mismatch := by
  have hs := (check_spec mac key m p h).1
  rw [hf] at hs; simp only at hs; rw [hs]
  have : (a.val == mac key ((setLen m.raw (a.off + a.length + pad4 a.length - 20)).take
        (a.off + a.length + pad4 a.length - 24))) = false := by simpa using hne
  simp [this]

/-- the verdict does not depend on anything after the MESSAGE-INTEGRITY attribute: two decoded messages with the
    same first MESSAGE-INTEGRITY attribute and the same bytes before it get the same verdict -/
theorem check_ignores_suffix (mac : Bytes → Bytes → Bytes) (key : Bytes) (m1 m2 : Msg) (p1 p2 : Parsed)
    (h1 : DecodedAs m1 p1) (h2 : DecodedAs m2 p2) (a : Attr)
    (f1 : firstOf attrMessageIntegrity p1.attrs = some a) (f2 : firstOf attrMessageIntegrity p2.attrs = some a)
    (hpre : ∀ n, (setLen m1.raw n).take (a.off + a.length + pad4 a.length - 24)
               = (setLen m2.raw n).take (a.off + a.length + pad4 a.length - 24)) :
    (integrityCheck mac key m1).2 = (integrityCheck mac key m2).2 := by
  have s1 := (check_spec mac key m1 p1 h1).1
  have s2 := (check_spec mac key m2 p2 h2).1
  rw [f1] at s1; rw [f2] at s2
  simp only at s1 s2
  rw [s1, s2, hpre]

theorem attrsOf_append (xs ys : List (Nat × Bytes × Bytes)) (off : Nat) :
    attrsOf off (xs ++ ys) = attrsOf off xs ++ attrsOf (off + (serialize xs).length) ys := by
  induction xs generalizing off with
  | nil => simp [attrsOf, serialize]
  | cons x r ih =>
    obtain ⟨t, v, p⟩ := x
    simp only [List.cons_append, attrsOf, ih, serialize_cons_length, List.cons.injEq, true_and]
    congr 2; omega

theorem firstOf_append_right (t : Nat) (l1 l2 : List Attr) (h : ∀ a ∈ l1, a.typ ≠ t) :
    firstOf t (l1 ++ l2) = firstOf t l2 := by
  induction l1 with
  | nil => rfl
  | cons x r ih =>
    simp only [List.cons_append, firstOf]
    rw [if_neg (h x List.mem_cons_self)]
    exact ih (fun a ha => h a (List.mem_cons_of_mem _ ha))

theorem C01setRaw (m : Msg) (data : Bytes) : (m.setRaw data).raw = data := by
  unfold Msg.setRaw Msg.raw; split <;> simp

/-- what a receiver holds after decoding the raw bytes of a canonical message -/
theorem decodedAs_of_canonical (m b : Msg) (h : Canonical m) (hm : m.method < 4096) (hc : m.cls < 4) :
    DecodedAs (b.decodeFrom m.raw).1 ⟨m.method, m.cls, m.length, m.tid, attrsOf 20 (m.attrs.map wireOf)⟩ ∧
    (b.decodeFrom m.raw).1.raw = m.raw := by
  have hcap : (b.setRaw m.raw).len ≤ (b.setRaw m.raw).mem.length := by
    unfold Msg.setRaw; split <;> simp <;> omega
  have hraw : (b.setRaw m.raw).raw = m.raw := C01setRaw b m.raw
  have hp := canonical_rfcParse m h hm hc
  have key := decode_char (b.setRaw m.raw) hcap
  rw [hraw, hp] at key
  unfold Msg.decodeFrom
  rw [key]
  refine ⟨⟨hcap, ?_, rfl, rfl⟩, hraw⟩
  show rfcParse (b.setRaw m.raw).raw = _
  rw [hraw]; exact hp

/-- a message signed by the library verifies under the same key — at the receiver, after decoding the signed bytes
    into any message object; for every canonical message without MESSAGE-INTEGRITY / FINGERPRINT, every key (short-term
    password bytes or the long-term MD5 key alike) and every 20-byte MAC function -/
theorem sign_then_check (mac : Bytes → Bytes → Bytes) (hmac : ∀ k x, (mac k x).length = 20) (key : Bytes)
    (m b : Msg) (h : Canonical m) (hm : m.method < 4096) (hc : m.cls < 4)
    (hfp : m.attrs.any (fun a => a.typ == attrFingerprint) = false)
    (hmi : ∀ a ∈ m.attrs, compat a.typ ≠ attrMessageIntegrity)
    (hfit : m.length + 24 < 65536) :
    (integrityCheck mac key (b.decodeFrom (integrityAddTo mac key m).1.raw).1).2 = .ok := by
  obtain ⟨_, hcan, hattrs, hmeth, hcls, htid⟩ := integrity_canonical mac hmac key m h hfp hfit
  generalize hv : mac key (headerL m (put16 (m.length + 24)) ++ body m.attrs) = v at hattrs
  generalize hm' : (integrityAddTo mac key m).1 = m' at *
  have hvl : v.length = 20 := by rw [← hv]; exact hmac _ _
  obtain ⟨hd, hraw⟩ := decodedAs_of_canonical m' b hcan (by rw [hmeth]; exact hm) (by rw [hcls]; exact hc)
  generalize hdm : (b.decodeFrom m'.raw).1 = d at *
  -- the first MESSAGE-INTEGRITY attribute of the parse is the appended one
  have hlenm : (serialize (m.attrs.map wireOf)).length = m.length := h.length.symm
  have hfirst : firstOf attrMessageIntegrity (attrsOf 20 (m'.attrs.map wireOf))
      = some ⟨attrMessageIntegrity, 20, v, 20 + m.length + 4⟩ := by
    rw [hattrs, List.map_append, attrsOf_append, firstOf_append_right]
    · simp [attrsOf, wireOf, firstOf, compat, attrMessageIntegrity, hlenm, hvl]
    · intro a ha
      -- attributes of the old part keep their (aliased) types
      have : ∀ (as : List RawAttr) (off : Nat), (∀ x ∈ as, compat x.typ ≠ attrMessageIntegrity) →
          ∀ a ∈ attrsOf off (as.map wireOf), a.typ ≠ attrMessageIntegrity := by
        intro as
        induction as with
        | nil => intro _ _ a ha; simp [attrsOf] at ha
        | cons x r ih =>
          intro off hx a ha
          simp only [List.map_cons, wireOf, attrsOf, List.mem_cons] at ha
          rcases ha with rfl | ha
          · exact hx x List.mem_cons_self
          · exact ih _ (fun y hy => hx y (List.mem_cons_of_mem _ hy)) a ha
      exact this _ _ hmi a ha
  rw [(check_iff mac hmac key d _ hd _ hfirst)]
  refine ⟨rfl, ?_⟩
  simp only
  rw [hraw]
  -- the bytes before the attribute, with the header length that is already there
  have hl' : m'.length = m.length + 24 := by
    have := hcan.length
    rw [this, hattrs, body_append, List.length_append, tlvBytes_length', ← h.length, hvl]; simp [zeros, pad4]
  have hrawm' : m'.raw = headerL m (put16 (m.length + 24)) ++ (body m.attrs ++ tlvBytes attrMessageIntegrity v (zeros (pad4 v.length))) := by
    rw [hcan.raw, hattrs, body_append, hl']; simp only [headerL, hmeth, hcls, htid]
  have hset : setLen m'.raw (20 + m.length + 4) = m'.raw := by
    rw [hrawm']; unfold setLen
    simp only [headerL, List.append_assoc]
    have := writeAt_lenField (put16 (typeValue m.method m.cls)) (put16 (m.length + 24)) (put16 (20 + m.length + 4))
      (put32 magicCookie ++ (m.tid ++ (body m.attrs ++ tlvBytes attrMessageIntegrity v (zeros (pad4 v.length))))) rfl rfl rfl
    simp only [List.append_assoc] at this
    rw [this]
    have : 20 + m.length + 4 = m.length + 24 := by omega
    rw [this]
  rw [hset, hrawm', ← hv]
  congr 1
  have hhl : (headerL m (put16 (m.length + 24))).length = 20 := headerL_length m _ h.tidLen rfl
  have : 20 + m.length + 4 - 4 = (headerL m (put16 (m.length + 24)) ++ body m.attrs).length := by
    rw [List.length_append, hhl, ← h.length]; omega
  rw [this, ← List.append_assoc, List.take_left]

end Stun.C04
