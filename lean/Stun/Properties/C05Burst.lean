/-
  C05 (continued) — CRC-32 detects every single-bit flip and every burst of up to 32 bits, proved from first
  principles for the bit-serial specification (no appeal to polynomial algebra): the LFSR step is linear and
  injective; if two runs that started to differ at some bit ended in the same state n ≤ 31 bits later, the
  difference right after the first differing bit would be below 2^n — but it is the generator polynomial, whose top
  bit is set. Kernel axioms only.
-/
import Stun.Spec.CRC32
import Stun.Properties.C05
namespace Stun.C05
open Stun Stun.Spec
set_option maxHeartbeats 400000

theorem shr_xor (a b : BitVec 32) : (a ^^^ b) >>> 1 = (a >>> 1) ^^^ (b >>> 1) := by
  apply BitVec.eq_of_getLsbD_eq; intro i hi
  simp [BitVec.getLsbD_xor, BitVec.getLsbD_ushiftRight]

theorem lsb_xor (a b : BitVec 32) : (a ^^^ b).getLsbD 0 = (a.getLsbD 0 ^^ b.getLsbD 0) := by
  simp [BitVec.getLsbD_xor]

/-- the LFSR step is linear over GF(2) -/
theorem crcStep_xor (a b : BitVec 32) : crcStep (a ^^^ b) = crcStep a ^^^ crcStep b := by
  unfold crcStep
  rw [lsb_xor, shr_xor]
  cases ha : a.getLsbD 0 <;> cases hb : b.getLsbD 0 <;> simp
  · rw [BitVec.xor_assoc]
  · rw [BitVec.xor_assoc, BitVec.xor_comm (b >>> 1) crcPoly, ← BitVec.xor_assoc]
  · -- poly cancels
    have : ((a >>> 1) ^^^ crcPoly) ^^^ ((b >>> 1) ^^^ crcPoly) = (a >>> 1) ^^^ (b >>> 1) := by
      rw [BitVec.xor_assoc, BitVec.xor_comm (b >>> 1) crcPoly, ← BitVec.xor_assoc crcPoly, BitVec.xor_self,
        BitVec.zero_xor]
    rw [this]

theorem crcStep_zero : crcStep 0#32 = 0#32 := by decide

theorem poly_msb : crcPoly.getLsbD 31 = true := by decide
theorem poly_toNat : 2 ^ 31 ≤ crcPoly.toNat := by decide

theorem shr1_toNat (z : BitVec 32) : (z >>> 1).toNat = z.toNat / 2 := by
  simp [BitVec.toNat_ushiftRight, Nat.shiftRight_eq_div_pow]

theorem shr1_msb (z : BitVec 32) : (z >>> 1).getLsbD 31 = false := by
  simp [BitVec.getLsbD_ushiftRight]

/-- a value whose bit 31 is set is at least 2^31 -/
theorem ge_of_msb (x : BitVec 32) (h : x.getLsbD 31 = true) : 2 ^ 31 ≤ x.toNat := by
  have : x.toNat.testBit 31 = true := by simpa [BitVec.getLsbD] using h
  exact Nat.ge_two_pow_of_testBit this

/-- backward step: if the state after a shift is small, the state before was small (the feedback would set bit 31) -/
theorem crcStep_back (z : BitVec 32) (j : Nat) (hj : j ≤ 31) (h : (crcStep z).toNat < 2 ^ j) : z.toNat < 2 ^ (j + 1) := by
  unfold crcStep at h
  cases hl : z.getLsbD 0 with
  | false =>
    simp only [hl, Bool.false_eq_true, if_false] at h
    rw [shr1_toNat] at h
    rw [Nat.pow_succ]; omega
  | true =>
    simp only [hl, if_true] at h
    have hm : ((z >>> 1) ^^^ crcPoly).getLsbD 31 = true := by
      rw [BitVec.getLsbD_xor, shr1_msb, poly_msb]; rfl
    have := ge_of_msb _ hm
    have : 2 ^ j ≤ 2 ^ 31 := Nat.pow_le_pow_right (by decide) hj
    omega

/-- xor-ing a message bit into the lowest position keeps a bound of at least 2 -/
theorem xor_bit_lt (z : BitVec 32) (b : Bool) (k : Nat) (hk : 1 ≤ k) (h : (z ^^^ (if b then 1#32 else 0#32)).toNat < 2 ^ k) :
    z.toNat < 2 ^ k := by
  cases b with
  | false => simpa using h
  | true =>
    simp only [if_true] at h
    -- z and z ^^^ 1 agree above bit 0
    have e : z.toNat / 2 = (z ^^^ 1#32).toNat / 2 := by
      rw [← shr1_toNat, ← shr1_toNat, shr_xor]
      have : (1#32 : BitVec 32) >>> 1 = 0#32 := by decide
      rw [this, BitVec.xor_zero]
    obtain ⟨m, rfl⟩ : ∃ m, k = m + 1 := ⟨k - 1, by omega⟩
    rw [Nat.pow_succ] at h ⊢
    omega

def bitv (b : Bool) : BitVec 32 := if b then 1#32 else 0#32

theorem crcBit_def (c : BitVec 32) (b : Bool) : crcBit c b = crcStep (c ^^^ bitv b) := rfl

/-- difference of the states after absorbing one more bit each -/
theorem crcBit_diff (x y : BitVec 32) (a b : Bool) :
    crcBit x a ^^^ crcBit y b = crcStep ((x ^^^ y) ^^^ (bitv a ^^^ bitv b)) := by
  rw [crcBit_def, crcBit_def, ← crcStep_xor]
  congr 1
  rw [BitVec.xor_assoc, BitVec.xor_assoc]
  congr 1
  rw [← BitVec.xor_assoc, BitVec.xor_comm (bitv a) y, BitVec.xor_assoc]

theorem bitv_xor (a b : Bool) : bitv a ^^^ bitv b = bitv (a ^^ b) := by
  cases a <;> cases b <;> decide

/-- if two runs end in the same state after `n ≤ 32` further bits each, their states differed by less than 2^n -/
theorem diff_small : ∀ (r1 r2 : List Bool) (x y : BitVec 32), r1.length = r2.length → r1.length ≤ 32 →
    crcBits x r1 = crcBits y r2 → (x ^^^ y).toNat < 2 ^ r1.length := by
  intro r1
  induction r1 with
  | nil =>
    intro r2 x y hl _ h
    have : r2 = [] := by cases r2 with | nil => rfl | cons _ _ => simp at hl
    subst this
    simp only [crcBits, List.foldl_nil] at h
    subst h; simp
  | cons a r1 ih =>
    intro r2 x y hl hn h
    cases r2 with
    | nil => simp at hl
    | cons b r2 =>
      simp only [List.length_cons] at hl hn ⊢
      simp only [crcBits, List.foldl_cons] at h
      have hrec := ih r2 (crcBit x a) (crcBit y b) (by omega) (by omega) h
      rw [crcBit_diff, bitv_xor] at hrec
      have hb := crcStep_back _ r1.length (by omega) hrec
      exact xor_bit_lt _ _ _ (by omega) hb

theorem crcStep_eq_zero (z : BitVec 32) (h : crcStep z = 0#32) : z = 0#32 := by
  have h0 : (crcStep z).toNat < 2 ^ 0 := by rw [h]; decide
  have h1 := crcStep_back z 0 (by decide) h0
  -- z < 2: z = 0 or z = 1; crcStep 1 = poly ≠ 0
  have : z.toNat = 0 ∨ z.toNat = 1 := by omega
  rcases this with hz | hz
  · exact BitVec.eq_of_toNat_eq (by simpa using hz)
  · have : z = 1#32 := BitVec.eq_of_toNat_eq (by simpa using hz)
    subst this
    exact absurd h (by decide)

theorem crcStep_inj (a b : BitVec 32) (h : crcStep a = crcStep b) : a = b := by
  have : crcStep (a ^^^ b) = 0#32 := by rw [crcStep_xor, h, BitVec.xor_self]
  have := crcStep_eq_zero _ this
  -- a ^^^ b = 0 → a = b
  have e : a = (a ^^^ b) ^^^ b := by rw [BitVec.xor_assoc, BitVec.xor_self, BitVec.xor_zero]
  rw [this, BitVec.zero_xor] at e
  exact e

/-- absorbing the same bits from two different states gives different states -/
theorem crcBits_inj (bits : List Bool) (x y : BitVec 32) (h : crcBits x bits = crcBits y bits) : x = y := by
  induction bits generalizing x y with
  | nil => exact h
  | cons b r ih =>
    simp only [crcBits, List.foldl_cons] at h
    have := ih _ _ h
    rw [crcBit_def, crcBit_def] at this
    have := crcStep_inj _ _ this
    -- cancel the common bit
    have e : x = (x ^^^ bitv b) ^^^ bitv b := by rw [BitVec.xor_assoc, BitVec.xor_self, BitVec.xor_zero]
    rw [e, this, BitVec.xor_assoc, BitVec.xor_self, BitVec.xor_zero]

theorem crcBits_append (c : BitVec 32) (a b : List Bool) : crcBits c (a ++ b) = crcBits (crcBits c a) b := by
  simp [crcBits, List.foldl_append]

/-- CRC-32 burst detection on bit strings: two messages that agree outside a window of at most 32 consecutive bits
    (in the order the CRC consumes them) and differ inside it never have the same CRC state -/
theorem crcBits_burst (c : BitVec 32) (pre suf : List Bool) :
    ∀ (w1 w2 : List Bool), w1.length = w2.length → w1.length ≤ 32 → w1 ≠ w2 →
      crcBits c (pre ++ w1 ++ suf) ≠ crcBits c (pre ++ w2 ++ suf) := by
  intro w1 w2 hl hn hne heq
  rw [crcBits_append, crcBits_append, crcBits_append, crcBits_append] at heq
  have hw := crcBits_inj suf _ _ heq
  -- strip the common prefix of the two windows
  generalize crcBits c pre = s at hw
  clear heq
  induction w1 generalizing w2 s with
  | nil =>
    cases w2 with
    | nil => exact hne rfl
    | cons _ _ => simp at hl
  | cons a r1 ih =>
    cases w2 with
    | nil => simp at hl
    | cons b r2 =>
      simp only [List.length_cons] at hl hn
      by_cases hab : a = b
      · subst hab
        simp only [crcBits, List.foldl_cons] at hw
        exact ih r2 (by omega) (by omega) (fun e => hne (by rw [e])) (crcBit s a) hw
      · -- first differing bit: the difference becomes the polynomial, which is ≥ 2^31 …
        simp only [crcBits, List.foldl_cons] at hw
        have hsmall := diff_small r1 r2 (crcBit s a) (crcBit s b) (by omega) (by omega) hw
        rw [crcBit_diff, BitVec.xor_self, BitVec.zero_xor, bitv_xor] at hsmall
        have hx : (a ^^ b) = true := by cases a <;> cases b <;> simp_all
        rw [hx] at hsmall
        have hp : crcStep (bitv true) = crcPoly := by decide
        rw [hp] at hsmall
        have := poly_toNat
        have : 2 ^ r1.length ≤ 2 ^ 31 := Nat.pow_le_pow_right (by decide) (by omega)
        omega

theorem crcUpdate_bits (c : BitVec 32) (bs : Bytes) : crcUpdate c bs = crcBits c (bitsOf bs) := by
  induction bs generalizing c with
  | nil => rfl
  | cons b r ih =>
    simp only [crcUpdate, List.foldl_cons, bitsOf, List.flatMap_cons]
    rw [crcBits_append]
    exact ih _

/-- two byte strings agree outside a window of at most 32 consecutive bits (CRC bit order: least significant bit of
    each byte first) and differ inside it -/
def BurstDiff (x y : Bytes) : Prop :=
  ∃ pre suf w1 w2, bitsOf x = pre ++ w1 ++ suf ∧ bitsOf y = pre ++ w2 ++ suf ∧ w1.length = w2.length ∧
    w1.length ≤ 32 ∧ w1 ≠ w2

/-- CRC-32 detects every burst of up to 32 bits (in particular every single-bit flip) -/
theorem crc32_burst (x y : Bytes) (h : BurstDiff x y) : crc32 x ≠ crc32 y := by
  obtain ⟨pre, suf, w1, w2, hx, hy, hl, hn, hne⟩ := h
  intro heq
  unfold crc32 at heq
  have h1 := BitVec.eq_of_toNat_eq heq
  have h2 : crcUpdate 0xFFFFFFFF#32 x = crcUpdate 0xFFFFFFFF#32 y := by
    have e : ∀ a : BitVec 32, a = (a ^^^ 0xFFFFFFFF#32) ^^^ 0xFFFFFFFF#32 := by
      intro a; rw [BitVec.xor_assoc, BitVec.xor_self, BitVec.xor_zero]
    rw [e (crcUpdate 0xFFFFFFFF#32 x), h1, ← e]
  rw [crcUpdate_bits, crcUpdate_bits, hx, hy] at h2
  exact crcBits_burst _ pre suf w1 w2 hl hn hne h2

/-- a single flipped bit is a burst -/
theorem singleBit_burst (pre suf : List Bool) (b : Bool) (x y : Bytes)
    (hx : bitsOf x = pre ++ [b] ++ suf) (hy : bitsOf y = pre ++ [!b] ++ suf) : BurstDiff x y :=
  ⟨pre, suf, [b], [!b], hx, hy, rfl, by simp, by cases b <;> simp⟩

/-! ### message level -/

open Stun.Msg in
/-- Corruption confined to the bytes covered by the fingerprint: if the message a receiver holds has the same
    trailing FINGERPRINT attribute (same value `v` = CRC of the original covered bytes `S`, xor 0x5354554e) but its
    covered bytes `S'` differ from `S` by a single bit or any burst of up to 32 bits, the fingerprint check fails. -/
theorem fp_detects_burst_in_covered (m : Msg) (S S' : Bytes) (hb : BurstDiff S S')
    (hlen : 8 ≤ m.len) (hcov : m.raw.take (m.len - 8) = S')
    (hget : m.get attrFingerprint = some (put32 (crc32 S ^^^ 0x5354554e))) :
    fingerprintCheck m ≠ .ok := by
  intro hok
  obtain ⟨b, hb1, _, hb3⟩ := (fp_check_iff m hlen).mp hok
  rw [hget] at hb1
  simp only [Option.some.injEq] at hb1; subst hb1
  have hlt : crc32 S ^^^ 0x5354554e < 4294967296 := Nat.xor_lt_two_pow (n := 32) (crc32_lt S) (by decide)
  rw [be32_put32 _ hlt, hcov] at hb3
  have : crc32 S = crc32 S' := by
    have := congrArg (· ^^^ 0x5354554e) hb3
    simp only [Nat.xor_assoc, Nat.xor_self, Nat.xor_zero] at this
    exact this
  exact crc32_burst S S' hb this

/-- Corruption confined to the FINGERPRINT value: any change of the 4 value bytes (covered bytes intact) fails. -/
theorem fp_detects_value_change (m : Msg) (S v' : Bytes) (hv : v' ≠ put32 (crc32 S ^^^ 0x5354554e)) (hl : v'.length = 4)
    (hlen : 8 ≤ m.len) (hcov : m.raw.take (m.len - 8) = S) (hget : m.get attrFingerprint = some v') :
    fingerprintCheck m ≠ .ok := by
  intro hok
  obtain ⟨b, hb1, _, hb3⟩ := (fp_check_iff m hlen).mp hok
  rw [hget] at hb1
  simp only [Option.some.injEq] at hb1; subst hb1
  rw [hcov] at hb3
  apply hv
  -- a 4-byte string is determined by its big-endian value
  match v', hl with
  | [a, b, c, d], _ =>
    have h4 : put32 (be32 [a, b, c, d]) = [a, b, c, d] := by
      have ha := a.toNat_lt; have hb := b.toNat_lt; have hc := c.toNat_lt; have hd := d.toNat_lt
      simp only [be32, u32, put32, List.cons.injEq, and_true]
      refine ⟨?_, ?_, ?_, ?_⟩ <;> (apply UInt8.toNat_inj.mp; simp [UInt8.toNat_ofNat'] <;> omega)
    rw [← h4, hb3]

end Stun.C05
