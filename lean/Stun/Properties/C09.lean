/-
  C09 — setters reject unrepresentable values and fail atomically.
-/
import Stun.Proofs.Canonical
namespace Stun.C09
open Stun Stun.Msg Stun.BuildProofs

/-- text setters accept exactly the values within their attribute's limit (513 / 763 / 763 / 763 bytes) -/
theorem text_accept_iff (k : TextKind) (v : Bytes) (m : Msg) :
    (textAddToAs m k.attr v k.limit).2 = none ↔ v.length ≤ k.limit := by
  unfold textAddToAs checkOverflow
  by_cases h : v.length ≤ k.limit <;> simp [h]

theorem text_reject_kind (k : TextKind) (v : Bytes) (m : Msg) (h : k.limit < v.length) :
    textAddToAs m k.attr v k.limit = (m, some .overflow) := by
  unfold textAddToAs checkOverflow
  have : ¬ v.length ≤ k.limit := by omega
  simp [this]

/-- address setters accept exactly 4- and 16-byte IPs -/
theorem ip_accept_iff (m : Msg) (attr : Nat) (ip : Bytes) (port : Nat) :
    ((xorAddToAs m attr ip port).2 = none ↔ (ip.length = 4 ∨ ip.length = 16)) ∧
    ((mappedAddToAs m attr ip port).2 = none ↔ (ip.length = 4 ∨ ip.length = 16)) := by
  unfold xorAddToAs mappedAddToAs addrFamily
  by_cases h16 : ip.length = 16
  · by_cases hv4 : isIPv4 ip = true <;> simp [h16, hv4]
  · by_cases h4 : ip.length = 4 <;> simp [h16, h4]

/-- ERROR-CODE with an explicit reason: accepted iff the reason is at most 763 bytes -/
theorem errorCode_reason_iff (m : Msg) (code : Nat) (reason : Bytes) :
    (errorCodeAddTo m code reason).2 = none ↔ reason.length ≤ errorCodeReasonMaxB := by
  unfold errorCodeAddTo checkOverflow
  by_cases h : reason.length ≤ errorCodeReasonMaxB
  · have : reason.length + errorCodeReasonStart ≤ errorCodeReasonMaxB + errorCodeReasonStart := by omega
    simp [h, this]
  · have : ¬ reason.length + errorCodeReasonStart ≤ errorCodeReasonMaxB + errorCodeReasonStart := by omega
    simp [h, this]

/-- ERROR-CODE with the default reason: accepted iff the code has a default reason -/
theorem errorCodeDefault_accept_iff (m : Msg) (code : Nat) :
    (errorCodeDefaultAddTo m code).2 = none ↔ (errorReasons.lookup code).isSome = true := by
  unfold errorCodeDefaultAddTo
  cases h : errorReasons.lookup code with
  | none => simp
  | some r =>
    simp only [Option.isSome_some, iff_true]
    -- every default reason is short
    have hall : ∀ p ∈ errorReasons, p.2.length ≤ errorCodeReasonMaxB := by decide
    have hmem : (code, r) ∈ errorReasons := by
      have : ∀ (l : List (Nat × Bytes)), l.lookup code = some r → (code, r) ∈ l := by
        intro l
        induction l with
        | nil => simp
        | cons x t ih =>
          obtain ⟨a, b⟩ := x
          simp only [List.lookup_cons]
          by_cases hab : code == a
          · simp only [hab]; intro hh; simp at hh hab; subst hh; subst hab; exact List.mem_cons_self
          · simp only [hab]; intro hh; exact List.mem_cons_of_mem _ (ih hh)
      exact this _ h
    exact (errorCode_reason_iff m code r).mpr (hall _ hmem)

/-- MESSAGE-INTEGRITY is refused once FINGERPRINT is present, and the message is untouched -/
theorem integrity_after_fp_refused (mac : Bytes → Bytes → Bytes) (key : Bytes) (m : Msg)
    (h : m.attrs.any (fun a => a.typ == attrFingerprint) = true) :
    integrityAddTo mac key m = (m, some .fpBeforeIntegrity) := by
  unfold integrityAddTo; simp [h]

theorem integrity_accepted_without_fp (mac : Bytes → Bytes → Bytes) (key : Bytes) (m : Msg)
    (h : m.attrs.any (fun a => a.typ == attrFingerprint) = false) :
    (integrityAddTo mac key m).2 = none := by
  unfold integrityAddTo; simp [h]

/-- when any setter returns an error, the message — raw bytes, spare capacity, length, attribute list — is exactly
    as before the call -/
theorem setter_fail_atomic (mac : Bytes → Bytes → Bytes) (s : Setter) (m : Msg) (e : SetErr)
    (h : (s.addTo mac m).2 = some e) : (s.addTo mac m).1 = m :=
  BuildProofs.setter_fail_atomic mac s m e h

/-- `Build` stops at and returns the first failing setter's error; the message is the result of exactly the setters
    before it -/
theorem build_first_error (mac : Bytes → Bytes → Bytes) (ss : List Setter) (m : Msg) (e : SetErr)
    (h : (build mac m ss).2 = some e) :
    ∃ pre s post, ss = pre ++ s :: post ∧ (build mac m pre).2 = none ∧
      (s.addTo mac (build mac m pre).1).2 = some e ∧ (build mac m ss).1 = (build mac m pre).1 :=
  BuildProofs.build_first_error mac ss _ e h

/-- release and debug `CheckOverflow` agree on error-ness: both are `got ≤ max` -/
theorem checkOverflow_iff (got maxVal : Nat) : checkOverflow got maxVal = true ↔ got ≤ maxVal := by
  simp [checkOverflow]

-- non-vacuity: a 514-byte USERNAME is rejected, a 513-byte one accepted
example : ¬ ((List.replicate 514 (0 : UInt8)).length ≤ TextKind.username.limit) ∧
    (List.replicate 513 (0 : UInt8)).length ≤ TextKind.username.limit := by
  simp only [List.length_replicate, TextKind.limit, maxUsernameB]; omega

end Stun.C09
