/-
  C17 (positive half): String then ParseURI is the identity on every URI whose host ParseURI can produce, except
  the one host shape of known finding F8. The negative half (F8) is in Stun/Properties/C17.lean.
-/
import Stun.Proofs.URIRoundTrip
import Stun.Properties.C17
namespace Stun.C17
open Stun Stun.URI

/-- a byte that can occur in the host of an accepted URI: not '#', not a control byte (url.Parse rejects those or cuts
    there), not '?' (the query starts there), not a bracket (net.SplitHostPort rejects those inside a host) -/
def HostChar (b : UInt8) : Prop := Plain b ∧ b ≠ chr '?' ∧ b ≠ chr '[' ∧ b ≠ chr ']'
instance : DecidablePred HostChar := fun b => by unfold HostChar; infer_instance

/-- the hypotheses of the round trip: what `accepted_wellformed` guarantees of a parsed URI (non-empty host, port in
    range, the transport the scheme implies when the scheme carries no transport parameter), host bytes that can
    occur in an accepted host, and NOT the shape of known finding F8 (a host without ':' that begins with '/') -/
structure RoundTripURI (u : URI.URI) : Prop where
  host_ne : u.host ≠ []
  host_ok : ∀ b ∈ u.host, HostChar b
  not_f8 : chr ':' ∉ u.host → u.host.head? ≠ some (chr '/')
  port_lo : 0 ≤ u.port
  port_hi : u.port ≤ 65535
  stun_udp : u.scheme = .stun → u.proto = .udp
  stuns_tcp : u.scheme = .stuns → u.proto = .tcp

/-- the common part: once `JoinHostPort host port` is known to be a string `opq` that url.Parse keeps as the opaque
    part and that `SplitHostPort` splits back, the URI comes back -/
theorem roundtrip_core (sch : Scheme) (host : Str) (port : Int) (proto : Proto) (opq : Str)
    (hjoin : joinHostPort host (itoa port) = opq)
    (hopq : ∀ b ∈ opq, Plain b ∧ b ≠ chr '?') (hopqne : opq ≠ []) (hhead : opq.head? ≠ some (chr '/'))
    (hsplit : splitHostPort opq = .ok (host, itoa port))
    (hne : host ≠ []) (hlo : 0 ≤ port) (hhi : port ≤ 65535)
    (hs1 : sch = .stun → proto = .udp) (hs2 : sch = .stuns → proto = .tcp) :
    parseURI true (URI.toStr ⟨sch, host, port, proto⟩) = .ok ⟨sch, host, port, proto⟩ := by
  have hatoi := atoi_itoa port hlo hhi
  have hhost : (host == []) = false := by cases host <;> simp_all
  have hrange : ¬ (port < 0 ∨ port > 65535) := by omega
  have hlitq : lit "?transport=" = chr '?' :: lit "transport=" := by decide
  have hpq : parseQuery [] = ([], false) := by decide
  cases sch with
  | stun =>
    have hp : proto = .udp := hs1 rfl
    subst hp
    have hraw : (⟨.stun, host, port, .udp⟩ : URI.URI).toStr =
        Scheme.stun.str ++ chr ':' :: (opq ++ (if false then chr '?' :: [] else [])) := by
      simp [URI.toStr, hjoin]
    rw [hraw, parseURI, urlParse_rootless .stun _ [] false hopq hopqne hhead (by simp) (by simp) (by simp)]
    simp only [newSchemeType_str, hsplit, hhost, Bool.false_eq_true, if_false, hatoi, hrange, hpq]
    simp
  | stuns =>
    have hp : proto = .tcp := hs2 rfl
    subst hp
    have hraw : (⟨.stuns, host, port, .tcp⟩ : URI.URI).toStr =
        Scheme.stuns.str ++ chr ':' :: (opq ++ (if false then chr '?' :: [] else [])) := by
      simp [URI.toStr, hjoin]
    rw [hraw, parseURI, urlParse_rootless .stuns _ [] false hopq hopqne hhead (by simp) (by simp) (by simp)]
    simp only [newSchemeType_str, hsplit, hhost, Bool.false_eq_true, if_false, hatoi, hrange, hpq]
    simp
  | turn =>
    have hraw : (⟨.turn, host, port, proto⟩ : URI.URI).toStr =
        Scheme.turn.str ++ chr ':' :: (opq ++ (if true then chr '?' :: (lit "transport=" ++ proto.str) else [])) := by
      simp [URI.toStr, hjoin, hlitq]
    rw [hraw, parseURI, urlParse_rootless .turn _ (lit "transport=" ++ proto.str) true hopq hopqne hhead
      (query_clean proto) (by intro _; cases proto <;> decide) (by simp)]
    simp only [newSchemeType_str, hsplit, hhost, Bool.false_eq_true, if_false, hatoi, hrange, parseProto_transport]
    simp
  | turns =>
    have hraw : (⟨.turns, host, port, proto⟩ : URI.URI).toStr =
        Scheme.turns.str ++ chr ':' :: (opq ++ (if true then chr '?' :: (lit "transport=" ++ proto.str) else [])) := by
      simp [URI.toStr, hjoin, hlitq]
    rw [hraw, parseURI, urlParse_rootless .turns _ (lit "transport=" ++ proto.str) true hopq hopqne hhead
      (query_clean proto) (by intro _; cases proto <;> decide) (by simp)]
    simp only [newSchemeType_str, hsplit, hhost, Bool.false_eq_true, if_false, hatoi, hrange, parseProto_transport]
    simp

/-- **C17, round trip.** Formatting a URI and parsing the result yields the same URI - scheme, host, port and
    transport all come back - for every host over the bytes an accepted host can contain (registered names, IPv4
    and IPv6 literals, zones, percent signs, ...), every port 0..65535, all four schemes and both transports, with the
    single exception of the F8 shape (a host without ':' that begins with '/'), for which the statement is false
    (`roundtrip_fails_on_slash_host`). Hosts with a ':' take the bracketed form. -/
theorem roundtrip (u : URI.URI) (h : RoundTripURI u) : parseURI true u.toStr = .ok u := by
  obtain ⟨sch, host, port, proto⟩ := u
  obtain ⟨hne, hok, hf8, hlo, hhi, hs1, hs2⟩ := h
  simp only at hne hok hf8 hlo hhi hs1 hs2
  have hnn : itoa port = itoaNat port.natAbs := by simp [itoa]; omega
  obtain ⟨d1, _, d3, _⟩ := itoaNat_spec port.natAbs
  have hdig : ∀ b ∈ itoa port, isDigit b = true := by
    rw [hnn]; intro b hb; exact List.all_eq_true.mp d1 b hb
  have hdp : ∀ b ∈ itoa port, Plain b ∧ b ≠ chr '?' := by
    intro b hb; have := digit_props b (hdig b hb); exact ⟨⟨this.1, this.2.2.2.2.2.2⟩, this.2.1⟩
  have hdc : ∀ b ∈ itoa port, b ≠ chr ':' ∧ b ≠ chr '[' ∧ b ≠ chr ']' := by
    intro b hb; have := digit_props b (hdig b hb); exact ⟨this.2.2.2.1, this.2.2.2.2.1, this.2.2.2.2.2.1⟩
  by_cases hc : chr ':' ∈ host
  · -- bracketed form
    have hjoin : joinHostPort host (itoa port) = chr '[' :: (host ++ chr ']' :: chr ':' :: itoa port) := by
      simp [joinHostPort, hc]
    apply roundtrip_core sch host port proto _ hjoin _ (by simp) (by simp; decide) _ hne hlo hhi hs1 hs2
    · intro b hb
      simp only [List.mem_append, List.mem_cons] at hb
      rcases hb with hb | hb | hb | hb | hb
      · subst hb; exact ⟨⟨by decide, by decide⟩, by decide⟩
      · exact ⟨(hok b hb).1, (hok b hb).2.1⟩
      · subst hb; exact ⟨⟨by decide, by decide⟩, by decide⟩
      · subst hb; exact ⟨⟨by decide, by decide⟩, by decide⟩
      · exact hdp b hb
    · exact splitHostPort_join_bracket host (itoa port) (fun b hb => ⟨(hok b hb).2.2.1, (hok b hb).2.2.2⟩) hdc
  · -- plain form
    have hjoin : joinHostPort host (itoa port) = host ++ chr ':' :: itoa port := by
      simp [joinHostPort, hc]
    apply roundtrip_core sch host port proto _ hjoin _ (by simp) _ _ hne hlo hhi hs1 hs2
    · intro b hb
      simp only [List.mem_append, List.mem_cons] at hb
      rcases hb with hb | hb | hb
      · exact ⟨(hok b hb).1, (hok b hb).2.1⟩
      · subst hb; exact ⟨⟨by decide, by decide⟩, by decide⟩
      · exact hdp b hb
    · cases host with
      | nil => exact absurd rfl hne
      | cons c r => simpa using hf8 hc
    · apply splitHostPort_join host (itoa port) _ hdc
      intro b hb
      exact ⟨fun e => hc (e ▸ hb), (hok b hb).2.2.1, (hok b hb).2.2.2⟩

/-! ### corollary: registered-name / IPv4 hosts -/

/-- URIs with a registered-name / IPv4 host: a non-empty host of letters, digits, '.', '-' and '_' -/
structure RegNameURI (u : URI.URI) : Prop where
  host_ne : u.host ≠ []
  host_ok : ∀ b ∈ u.host, isRegChar b = true
  port_lo : 0 ≤ u.port
  port_hi : u.port ≤ 65535
  stun_udp : u.scheme = .stun → u.proto = .udp
  stuns_tcp : u.scheme = .stuns → u.proto = .tcp

theorem roundtrip_regname (u : URI.URI) (h : RegNameURI u) : parseURI true u.toStr = .ok u := by
  apply roundtrip u
  refine ⟨h.host_ne, ?_, ?_, h.port_lo, h.port_hi, h.stun_udp, h.stuns_tcp⟩
  · intro b hb
    have := regChar_props b (h.host_ok b hb)
    exact ⟨⟨this.1, this.2.2.2.2.2.2⟩, this.2.1, this.2.2.2.2.1, this.2.2.2.2.2.1⟩
  · intro _
    cases hh : u.host with
    | nil => exact absurd hh h.host_ne
    | cons c r =>
      have := (regChar_props c (h.host_ok c (by rw [hh]; exact List.mem_cons_self))).2.2.1
      simpa using this

/-! ### non-vacuity: concrete URIs meet the hypotheses -/

example : RegNameURI ⟨.turns, lit "turn.example.org", 5349, .udp⟩ :=
  ⟨by decide, by decide, by decide, by decide, (fun h => nomatch h), (fun h => nomatch h)⟩

/-- an IPv6 literal with a zone: bracketed form -/
example : RoundTripURI ⟨.stun, lit "fe80::1%eth0", 3478, .udp⟩ :=
  ⟨by decide, by decide, by decide, by decide, by decide, (fun _ => rfl), (fun h => nomatch h)⟩

/-- a host that begins with '/' but contains ':' is NOT the F8 shape: it round-trips (bracketed) -/
example : RoundTripURI ⟨.turn, lit "/a:b", 1, .tcp⟩ :=
  ⟨by decide, by decide, by decide, by decide, by decide, (fun h => nomatch h), (fun h => nomatch h)⟩

/-! ### every accepted URI: the full statement minus F8 -/

/-- an accepted URI's host is what `SplitHostPort` made of the opaque part `url.Parse` found in some string -/
def ViaSplit (u : URI.URI) : Prop :=
  ∃ raw scheme opq q p, urlParse raw = .rootless scheme opq q ∧ splitHostPort opq = .ok (u.host, p)

theorem accepted_via_aux (raw : Str) (u : URI.URI) (h : parseURI false raw = .ok u) : ViaSplit u := by
  rw [parseURI] at h
  cases hu : urlParse raw with
  | error => simp [hu] at h
  | other s => simp only [hu] at h; cases hn : newSchemeType s <;> simp [hn] at h
  | rootless scheme opq q =>
    simp only [hu] at h
    cases hs : newSchemeType scheme with
    | none => simp [hs] at h
    | some sch =>
      simp only [hs] at h
      cases hsp : splitHostPort opq with
      | error e => cases e <;> simp [hsp] at h
      | ok hp =>
        obtain ⟨host, rawPort⟩ := hp
        simp only [hsp] at h
        by_cases hh : host == []
        · simp [hh] at h
        · simp only [hh, Bool.false_eq_true, if_false] at h
          cases ha : atoi rawPort with
          | none => simp [ha] at h
          | some port =>
            simp only [ha] at h
            by_cases hr : port < 0 ∨ port > 65535
            · simp [hr] at h
            · simp only [hr, if_false] at h
              cases sch with
              | stun =>
                simp only at h
                split at h
                · simp at h
                · simp only [Except.ok.injEq] at h; subst h
                  exact ⟨raw, scheme, opq, q, rawPort, hu, hsp⟩
              | stuns =>
                simp only at h
                split at h
                · simp at h
                · simp only [Except.ok.injEq] at h; subst h
                  exact ⟨raw, scheme, opq, q, rawPort, hu, hsp⟩
              | turn =>
                simp only at h
                cases hp : parseProto q with
                | error e => simp [hp] at h
                | ok p =>
                  simp only [hp, Except.ok.injEq] at h; subst h
                  exact ⟨raw, scheme, opq, q, rawPort, hu, hsp⟩
              | turns =>
                simp only at h
                cases hp : parseProto q with
                | error e => simp [hp] at h
                | ok p =>
                  simp only [hp, Except.ok.injEq] at h; subst h
                  exact ⟨raw, scheme, opq, q, rawPort, hu, hsp⟩

theorem accepted_via (raw : Str) (u : URI.URI) (h : parseURI true raw = .ok u) : ViaSplit u := by
  rw [parseURI] at h
  cases hu : urlParse raw with
  | error => simp [hu] at h
  | other s => simp only [hu] at h; cases hn : newSchemeType s <;> simp [hn] at h
  | rootless scheme opq q =>
    simp only [hu] at h
    cases hs : newSchemeType scheme with
    | none => simp [hs] at h
    | some sch =>
      simp only [hs] at h
      cases hsp : splitHostPort opq with
      | error e =>
        cases e with
        | missingPort =>
          simp only [hsp, if_true] at h
          exact accepted_via_aux _ u h
        | tooManyColons | missingBracket | unexpectedOpen | unexpectedClose => simp [hsp] at h
      | ok hp =>
        have : parseURI false raw = .ok u := by
          rw [parseURI]; simp only [hu, hs, hsp]; simpa [hsp] using h
        exact accepted_via_aux raw u this

/-- every byte of an accepted URI's host is a `HostChar` -/
theorem accepted_host_chars (raw : Str) (u : URI.URI) (h : parseURI true raw = .ok u) : ∀ b ∈ u.host, HostChar b := by
  obtain ⟨raw', scheme, opq, q, p, hu, hsp⟩ := accepted_via raw u h
  have hopq := urlParse_opq_chars raw' scheme opq q hu
  obtain ⟨hsub, hbr⟩ := splitHostPort_host opq u.host p hsp
  intro b hb
  exact ⟨(hopq b (hsub b hb)).1, (hopq b (hsub b hb)).2, (hbr b hb).1, (hbr b hb).2⟩

/-- **C17, round trip, full statement minus F8.** For every string `ParseURI` accepts, formatting the result and
    parsing it again yields the same URI, unless the host has the F8 shape (no ':' and a leading '/'), which can only
    come from a bracketed input such as `stun:[/a]` and for which the statement is false. -/
theorem roundtrip_accepted (raw : Str) (u : URI.URI) (h : parseURI true raw = .ok u)
    (hf8 : chr ':' ∉ u.host → u.host.head? ≠ some (chr '/')) : parseURI true u.toStr = .ok u := by
  have wf := accepted_wellformed raw u h
  exact roundtrip u ⟨wf.host, accepted_host_chars raw u h, hf8, wf.portLo, wf.portHi, wf.stunUdp, wf.stunsTcp⟩

/-- the F8 exclusion is exactly the recorded finding: the refuted URI violates it -/
example : ¬ (chr ':' ∉ (lit "/a") → (lit "/a").head? ≠ some (chr '/')) := by decide

/-- idempotence: a URI that has been through String/ParseURI once is a fixed point -/
theorem roundtrip_idempotent (raw : Str) (u : URI.URI) (h : parseURI true raw = .ok u)
    (hf8 : chr ':' ∉ u.host → u.host.head? ≠ some (chr '/')) :
    ∀ v, parseURI true u.toStr = .ok v → v.toStr = u.toStr := by
  intro v hv
  rw [roundtrip_accepted raw u h hf8] at hv
  cases hv; rfl

end Stun.C17
