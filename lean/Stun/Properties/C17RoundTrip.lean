/-
  C17 (positive half): String then ParseURI is the identity on URIs with a registered-name / IPv4-literal host.
  The negative half (known finding F8) is in Stun/Properties/C17.lean.
-/
import Stun.Proofs.URIRoundTrip
namespace Stun.C17
open Stun Stun.URI


/-! ### the round trip for registered-name hosts -/

/-- URIs as `ParseURI` produces them for registered-name / IPv4 hosts: a non-empty host of letters, digits, '.', '-'
    and '_', a port in range, and the transport the scheme implies when the scheme has no transport parameter -/
structure RegNameURI (u : URI.URI) : Prop where
  host_ne : u.host ≠ []
  host_ok : ∀ b ∈ u.host, isRegChar b = true
  port_lo : 0 ≤ u.port
  port_hi : u.port ≤ 65535
  stun_udp : u.scheme = .stun → u.proto = .udp
  stuns_tcp : u.scheme = .stuns → u.proto = .tcp

/-- formatting a URI with a registered-name host and parsing the result yields the same URI: scheme, host, port and
    transport all come back (for every host over the registered-name alphabet, every port, all four schemes, both
    transports). The bracketed-host cases are decided by the correspondence predicate; the one host class that does
    NOT round-trip is known finding F8 (`roundtrip_fails_on_slash_host`). -/
theorem roundtrip_regname (u : URI.URI) (h : RegNameURI u) : parseURI true u.toStr = .ok u := by
  obtain ⟨sch, host, port, proto⟩ := u
  obtain ⟨hne, hok, hlo, hhi, hs1, hs2⟩ := h
  simp only at hne hok hlo hhi hs1 hs2
  have hnn : itoa port = itoaNat port.natAbs := by simp [itoa]; omega
  obtain ⟨d1, _, d3, d4⟩ := itoaNat_spec port.natAbs
  have hdig : ∀ b ∈ itoa port, isDigit b = true := by
    rw [hnn]; intro b hb; exact List.all_eq_true.mp d1 b hb
  -- shapes
  have hnocolon : host.contains (chr ':') = false :=
    contains_false_of_not_mem _ _ (fun hm => (regChar_props _ (hok _ hm)).2.2.2.1 rfl)
  have hnomem : chr ':' ∉ host := fun hm => (regChar_props _ (hok _ hm)).2.2.2.1 rfl
  have hopq : ∀ b ∈ host ++ chr ':' :: itoa port, Plain b ∧ b ≠ chr '?' := by
    intro b hb
    simp only [List.mem_append, List.mem_cons] at hb
    rcases hb with hb | hb | hb
    · have := regChar_props b (hok b hb); exact ⟨⟨this.1, this.2.2.2.2.2.2⟩, this.2.1⟩
    · subst hb; exact ⟨⟨by decide, by decide⟩, by decide⟩
    · have := digit_props b (hdig b hb); exact ⟨⟨this.1, this.2.2.2.2.2.2⟩, this.2.1⟩
  have hhead : (host ++ chr ':' :: itoa port).head? ≠ some (chr '/') := by
    cases host with
    | nil => exact absurd rfl hne
    | cons c r =>
      have := (regChar_props c (hok c List.mem_cons_self)).2.2.1
      simpa using this
  have hsplit : splitHostPort (host ++ chr ':' :: itoa port) = .ok (host, itoa port) := by
    apply splitHostPort_join
    · intro b hb; have := regChar_props b (hok b hb); exact ⟨this.2.2.2.1, this.2.2.2.2.1, this.2.2.2.2.2.1⟩
    · intro b hb; have := digit_props b (hdig b hb); exact ⟨this.2.2.2.1, this.2.2.2.2.1, this.2.2.2.2.2.1⟩
  have hatoi := atoi_itoa port hlo hhi
  have hhost : (host == []) = false := by cases host <;> simp_all
  have hrange : ¬ (port < 0 ∨ port > 65535) := by omega
  have hlitq : lit "?transport=" = chr '?' :: lit "transport=" := by decide
  have hpq : parseQuery [] = ([], false) := by decide
  cases sch with
  | stun =>
    have hp : proto = .udp := hs1 rfl
    subst hp
    have hraw : (⟨.stun, host, port, .udp⟩ : URI.URI).toStr =
        Scheme.stun.str ++ chr ':' :: ((host ++ chr ':' :: itoa port) ++ (if false then chr '?' :: [] else [])) := by
      simp [URI.toStr, joinHostPort, hnomem]
    rw [hraw, parseURI, urlParse_rootless .stun _ [] false hopq (by simp) hhead (by simp) (by simp) (by simp)]
    simp only [newSchemeType_str, hsplit, hhost, Bool.false_eq_true, if_false, hatoi, hrange, hpq]
    simp
  | stuns =>
    have hp : proto = .tcp := hs2 rfl
    subst hp
    have hraw : (⟨.stuns, host, port, .tcp⟩ : URI.URI).toStr =
        Scheme.stuns.str ++ chr ':' :: ((host ++ chr ':' :: itoa port) ++ (if false then chr '?' :: [] else [])) := by
      simp [URI.toStr, joinHostPort, hnomem]
    rw [hraw, parseURI, urlParse_rootless .stuns _ [] false hopq (by simp) hhead (by simp) (by simp) (by simp)]
    simp only [newSchemeType_str, hsplit, hhost, Bool.false_eq_true, if_false, hatoi, hrange, hpq]
    simp
  | turn =>
    have hraw : (⟨.turn, host, port, proto⟩ : URI.URI).toStr =
        Scheme.turn.str ++ chr ':' :: ((host ++ chr ':' :: itoa port) ++
          (if true then chr '?' :: (lit "transport=" ++ proto.str) else [])) := by
      simp [URI.toStr, joinHostPort, hnomem, hlitq]
    rw [hraw, parseURI, urlParse_rootless .turn _ (lit "transport=" ++ proto.str) true hopq (by simp) hhead
      (query_clean proto) (by intro _; cases proto <;> decide) (by simp)]
    simp only [newSchemeType_str, hsplit, hhost, Bool.false_eq_true, if_false, hatoi, hrange, parseProto_transport]
    simp
  | turns =>
    have hraw : (⟨.turns, host, port, proto⟩ : URI.URI).toStr =
        Scheme.turns.str ++ chr ':' :: ((host ++ chr ':' :: itoa port) ++
          (if true then chr '?' :: (lit "transport=" ++ proto.str) else [])) := by
      simp [URI.toStr, joinHostPort, hnomem, hlitq]
    rw [hraw, parseURI, urlParse_rootless .turns _ (lit "transport=" ++ proto.str) true hopq (by simp) hhead
      (query_clean proto) (by intro _; cases proto <;> decide) (by simp)]
    simp only [newSchemeType_str, hsplit, hhost, Bool.false_eq_true, if_false, hatoi, hrange, parseProto_transport]
    simp

/-- non-vacuity: a concrete URI meets the hypotheses -/
example : RegNameURI ⟨.turns, lit "turn.example.org", 5349, .udp⟩ :=
  ⟨by decide, by decide, by decide, by decide, (fun h => nomatch h), (fun h => nomatch h)⟩

end Stun.C17
