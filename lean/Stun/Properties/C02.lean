/-
  C02 — the decoder accepts exactly RFC 5389 framing and reports its TLV list; Get / Contains / ForEach.
-/
import Stun.Proofs.DecodeMsg
namespace Stun.C02
open Stun Stun.Spec Stun.DecodeProofs

/-- `Decode` succeeds exactly when the RFC parse of the visible bytes exists (any capacity). -/
theorem decode_ok_iff (mem : Bytes) (len : Nat) (hcap : len ≤ mem.length) :
    (decodeRaw mem len).2 = .ok () ↔ (rfcParse (mem.take len)).isSome = true := by
  have key := decodeRaw_char mem len hcap
  cases hp : rfcParse (mem.take len) with
  | none => rw [hp] at key; obtain ⟨d, e, hk⟩ := key; rw [hk]; simp
  | some p => rw [hp] at key; rw [key]; simp

/-- On success every field `Decode` stores is the one the independent RFC parse reports: method, class, length,
    transaction ID and the ordered list of (type, length, value window). -/
theorem decode_eq_rfcParse (mem : Bytes) (len : Nat) (hcap : len ≤ mem.length) (p : Parsed)
    (hp : rfcParse (mem.take len) = some p) :
    decodeRaw mem len = (some ⟨⟨p.method, p.cls, p.length, p.tid⟩, p.attrs.map viewOf⟩, .ok ()) := by
  have key := decodeRaw_char mem len hcap
  rw [hp] at key; exact key

/-- the same at the level of the Message struct, with attribute *values*: whatever the struct held before -/
theorem msg_decode_eq_rfcParse (m : Msg) (hcap : m.len ≤ m.mem.length) (p : Parsed)
    (hp : rfcParse m.raw = some p) :
    m.decode = ({ m with method := p.method, cls := p.cls, length := p.length, tid := p.tid,
                          attrs := p.attrs.map attrOfSpec }, .ok ()) := by
  have key := decode_char m hcap
  rw [hp] at key; exact key

/-- The "if and only if" of the property, with the RFC grammar in generating form: a byte string is accepted iff it
    has 20 header bytes with the magic cookie, holds at least the declared body, and that body is *exactly* a
    sequence of TLVs each followed by `pad4` bytes of arbitrary padding. -/
theorem accepts_iff (bs : Bytes) :
    (rfcParse bs).isSome = true ↔
      20 ≤ bs.length ∧ be32 (bs.drop 4) = cookie ∧ 20 + be16 (bs.drop 2) ≤ bs.length ∧
      ∃ xs, PadsOK xs ∧ (bs.drop 20).take (be16 (bs.drop 2)) = serialize xs := by
  constructor
  · intro h
    cases hp : rfcParse bs with
    | none => rw [hp] at h; simp at h
    | some p =>
      obtain ⟨h20, hc, hl, hsz, ht, _⟩ := rfcParse_some hp
      obtain ⟨xs, hok, hser, _⟩ := tlvs_sound _ _ _ _ rfl ht
      rw [hl] at hsz hser
      exact ⟨h20, hc, hsz, xs, hok, hser⟩
  · rintro ⟨h20, hc, hsz, xs, hok, hser⟩
    unfold rfcParse
    have h1 : ¬ bs.length < 20 := by omega
    have h3 : ¬ bs.length < 20 + be16 (bs.drop 2) := by omega
    simp only [h1, hc, h3, if_false, ne_eq, not_true_eq_false]
    rw [hser, tlvs_complete xs 20 hok]; rfl

/-- soundness with the reported content: an accepted message *is* header ++ TLVs ++ ignored trailing bytes, and
    the reported attributes are those TLVs (type through the 0x8020 alias, declared length, value bytes, offset) -/
theorem rfcParse_sound (bs : Bytes) (p : Parsed) (hp : rfcParse bs = some p) :
    ∃ xs, PadsOK xs ∧ bs = bs.take 20 ++ serialize xs ++ bs.drop (20 + p.length) ∧
      (serialize xs).length = p.length ∧ p.attrs = attrsOf 20 xs ∧
      p.method = fig3Method (be16 bs) ∧ p.cls = fig3Class (be16 bs) ∧ p.tid = (bs.drop 8).take 12 := by
  obtain ⟨h20, _, _, hsz, ht, hm, hcl, htid⟩ := rfcParse_some hp
  obtain ⟨xs, hok, hser, has⟩ := tlvs_sound _ _ _ _ rfl ht
  refine ⟨xs, hok, ?_, ?_, has, hm, hcl, htid⟩
  · rw [← hser]
    have : bs.drop (20 + p.length) = (bs.drop 20).drop p.length := by rw [List.drop_drop]
    rw [this, List.append_assoc, List.take_append_drop, List.take_append_drop]
  · rw [← hser]; simp; omega

/-- completeness: any header with the cookie and the right length field, followed by any padded TLV sequence and
    any trailing bytes, is accepted, and the attributes reported are exactly those TLVs in order -/
theorem rfcParse_complete (hdr trailing : Bytes) (xs : List (Nat × Bytes × Bytes))
    (hh : hdr.length = 20) (hc : be32 (hdr.drop 4) = cookie) (hl : be16 (hdr.drop 2) = (serialize xs).length)
    (hok : PadsOK xs) :
    rfcParse (hdr ++ serialize xs ++ trailing)
      = some ⟨fig3Method (be16 hdr), fig3Class (be16 hdr), (serialize xs).length, (hdr.drop 8).take 12,
              attrsOf 20 xs⟩ := by
  have e4 : (hdr ++ serialize xs ++ trailing).drop 4 = hdr.drop 4 ++ (serialize xs ++ trailing) := by
    rw [List.append_assoc, List.drop_append_of_le_length (by omega)]
  have e2 : (hdr ++ serialize xs ++ trailing).drop 2 = hdr.drop 2 ++ (serialize xs ++ trailing) := by
    rw [List.append_assoc, List.drop_append_of_le_length (by omega)]
  have e8 : (hdr ++ serialize xs ++ trailing).drop 8 = hdr.drop 8 ++ (serialize xs ++ trailing) := by
    rw [List.append_assoc, List.drop_append_of_le_length (by omega)]
  have b32 : ∀ (l t : Bytes), 4 ≤ l.length → be32 (l ++ t) = be32 l := by
    intro l t h
    match l, h with
    | a :: b :: c :: d :: r, _ => rfl
  have b16 : ∀ (l t : Bytes), 2 ≤ l.length → be16 (l ++ t) = be16 l := by
    intro l t h
    match l, h with
    | a :: b :: r, _ => rfl
  unfold rfcParse
  have hlen : (hdr ++ serialize xs ++ trailing).length = 20 + (serialize xs).length + trailing.length := by
    simp [hh]; omega
  rw [e4, e2, b32 _ _ (by simp; omega), b16 _ _ (by simp; omega), hc, hl]
  have h1 : ¬ (hdr ++ serialize xs ++ trailing).length < 20 := by omega
  have h3 : ¬ (hdr ++ serialize xs ++ trailing).length < 20 + (serialize xs).length := by omega
  simp only [h1, h3, if_false, ne_eq, not_true_eq_false]
  have hbody : ((hdr ++ serialize xs ++ trailing).drop 20).take (serialize xs).length = serialize xs := by
    rw [List.append_assoc, ← hh, List.drop_left, List.take_left]
  rw [hbody, tlvs_complete xs 20 hok]
  simp only [Option.some.injEq, Parsed.mk.injEq, and_true, true_and]
  refine ⟨?_, ?_, ?_⟩
  · rw [List.append_assoc, b16 _ _ (by omega)]
  · rw [List.append_assoc, b16 _ _ (by omega)]
  · rw [e8, List.take_append_of_le_length (by simp; omega)]

/-! ### Get / Contains / ForEach -/

/-- `Get` returns the value of the *first* attribute of the type -/
theorem get_first (m : Msg) (t : Nat) (v : Bytes) :
    m.get t = some v ↔ ∃ pre a post, m.attrs = pre ++ a :: post ∧ a.typ = t ∧ a.val = v ∧ ∀ b ∈ pre, b.typ ≠ t := by
  unfold Msg.get
  constructor
  · intro h
    cases hf : m.attrs.find? (fun a => a.typ == t) with
    | none => rw [hf] at h; simp at h
    | some a =>
      rw [hf] at h; simp at h
      obtain ⟨hp, pre, post, hsplit, hpre⟩ := List.find?_eq_some_iff_append.mp hf
      refine ⟨pre, a, post, hsplit, by simpa using hp, h, ?_⟩
      intro b hb; have := hpre b hb; simpa using this
  · rintro ⟨pre, a, post, hsplit, ht, hv, hpre⟩
    have : m.attrs.find? (fun a => a.typ == t) = some a := by
      apply List.find?_eq_some_iff_append.mpr
      refine ⟨by simpa using ht, pre, post, hsplit, ?_⟩
      intro b hb; have := hpre b hb; simpa using this
    rw [this]; simp [hv]

theorem get_none_iff (m : Msg) (t : Nat) : m.get t = none ↔ ∀ a ∈ m.attrs, a.typ ≠ t := by
  unfold Msg.get
  simp [List.find?_eq_none]

/-- `Contains` is membership of the type -/
theorem contains_iff_mem (m : Msg) (t : Nat) : m.contains t = true ↔ ∃ a ∈ m.attrs, a.typ = t := by
  unfold Msg.contains
  simp [List.any_eq_true]

/-- the suffixes of the attribute list that start at an attribute of type `t`, in order: what the callback is shown -/
def windows (t : Nat) : List RawAttr → List (List RawAttr)
  | [] => []
  | a :: r => (if a.typ = t then [a :: r] else []) ++ windows t r

/-- `ForEach` leaves `m.Attributes` exactly as it found it, for every callback: failing or not, and whatever the
    callback did to the message (including overwriting the attribute list). -/
theorem forEach_restores (m : Msg) (t : Nat) (f : Msg → Msg × Bool) : (m.forEach t f).1.attrs = m.attrs := by
  unfold Msg.forEach
  generalize m.attrs = orig
  suffices ∀ (l : List RawAttr) (m : Msg) (seen), (Msg.forEachAux orig t f l m seen).1.attrs = orig from this _ _ _
  intro l
  induction l with
  | nil => intro m seen; simp [Msg.forEachAux]
  | cons a r ih =>
    intro m seen
    simp only [Msg.forEachAux]
    split
    · exact ih _ _
    · split
      · rfl
      · exact ih _ _

/-- `ForEach` shows the callback the windows starting at each attribute of the type, in order, stopping after the
    first failing call -/
theorem forEach_visits (m : Msg) (t : Nat) (f : Msg → Msg × Bool) :
    ∃ k, (m.forEach t f).2.2 = (windows t m.attrs).take k ∧
      ((m.forEach t f).2.1 = false → (m.forEach t f).2.2 = windows t m.attrs) := by
  unfold Msg.forEach
  generalize m.attrs = orig
  suffices ∀ (l : List RawAttr) (m : Msg) (seen : List (List RawAttr)),
      ∃ k, (Msg.forEachAux orig t f l m seen).2.2 = seen ++ (windows t l).take k ∧
        ((Msg.forEachAux orig t f l m seen).2.1 = false →
          (Msg.forEachAux orig t f l m seen).2.2 = seen ++ windows t l) by
    simpa using this orig m []
  intro l
  induction l with
  | nil => intro m seen; exact ⟨0, by simp [Msg.forEachAux, windows], by simp [Msg.forEachAux, windows]⟩
  | cons a r ih =>
    intro m seen
    simp only [Msg.forEachAux, windows]
    by_cases ht : a.typ = t
    · simp only [ht, ne_eq, not_true_eq_false, if_false, if_true]
      rcases hfm : f { m with attrs := a :: r } with ⟨m', failed⟩
      cases failed with
      | true =>
        refine ⟨1, ?_, ?_⟩
        · simp
        · simp
      | false =>
        obtain ⟨k, hk, hk2⟩ := ih m' (seen ++ [a :: r])
        refine ⟨k + 1, ?_, ?_⟩
        · simpa [List.append_assoc] using hk
        · intro h; simpa [List.append_assoc] using hk2 (by simpa using h)
    · simp only [ht, ne_eq, not_false_eq_true, if_true, if_false, List.nil_append]
      exact ih m seen

-- non-vacuity: two padded TLVs satisfy `PadsOK`
example : PadsOK [(0x8022, [1, 2, 3], [0]), (0x0006, [], [])] := by simp [PadsOK, pad4]

end Stun.C02
