/-
  C08 — reusing a Message never leaks or corrupts data across uses.
  Non-interference over the explicit spare capacity: `Msg.mem` is the whole backing array, so two message objects
  with different `mem` beyond the visible part (different previous uses, different stale bytes, different capacity)
  are different values of the model; the theorems say that what is observable after a successful operation does
  not depend on that difference.
  Aliasing itself (does the library keep a reference to caller memory?) cannot be expressed in a value-semantic
  model; that half of the property is decided by the correspondence stream only (see DESIGN §4 C08).
-/
import Stun.Proofs.SameObs
import Stun.Properties.C01
namespace Stun.C08
open Stun Stun.Msg Stun.Spec Stun.BuildProofs Stun.DecodeProofs

/-- `Add` into two buffers that show the same visible bytes gives the same visible bytes, whatever lies in their
    spare capacity and whatever their capacities are (every byte `grow` exposes is overwritten) -/
theorem add_independent_of_spare (m1 m2 : Msg) (t : Nat) (v : Bytes)
    (hraw : m1.raw = m2.raw) (hlen : m1.length = m2.length)
    (a1 : 20 + m1.length ≤ m1.len) (b1 : m1.len ≤ m1.mem.length)
    (a2 : 20 + m2.length ≤ m2.len) (b2 : m2.len ≤ m2.mem.length)
    (hfit : m1.length + 4 + v.length + 3 < 4294967296) :
    (m1.add t v).raw = (m2.add t v).raw ∧ (m1.add t v).length = (m2.add t v).length := by
  obtain ⟨r1, _, _, r4, _⟩ := add_spec m1 t v a1 b1 hfit
  obtain ⟨q1, _, _, q4, _⟩ := add_spec m2 t v a2 b2 (by rw [← hlen]; exact hfit)
  exact ⟨by rw [r1, q1, hraw, hlen], by rw [r4, q4, hlen]⟩

/-- decoding `data` into any two message objects (whatever they held, whatever their capacity) succeeds or fails
    alike and, on success, gives the same type, length, transaction ID, attributes and raw bytes -/
theorem decodeFrom_independent (b1 b2 : Msg) (data : Bytes) :
    ((b1.decodeFrom data).2 = .ok () ↔ (b2.decodeFrom data).2 = .ok ()) ∧
    ((b1.decodeFrom data).2 = .ok () →
      (b1.decodeFrom data).1.method = (b2.decodeFrom data).1.method ∧
      (b1.decodeFrom data).1.cls = (b2.decodeFrom data).1.cls ∧
      (b1.decodeFrom data).1.length = (b2.decodeFrom data).1.length ∧
      (b1.decodeFrom data).1.tid = (b2.decodeFrom data).1.tid ∧
      (b1.decodeFrom data).1.attrs = (b2.decodeFrom data).1.attrs ∧
      (b1.decodeFrom data).1.raw = data ∧ (b2.decodeFrom data).1.raw = data) := by
  have cap : ∀ b : Msg, (b.setRaw data).len ≤ (b.setRaw data).mem.length := by
    intro b; unfold Msg.setRaw; split <;> simp <;> omega
  have k1 := decode_char (b1.setRaw data) (cap b1)
  have k2 := decode_char (b2.setRaw data) (cap b2)
  rw [C01.setRaw_raw] at k1 k2
  unfold Msg.decodeFrom
  cases hp : rfcParse data with
  | none =>
    rw [hp] at k1 k2
    obtain ⟨m1, e1, h1⟩ := k1; obtain ⟨m2, e2, h2⟩ := k2
    rw [h1, h2]
    exact ⟨by simp, by intro hok; simp at hok⟩
  | some p =>
    rw [hp] at k1 k2
    rw [k1, k2]
    refine ⟨by simp, fun _ => ⟨rfl, rfl, rfl, rfl, rfl, ?_, ?_⟩⟩
    · exact C01.setRaw_raw b1 data
    · exact C01.setRaw_raw b2 data

/-- `Build` into a message object that previously held anything gives exactly what a fresh message with the same
    Type and TransactionID fields gives: same error, same raw bytes, same length, same attribute list -/
theorem build_independent (mac : Bytes → Bytes → Bytes) (hmac : ∀ k x, (mac k x).length = 20)
    (m1 m2 : Msg) (ss : List Setter)
    (hc1 : m1.len ≤ m1.mem.length) (hc2 : m2.len ≤ m2.mem.length) (ht : m1.tid.length = 12)
    (hm : m1.method = m2.method) (hc : m1.cls = m2.cls) (hid : m1.tid = m2.tid)
    (hf : AllFit mac ss m1.reset.writeHeader) :
    (build mac m1 ss).2 = (build mac m2 ss).2 ∧ (build mac m1 ss).1.raw = (build mac m2 ss).1.raw ∧
    (build mac m1 ss).1.length = (build mac m2 ss).1.length ∧ (build mac m1 ss).1.attrs = (build mac m2 ss).1.attrs := by
  have s1 := canonical_start m1 hc1 ht
  have s2 := canonical_start m2 hc2 (by rw [← hid]; exact ht)
  have w1 := writeHeader_spec m1.reset (by simp [Msg.reset]) (by simpa [Msg.reset] using ht)
  have w2 := writeHeader_spec m2.reset (by simp [Msg.reset]) (by simp [Msg.reset, ← hid, ht])
  obtain ⟨w11, w12, w13, w14, w15, w16, w17, w18⟩ := w1
  obtain ⟨w21, w22, w23, w24, w25, w26, w27, w28⟩ := w2
  have h0 : SameObs m1.reset.writeHeader m2.reset.writeHeader :=
    ⟨s1, s2, by rw [w16, w26]; simpa [Msg.reset] using hm, by rw [w17, w27]; simpa [Msg.reset] using hc,
      by rw [w18, w28]; simpa [Msg.reset] using hid, by rw [w15, w25]; simp [Msg.reset]⟩
  unfold build
  clear s1 s2 w11 w12 w13 w14 w15 w16 w17 w18 w21 w22 w23 w24 w25 w26 w27 w28
  generalize m1.reset.writeHeader = a at *
  generalize m2.reset.writeHeader = b at *
  induction ss generalizing a b with
  | nil => exact ⟨rfl, h0.raw, h0.length, h0.attrs⟩
  | cons s r ih =>
    simp only [applySetters]
    obtain ⟨e, so⟩ := setter_sameObs mac hmac s a b h0 hf.1
    cases hr1 : s.addTo mac a with
    | mk a' ea =>
      cases hr2 : s.addTo mac b with
      | mk b' eb =>
        rw [hr1, hr2] at e so
        simp only at e so
        subst e
        cases ea with
        | some err => exact ⟨rfl, so.raw, so.length, so.attrs⟩
        | none =>
          have := hf.2 (by rw [hr1])
          rw [hr1] at this
          exact ih a' this b' so

end Stun.C08
