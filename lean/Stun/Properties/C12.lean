/-
  C12 — responses reach the transaction with the same ID and nothing else (L1 model).
-/
import Stun.Proofs.ClientHistory
import Stun.Proofs.DecodeMsg
namespace Stun.C12
open Stun Stun.Client Stun.ClientProofs

/-- in every history, whenever a handler `h` is invoked with an event for transaction id `id`, some `Start` of the
    history registered exactly that handler for exactly that id: with one handler per Start, a handler only ever
    sees events of its own transaction id — however many transactions are in flight and in whatever order events
    arrive -/
theorem delivery_by_id (ops : List COp) (h : Nat) (id : TID) (e : CEv)
    (hm : COut.call h id e ∈ allOuts (run {} ops).2) :
    ∃ raw, COp.start id raw (some h) ∈ ops := by
  obtain ⟨raw, hr⟩ := (run_spec ops [] {} inv_init (by intro p hp; simp at hp)).2.2.1 h id e hm
  simp only [List.append_nil] at hr
  refine ⟨raw, ?_⟩
  clear hm
  induction ops with
  | nil => simp [startsOf] at hr
  | cons op r ih =>
    rw [startsOf_cons op r] at hr
    rcases List.mem_append.mp hr with h1 | h1
    · cases op with
      | start id' raw' hd =>
        cases hd with
        | some h' =>
          simp only [startsOf, List.mem_singleton, Prod.mk.injEq] at h1
          obtain ⟨rfl, rfl, rfl⟩ := h1
          exact List.mem_cons_self
        | none => simp [startsOf] at h1
      | _ => simp [startsOf] at h1
    · exact List.mem_cons_of_mem _ (ih h1)

/-- the Message a handler sees is the decode of exactly the received datagram (the reader's buffer holds 1024 bytes) -/
theorem message_is_datagram (c : Client) (d : Bytes) (h : Nat) (id : TID) (raw : Bytes)
    (hm : COut.call h id (.msg raw) ∈ (c.deliver d).2) : raw = d.take 1024 :=
  deliver_msg_is_datagram c d _ hm h id raw rfl

/-- an event whose id matches no transaction goes only to the fallback handler (if one is set, and never a `stopped`
    event); an undecodable datagram changes nothing and invokes nobody -/
theorem unknown_to_fallback_only (c : Client) (id : TID) (e : CEv) (hl : c.lookup id = none) :
    c.callback id e = (c, if c.closed = false ∧ c.hasFallback = true ∧ e ≠ .stopped then [.fallback id e] else []) := by
  unfold Client.callback
  rw [hl]
  simp only
  by_cases hc : c.closed = true
  · simp [hc]
  · have hcf : c.closed = false := by simpa using hc
    simp only [hcf, Bool.not_false, Bool.true_and, true_and]
    by_cases hfb : c.hasFallback = true <;> by_cases he : e = .stopped <;> simp [hfb, he]

theorem garbage_is_noop (c : Client) (d : Bytes) (h : (readerMsg.readFrom d).2 ≠ .ok ()) : c.deliver d = (c, []) := by
  unfold Client.deliver
  split
  · rename_i heq; exact absurd heq h
  · rfl

/-- the reader reuses ONE Message object for every datagram. Whenever its decode succeeds, everything a handler can
    read from that object — type, transaction id, attribute list — is the RFC parse of exactly this datagram's first
    1024 bytes: nothing of an earlier datagram survives in it (the datagram before may have had more attributes). -/
theorem reader_message_is_decode (d : Bytes) (hok : (readerMsg.readFrom d).2 = .ok ()) :
    ∃ p, Spec.rfcParse (d.take 1024) = some p ∧
      (readerMsg.readFrom d).1.attrs = p.attrs.map DecodeProofs.attrOfSpec ∧
      (readerMsg.readFrom d).1.tid = p.tid ∧ (readerMsg.readFrom d).1.method = p.method ∧
      (readerMsg.readFrom d).1.cls = p.cls ∧ (readerMsg.readFrom d).1.length = p.length := by
  have hlen : (d.take 1024).length ≤ 1024 := by simp [List.length_take]; omega
  let m0 : Msg := { readerMsg with mem := d.take 1024 ++ readerMsg.mem.drop (d.take 1024).length, len := (d.take 1024).length }
  have hm : readerMsg.readFrom d = m0.decode := by
    simp only [Msg.readFrom, m0, readerMsg, List.length_replicate]
  have hcap : m0.len ≤ m0.mem.length := by
    simp only [m0, readerMsg, List.length_append, List.length_drop, List.length_replicate]; omega
  have hraw : m0.raw = d.take 1024 := by
    simp only [Msg.raw, m0]; rw [List.take_left]
  have key := DecodeProofs.decode_char m0 hcap
  rw [hraw] at key
  rw [hm] at hok ⊢
  cases hp : Spec.rfcParse (d.take 1024) with
  | none =>
    rw [hp] at key; obtain ⟨m', e, hk⟩ := key
    rw [hk] at hok; simp at hok
  | some p =>
    rw [hp] at key
    exact ⟨p, rfl, by rw [key], by rw [key], by rw [key], by rw [key], by rw [key]⟩

end Stun.C12
