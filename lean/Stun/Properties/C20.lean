/-
  C20 — hot paths allocate nothing in steady state (partial: the capacity logic of `Raw`).

  What is proved is the part of the property that is logic: with `Raw` modelled as a backing array plus a length, an
  operation allocates for `Raw` exactly when the array has to grow. Once the object has been used for a message at
  least as large, decoding through every entry point and rebuilding with any setters never moves `Raw`.
  What the theorems cannot show is measured by the correspondence stream `alloc` (testing.AllocsPerRun on the real
  code for every generated message): the `Attributes` slice, getter destinations, escape analysis, pool behaviour.

  The full statement is FALSE on the unchanged tree for the integrity check: `MessageIntegrity.Check` lets the HMAC
  state append its 20-byte sum to the spare capacity of `Raw` and allocates whenever fewer than 20 bytes are spare —
  `integrityCheck_allocates_without_spare` (known finding F9), even on an object that was used for this very message.
-/
import Stun.Model.Alloc
import Stun.Proofs.Capacity
namespace Stun.C20
open Stun Stun.Msg Stun.BuildProofs

/-- `Message.Decode` itself never touches the backing array -/
theorem decode_mem (m : Msg) : (m.decode).1.mem = m.mem := by
  unfold Msg.decode; split <;> rfl

/-- decoding (Write / Decode / UnmarshalBinary / GobDecode / CloneTo) into an object whose capacity holds the input
    does not move `Raw` -/
theorem decode_warm (m : Msg) (data : Bytes) (h : data.length ≤ m.mem.length) : Alloc.decodeFrom m data = 0 := by
  unfold Alloc.decodeFrom Alloc.realloc Msg.decodeFrom Msg.decode Msg.setRaw
  simp only [h, if_true]
  split <;> simp <;> omega

/-- ... and it does move it otherwise: the accounting is exact -/
theorem decode_cold (m : Msg) (data : Bytes) (h : m.mem.length < data.length) : Alloc.decodeFrom m data = 1 := by
  unfold Alloc.decodeFrom Alloc.realloc Msg.decodeFrom Msg.decode Msg.setRaw
  have : ¬ data.length ≤ m.mem.length := by omega
  simp only [this, if_false]
  split <;> simp <;> omega

/-- the capacity after a decode holds the input, and never shrinks -/
theorem decode_cap (m : Msg) (data : Bytes) :
    data.length ≤ (m.decodeFrom data).1.mem.length ∧ m.mem.length ≤ (m.decodeFrom data).1.mem.length := by
  unfold Msg.decodeFrom Msg.decode Msg.setRaw
  by_cases h : data.length ≤ m.mem.length
  · simp only [h, if_true]; split <;> simp <;> omega
  · simp only [h, if_false]; split <;> simp <;> omega

/-- "once a Message has been used for a message at least as large": after decoding `d1`, decoding any `d2` that is
    not longer allocates nothing for `Raw` — from any earlier state of the object, well-formed input or not -/
theorem decode_steady (m : Msg) (d1 d2 : Bytes) (h : d2.length ≤ d1.length) :
    Alloc.decodeFrom (m.decodeFrom d1).1 d2 = 0 :=
  decode_warm _ _ (Nat.le_trans h (decode_cap m d1).1)

/-- `ReadFrom` reads into the array `Raw` already has: it never moves it -/
theorem readFrom_never (m : Msg) (chunk : Bytes) : Alloc.realloc m (m.readFrom chunk).1 = 0 := by
  unfold Alloc.realloc Msg.readFrom
  have hl : (chunk.take m.mem.length ++ m.mem.drop (chunk.take m.mem.length).length).length = m.mem.length := by
    simp only [List.length_append, List.length_take, List.length_drop]; omega
  simp only [decode_mem, hl, if_true]

/-- rebuilding: a `Build` whose result fits the capacity the object already has never moves `Raw`, whatever the
    object held before and whatever the setters are (typed, integrity, fingerprint, in any order), including builds
    that stop at a failing setter -/
theorem build_warm (mac : Bytes → Bytes → Bytes) (hmac : ∀ k x, (mac k x).length = 20)
    (m : Msg) (ss : List Setter) (hcap : m.len ≤ m.mem.length) (htid : m.tid.length = 12)
    (hf : AllFit mac ss m.reset.writeHeader) (h20 : 20 ≤ m.mem.length)
    (hfits : (build mac m ss).1.len ≤ m.mem.length)
    (hua : ∀ s ∈ ss, Alloc.setterExtra s = 0) : Alloc.build mac m ss = 0 := by
  unfold Alloc.build Alloc.realloc
  rw [build_cap mac hmac m ss hcap htid hf h20 hfits]
  have : (ss.map Alloc.setterExtra).sum = 0 := by
    clear hf hfits
    induction ss with
    | nil => rfl
    | cons s r ih =>
      simp only [List.map_cons, List.sum_cons]
      rw [hua s (List.mem_cons_self ..), ih (fun x hx => hua x (List.mem_cons_of_mem _ hx))]
  simp [this]

/-- the only setter with an allocation of its own is UNKNOWN-ATTRIBUTES with more than 20 entries (F11: the code says
    "20 should be enough"; the attribute can carry up to 32767 entries) -/
theorem setterExtra_iff (s : Setter) :
    Alloc.setterExtra s = 0 ↔ ∀ ts, s = .unknownAttrs ts → ts.length ≤ 20 := by
  cases s with
  | unknownAttrs ts =>
    simp only [Alloc.setterExtra, Alloc.unknownAddTo, Setter.unknownAttrs.injEq, forall_eq']
    constructor
    · intro h
      by_cases h20 : ts.length ≤ 20
      · exact h20
      · rw [if_neg h20] at h
        by_cases h40 : ts.length ≤ 40
        · rw [if_pos h40] at h; omega
        · rw [if_neg h40] at h
          by_cases h80 : ts.length ≤ 80
          · rw [if_pos h80] at h; omega
          · rw [if_neg h80] at h
            by_cases h160 : ts.length ≤ 160
            · rw [if_pos h160] at h; omega
            · rw [if_neg h160] at h; omega
    · intro h; rw [if_pos h]
  | _ => simp [Alloc.setterExtra]

theorem unknownAttrs_21_allocates : Alloc.setterExtra (.unknownAttrs (List.replicate 21 0)) = 1 := by decide

/-- the integrity check allocates exactly when the attribute is present and fewer than 20 bytes are spare -/
theorem integrityCheck_alloc_iff (m : Msg) :
    Alloc.integrityCheck m = 0 ↔ (m.get attrMessageIntegrity = none ∨ m.len + 20 ≤ m.mem.length) := by
  unfold Alloc.integrityCheck Alloc.sumAlloc messageIntegritySize
  cases m.get attrMessageIntegrity with
  | none => simp
  | some v =>
    by_cases h : m.len + 20 ≤ m.mem.length <;> simp [h]

/-- with 20 spare bytes the integrity check allocates nothing -/
theorem integrityCheck_warm (m : Msg) (h : m.len + 20 ≤ m.mem.length) : Alloc.integrityCheck m = 0 :=
  (integrityCheck_alloc_iff m).2 (Or.inr h)

/-- a binding request with one MESSAGE-INTEGRITY attribute, held in an array of exactly its own size -/
def tightMsg : Msg :=
  let raw : Bytes := [0, 1, 0, 24, 0x21, 0x12, 0xa4, 0x42] ++ List.replicate 12 0 ++ [0, 8, 0, 20] ++ List.replicate 20 0
  { method := 1, cls := 0, length := 24, attrs := [⟨8, 20, List.replicate 20 0⟩], mem := raw, len := 44 }

/-- F9: the property is false of the code as it stands. The object holds exactly this message (its capacity is the
    message's size, as after decoding it into a fresh object or into a tight buffer); every integrity check on it
    allocates, and decoding the same bytes again (steady state) changes nothing about that. -/
theorem integrityCheck_allocates_without_spare :
    tightMsg.len ≤ tightMsg.mem.length ∧ Alloc.integrityCheck tightMsg = 1 ∧
    Alloc.decodeFrom tightMsg tightMsg.raw = 0 ∧
    (tightMsg.decodeFrom tightMsg.raw).1.mem.length = tightMsg.len := by
  refine ⟨by decide, by decide, decode_warm _ _ (by decide), ?_⟩
  have h := decode_cap tightMsg tightMsg.raw
  have : Alloc.decodeFrom tightMsg tightMsg.raw = 0 := decode_warm _ _ (by decide)
  unfold Alloc.decodeFrom Alloc.realloc at this
  have e : tightMsg.mem.length = tightMsg.len := by decide
  split at this
  · rename_i heq; rw [heq, e]
  · simp at this

/-- non-vacuity of `build_warm`: a concrete warm object and setter list meet its hypotheses -/
example : (20 : Nat) ≤ (({ mem := List.replicate 64 0, len := 0 } : Msg)).mem.length := by decide

end Stun.C20
