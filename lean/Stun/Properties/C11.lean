/-
  C11 — retransmissions are bit-identical, bounded and on schedule (L1 model).
  Proved here: every write that belongs to a transaction carries byte for byte the message given to `Start`
  (the stored copy is immutable in the model; that the real client copies it is decided by the correspondence, which
  overwrites the caller's message after every Start); a retransmission happens only from a timeout the agent reported,
  i.e. strictly after the deadline, only while attempts remain, and advances the attempt counter by one (so at most
  `maxAttempts` retransmissions follow a Start); SetRTO leaves in-flight transactions alone; a finished transaction
  writes nothing more; and over a whole history a request is written at most n+1 times (`writes_at_most_n_plus_1`,
  by a potential argument: Proofs/ClientWrites.lean).
-/
import Stun.Proofs.ClientHistory
import Stun.Proofs.ClientWrites
import Stun.Properties.C13
namespace Stun.C11
open Stun Stun.Client Stun.ClientProofs

/-- every transaction write in every history is the message of some `Start` with that handler: bit-identical -/
theorem writes_bit_identical (ops : List COp) (raw : Bytes) (h : Nat)
    (hm : COut.write raw (some h) ∈ allOuts (run {} ops).2) :
    ∃ id, COp.start id raw (some h) ∈ ops := by
  obtain ⟨id, hr⟩ := (run_spec ops [] {} inv_init (by intro p hp; simp at hp)).2.2.2.1 raw h hm
  simp only [List.append_nil] at hr
  refine ⟨id, ?_⟩
  clear hm
  induction ops with
  | nil => simp [startsOf] at hr
  | cons op r ih =>
    rw [startsOf_cons op r] at hr
    rcases List.mem_append.mp hr with h1 | h1
    · cases op with
      | start id' raw' hd =>
        cases hd with
        | some h' =>
          simp only [startsOf, List.mem_singleton, Prod.mk.injEq] at h1
          obtain ⟨rfl, rfl, rfl⟩ := h1
          exact List.mem_cons_self
        | none => simp [startsOf] at h1
      | _ => simp [startsOf] at h1
    · exact List.mem_cons_of_mem _ (ih h1)

/-- a retransmission is only made for a registered transaction that has attempts left, and only on an error event
    (never after a response) -/
theorem retransmit_guard (c : Client) (id : TID) (e : CEv) (raw : Bytes) (h : Option Nat)
    (hm : COut.write raw h ∈ (c.callback id e).2) :
    ∃ tx, c.lookup id = some tx ∧ raw = tx.raw ∧ h = some tx.h ∧ tx.attempt < c.maxAttempts ∧ e.isMsg = false ∧
      c.closed = false := by
  unfold Client.callback at hm
  cases hl : c.lookup id with
  | none => rw [hl] at hm; simp only at hm; split at hm <;> simp at hm
  | some tx =>
    rw [hl] at hm; simp only at hm
    by_cases hd : (c.closed || decide (c.maxAttempts ≤ tx.attempt) || e.isMsg) = true
    · rw [if_pos hd] at hm; simp at hm
    · rw [if_neg hd] at hm
      simp only [Bool.or_eq_true, decide_eq_true_eq, not_or, Nat.not_le, Bool.not_eq_true] at hd
      refine ⟨tx, rfl, ?_, ?_, hd.1.2, hd.2, hd.1.1⟩
      all_goals
        unfold Client.retransmit at hm
        simp only at hm
        split at hm
        · simp at hm
        · split at hm
          · simp only [List.mem_singleton, COut.write.injEq] at hm; first | exact hm.1 | exact hm.2
          · simp only [List.mem_cons, COut.write.injEq, reduceCtorEq, List.not_mem_nil, or_false] at hm
            first | exact hm.1 | exact hm.2

/-- the collector only reports transactions whose deadline is strictly before the collect time: a tick at or before
    the deadline retransmits nothing for that transaction -/
theorem no_retransmit_before_deadline (a : Agent) (hc : a.closed = false) (t : Nat) (ev : AEvent)
    (hm : ev ∈ (a.collect t).2.2) : ∃ d, (ev.id, d) ∈ a.table ∧ d < t := by
  obtain ⟨_, h2, _⟩ := C13.collect_spec a hc t
  rw [h2] at hm
  obtain ⟨p, hp, rfl⟩ := List.mem_map.mp hm
  obtain ⟨hp1, hp2⟩ := List.mem_filter.mp hp
  exact ⟨p.2, hp1, by simpa using hp2⟩

/-- the deadline registered by a retransmission is `now + (attempt+1)·rto` with the RTO captured at `Start` -/
theorem nextTimeout_formula (tx : Txn) (now : Nat) : nextTimeout tx now = now + (tx.attempt + 1) * tx.rto := rfl

/-- SetRTO affects only transactions started later: the table (with each transaction's captured RTO) is untouched -/
theorem setRTO_only_later (c : Client) (r : Nat) : (c.setRTO r).t = c.t ∧ (c.setRTO r).agent = c.agent := ⟨rfl, rfl⟩

/-- with retransmission disabled (attempt limit 0) a timeout completes the transaction without any write -/
theorem no_retransmit_when_disabled (c : Client) (h0 : c.maxAttempts = 0) (id : TID) (e : CEv) (raw : Bytes)
    (h : Option Nat) : COut.write raw h ∉ (c.callback id e).2 := by
  intro hm
  obtain ⟨tx, _, _, _, hlt, _⟩ := retransmit_guard c id e raw h hm
  omega

/-- Over any history (any number of transactions, responses, duplicates, garbage, ticks at any times, scripted write
    failures, RTO changes, Close) on a client configured for `n` retransmissions, the request of a transaction is
    written at most `n + 1` times: once by `Start` and at most `n` times by retransmissions. (`h` names the handler
    given to exactly one `Start`, which is how the writes of one transaction are told apart.) -/
theorem writes_at_most_n_plus_1 (n : Nat) (ops : List COp) (h : Nat) (hu : startCount h ops ≤ 1) :
    wr h (allOuts (run ({ maxAttempts := n } : Client) ops).2) ≤ n + 1 := by
  have hb := run_budget n h ops [] ({ maxAttempts := n } : Client) ⟨by simp, by simp [ckeys]⟩
    (by intro p hp; simp at hp) rfl
  have h0 : budget n h ({ maxAttempts := n } : Client) = 0 := rfl
  have : (n + 1) * startCount h ops ≤ n + 1 := by
    calc (n + 1) * startCount h ops ≤ (n + 1) * 1 := Nat.mul_le_mul_left _ hu
      _ = n + 1 := Nat.mul_one _
  omega

/-- non-vacuity and tightness: with n = 2 and three deadlines passing, exactly 3 writes -/
example : wr 1 (allOuts (run ({ maxAttempts := 2, rto := 10 } : Client)
    [.start [1,2,3,4,5,6,7,8,9,10,11,12] [0,1] (some 1), .tick 11, .tick 100, .tick 1000, .tick 10000]).2) = 3 := by
  decide

end Stun.C11
