/-
  C07 — attribute getters and checkers are total, local and side-effect free.
  Getter models read the value through checked accessors (`rd16`, `rdByte`, `sliceFrom`), so "never panics" is a
  theorem about the guards, not a consequence of totalised indexing. MESSAGE-INTEGRITY's checker (the only one that
  writes to the message) is treated in C04 (`check_no_panic`, `check_pure`).
-/
import Stun.Model.Integrity
namespace Stun.C07
open Stun

theorem xorGet_no_panic (m : Msg) (attr : Nat) : xorGetFromAs m attr ≠ .panic := by
  unfold xorGetFromAs
  cases hg : m.get attr with
  | none => simp
  | some value =>
    simp only
    by_cases h4 : value.length ≤ 4
    · simp [h4]
    · have r0 : rd16 value 0 = some (be16 (value.drop 0)) := by unfold rd16; rw [if_pos (by omega)]
      have r2 : rd16 value 2 = some (be16 (value.drop 2)) := by unfold rd16; rw [if_pos (by omega)]
      have s4 : sliceFrom value 4 = some (value.drop 4) := by unfold sliceFrom; rw [if_pos (by omega)]
      simp only [h4, if_false, r0, r2, s4]
      split <;> (try split) <;> (try split) <;> simp

theorem mappedGet_no_panic (m : Msg) (attr : Nat) : mappedGetFromAs m attr ≠ .panic := by
  unfold mappedGetFromAs
  cases hg : m.get attr with
  | none => simp
  | some value =>
    simp only
    by_cases h4 : value.length ≤ 4
    · simp [h4]
    · have r0 : rd16 value 0 = some (be16 (value.drop 0)) := by unfold rd16; rw [if_pos (by omega)]
      have r2 : rd16 value 2 = some (be16 (value.drop 2)) := by unfold rd16; rw [if_pos (by omega)]
      have s4 : sliceFrom value 4 = some (value.drop 4) := by unfold sliceFrom; rw [if_pos (by omega)]
      simp only [h4, if_false, r0, r2, s4]
      split <;> simp

theorem textGet_no_panic (m : Msg) (attr : Nat) : textGetFromAs m attr ≠ .panic := by
  unfold textGetFromAs; cases m.get attr <;> simp

theorem errorCodeGet_no_panic (m : Msg) : errorCodeGetFrom m ≠ .panic := by
  unfold errorCodeGetFrom
  cases hg : m.get attrErrorCode with
  | none => simp
  | some value =>
    simp only
    by_cases h4 : value.length < errorCodeReasonStart
    · simp [h4]
    · simp only [errorCodeReasonStart] at h4
      have r2 : rdByte value 2 = some (value.getD 2 0) := by unfold rdByte; rw [if_pos (by omega)]
      have r3 : rdByte value 3 = some (value.getD 3 0) := by unfold rdByte; rw [if_pos (by omega)]
      have s4 : sliceFrom value 4 = some (value.drop 4) := by unfold sliceFrom; rw [if_pos (by omega)]
      simp [errorCodeReasonStart, h4, r2, r3, s4]

theorem unknownLoop_some (v : Bytes) : ∀ (fuel first : Nat) (acc : List Nat),
    first ≤ v.length → (v.length - first) % 2 = 0 → v.length - first ≤ 2 * fuel →
    (unknownLoop v first fuel acc).isSome = true := by
  intro fuel
  induction fuel with
  | zero => intro first acc h1 h2 h3; simp only [unknownLoop]; rw [if_neg (by omega)]; rfl
  | succ n ih =>
    intro first acc h1 h2 h3
    simp only [unknownLoop]
    by_cases hlt : first < v.length
    · have r : rd16 v first = some (be16 (v.drop first)) := by unfold rd16; rw [if_pos (by omega)]
      simp only [hlt, if_true, r, attrTypeSize]
      exact ih (first + 2) _ (by omega) (by omega) (by omega)
    · simp [hlt]

theorem unknownGet_no_panic (m : Msg) : unknownGetFrom m ≠ .panic := by
  unfold unknownGetFrom
  cases hg : m.get attrUnknownAttributes with
  | none => simp
  | some v =>
    simp only
    by_cases hm : v.length % attrTypeSize ≠ 0
    · simp [hm]
    · simp only [hm, if_false]
      have := unknownLoop_some v v.length 0 [] (by omega) (by simp only [attrTypeSize] at hm; omega) (by omega)
      cases hl : unknownLoop v 0 v.length [] with
      | none => rw [hl] at this; simp at this
      | some l => simp

/-- FINGERPRINT's checker cannot panic on any message with at least 8 visible bytes (every decoded message has 20) -/
theorem fingerprintCheck_no_panic (m : Msg) (h : 8 ≤ m.len) : fingerprintCheck m ≠ .panic := by
  unfold fingerprintCheck
  cases m.get attrFingerprint with
  | none => simp
  | some b =>
    simp only
    by_cases hb : b.length ≠ fingerprintSize
    · rw [if_pos hb]; simp
    · rw [if_neg hb, if_neg (by simp only [fingerprintSize, attributeHeaderSize]; omega)]; split <;> simp

/-! ### locality: the outcome is a function of the attribute's own value (and the transaction ID for XOR types) -/

theorem xorGet_local (m1 m2 : Msg) (attr : Nat) (hv : m1.get attr = m2.get attr) (ht : m1.tid = m2.tid) :
    xorGetFromAs m1 attr = xorGetFromAs m2 attr := by
  unfold xorGetFromAs; rw [hv, ht]

theorem mappedGet_local (m1 m2 : Msg) (attr : Nat) (hv : m1.get attr = m2.get attr) :
    mappedGetFromAs m1 attr = mappedGetFromAs m2 attr := by
  unfold mappedGetFromAs; rw [hv]

theorem textGet_local (m1 m2 : Msg) (attr : Nat) (hv : m1.get attr = m2.get attr) :
    textGetFromAs m1 attr = textGetFromAs m2 attr := by
  unfold textGetFromAs; rw [hv]

theorem errorCodeGet_local (m1 m2 : Msg) (hv : m1.get attrErrorCode = m2.get attrErrorCode) :
    errorCodeGetFrom m1 = errorCodeGetFrom m2 := by
  unfold errorCodeGetFrom; rw [hv]

theorem unknownGet_local (m1 m2 : Msg) (hv : m1.get attrUnknownAttributes = m2.get attrUnknownAttributes) :
    unknownGetFrom m1 = unknownGetFrom m2 := by
  unfold unknownGetFrom; rw [hv]

/-- the fingerprint check depends only on the FINGERPRINT value and the visible bytes before the last 8 -/
theorem fingerprintCheck_local (m1 m2 : Msg) (hv : m1.get attrFingerprint = m2.get attrFingerprint)
    (hr : m1.raw = m2.raw) (hl : m1.len = m2.len) : fingerprintCheck m1 = fingerprintCheck m2 := by
  unfold fingerprintCheck; rw [hv, hr, hl]

/-- `Get` itself only looks at the attribute list: padding, neighbours' values and spare capacity are invisible -/
theorem get_local (m1 m2 : Msg) (t : Nat) (h : m1.attrs = m2.attrs) : m1.get t = m2.get t := by
  unfold Msg.get; rw [h]

end Stun.C07
