#!/usr/bin/env python3
import sys
st=sys.argv[1]; k=int(sys.argv[2]) if len(sys.argv)>2 else 5
ops=open(f'build/{st}.ops').read().split('\n'); impl=open(f'build/{st}.impl').read().split('\n'); model=open(f'build/{st}.model').read().split('\n')
c=0
def short(x): return x if len(x)<70 else x[:30]+f'..[{len(x)}]..'+x[-30:]
for i,(a,b) in enumerate(zip(impl,model)):
    if a!=b:
        print(i, short(ops[i]))
        ta=a.replace(',',' ').split(); tb=b.replace(',',' ').split()
        for x,y in zip(ta,tb):
            if x!=y: print('   impl :',short(x)); print('   model:',short(y)); break
        else: print('   impl tokens',len(ta),'model tokens',len(tb), short(a[-80:]), '|', short(b[-80:]))
        c+=1
        if c>=k: break
print("diffs:", sum(1 for a,b in zip(impl,model) if a!=b))
