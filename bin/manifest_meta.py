HOOK_COMMITS = []

PROOF_NOTE = ("Trusted: Lean 4.33.0 kernel; axioms propext/Quot.sound/Classical.choice only (audited on every run by "
              "#print axioms; no sorry/native_decide/bv_decide). The theorems are about the hand-written model in "
              "lean/Stun/Model; its faithfulness to /repo rests on the correspondence streams (Go harness, generators, "
              "line comparison in bin/check). ")

META = {
    "C19": {
        "text": "Proof: Value()/ReadValue() are modelled with Go's uint16 masks and shifts; theorems show the figure-3 layout, "
                "the zero leading bits and both round trips for ALL naturals (no enumeration). The model is compared with "
                "the real functions on the complete domain (16384 pairs + 65536 values) on every run.",
        "note": PROOF_NOTE + "Go's uint16 arithmetic is modelled as Nat arithmetic mod 65536.",
        "technique": "Lean 4 theorems (omega over mask/shift arithmetic) + exhaustive model/implementation comparison",
    },
    "C01": {
        "text": "Proof: Decode is transliterated on checked Go-slice windows (every slice expression can panic in the model); "
                "theorems: no panic for every byte string in every capacity, termination (well-founded loop, <= len/4 "
                "attributes), value windows inside the declared body / ordered / disjoint / exact length, IsMessage, and "
                "the same for all copying entry points. Correspondence on random, structured, mutated and enumerated "
                "inputs through all seven entry points, release and debug tags.",
        "note": PROOF_NOTE + "Not carried by the theorem: real heap growth and the behaviour of Go's append/copy runtime.",
        "technique": "Lean 4 theorem: Go decode loop = RFC TLV grammar (induction), no-panic corollary; differential correspondence",
    },
    "C02": {
        "text": "Proof: the transliterated decoder equals an independently written RFC 5389 parser (rfcParse) on every "
                "input; rfcParse is proved sound and complete w.r.t. the generating grammar header ++ TLV* ++ trailing "
                "(accepts_iff); Get/Contains/ForEach theorems incl. restore-on-failure for every callback. "
                "Correspondence: exhaustive length-structure enumeration + random/mutated inputs with queries.",
        "note": PROOF_NOTE,
        "technique": "Lean 4 refinement proof decoder = RFC grammar; soundness/completeness; differential correspondence",
    },
}

NOT_APPLICABLE = {p: "check not built yet in this round (see DESIGN.md §4 for the plan)" for p in
                  ["C03", "C04", "C05", "C06", "C07", "C08", "C09", "C10", "C11", "C12", "C13", "C14", "C15", "C16", "C17",
                   "C18", "C20"]}
