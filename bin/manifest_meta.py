HOOK_COMMITS = ["3d3f887", "9008517"]

PROOF_NOTE = ("Trusted: Lean 4.33.0 kernel; axioms propext/Quot.sound/Classical.choice only (audited on every run by "
              "#print axioms; no sorry/native_decide/bv_decide). The theorems are about the hand-written model in "
              "lean/Stun/Model; its faithfulness to /repo rests on the correspondence streams (Go harness, generators, "
              "line comparison in bin/check). ")

META = {
    "C19": {
        "text": "Proof: Value()/ReadValue() are modelled with Go's uint16 masks and shifts; theorems show the figure-3 layout, "
                "the zero leading bits and both round trips for ALL naturals (no enumeration). The model is compared with "
                "the real functions on the complete domain (16384 pairs + 65536 values) on every run.",
        "note": PROOF_NOTE + "Go's uint16 arithmetic is modelled as Nat arithmetic mod 65536.",
        "technique": "Lean 4 theorems (omega over mask/shift arithmetic) + exhaustive model/implementation comparison",
    },
    "C01": {
        "text": "Proof: Decode is transliterated on checked Go-slice windows (every slice expression can panic in the model); "
                "theorems: no panic for every byte string in every capacity, termination (well-founded loop, <= len/4 "
                "attributes), value windows inside the declared body / ordered / disjoint / exact length, IsMessage, and "
                "the same for all copying entry points. Correspondence on random, structured, mutated and enumerated "
                "inputs through all seven entry points, release and debug tags.",
        "note": PROOF_NOTE + "Not carried by the theorem: real heap growth and the behaviour of Go's append/copy runtime.",
        "technique": "Lean 4 theorem: Go decode loop = RFC TLV grammar (induction), no-panic corollary; differential correspondence",
    },
    "C02": {
        "text": "Proof: the transliterated decoder equals an independently written RFC 5389 parser (rfcParse) on every "
                "input; rfcParse is proved sound and complete w.r.t. the generating grammar header ++ TLV* ++ trailing "
                "(accepts_iff); Get/Contains/ForEach theorems incl. restore-on-failure for every callback. "
                "Correspondence: exhaustive length-structure enumeration + random/mutated inputs with queries.",
        "note": PROOF_NOTE,
        "technique": "Lean 4 refinement proof decoder = RFC grammar; soundness/completeness; differential correspondence",
    },
}

META.update({
    "C03": {
        "text": "Proof: invariant Canonical (raw = header ++ zero-padded TLVs of the struct's attribute list, length field "
                "= body size, multiple of 4) is established by Build from ANY previous state and preserved by every "
                "building operation incl. typed, integrity and fingerprint setters, for sequences of any length "
                "(induction); decoding the raw bytes of a canonical message returns exactly the struct (via the C02 "
                "completeness theorem) and Equal agrees; Encode on any struct with a well-formed attribute list is canonical and "
                "decode-then-encode reproduces the canonical bytes (encode_canonical, decode_then_encode). Rests on a "
                "closed-form lemma for Add over an explicit "
                "spare-capacity buffer model. Correspondence: random building sequences with library re-decode.",
        "note": PROOF_NOTE + "Precondition as in the property: sizes fit the 16-bit length field (AllFit/OpsFit). "
                "WriteAttributes on its own (outside Encode) is covered by the correspondence only.",
        "technique": "Lean 4 invariant proof by induction over operation sequences + differential correspondence",
    },
    "C08": {
        "text": "Proof: non-interference over the explicit stale-buffer state: Add, Build (all setters) and every copying "
                "decode give results that do not depend on the previous contents/capacity of the message object "
                "(build_independent, decodeFrom_independent, add_independent_of_spare). Correspondence on poisoned "
                "buffers with caller-side overwrites decides the aliasing half.",
        "note": PROOF_NOTE + "Aliasing is not expressible in the value-semantic model (correspondence only).",
        "technique": "Lean 4 non-interference theorems over a buffer model with explicit spare capacity + correspondence",
    },
    "C09": {
        "text": "Proof: accept-iff theorems for every limit (text kinds, IP lengths, error codes with/without default "
                "reason, integrity after fingerprint), atomicity of every failing setter (state returned = state "
                "before, because the models keep Go's order of effects), Build returns the first failing setter's "
                "error with exactly the preceding setters applied. Correspondence with boundary values, both tags.",
        "note": PROOF_NOTE,
        "technique": "Lean 4 theorems over transliterated setters + boundary-value correspondence",
    },
})

META.update({
    "C13": {
        "text": "Proof: agent.go is modelled method by method as a transaction table; for EVERY call sequence from any "
                "consistent state and every id: successful Starts + registered-before = terminal events + "
                "registered-after (exactly_one_terminal, induction over the history with the no-duplicate invariant), "
                "plus per-method specifications (Start fails iff closed/duplicate, Stop, Process, strict Collect, "
                "Close, everything closed afterwards). Correspondence: exhaustive call sequences + long random ones.",
        "note": PROOF_NOTE + "Go maps are modelled as duplicate-free association lists; event order inside one call is "
                "unspecified (sorted before comparison).",
        "technique": "Lean 4 invariant proof over arbitrary histories + exhaustive/random sequence correspondence",
    },
})

META.update({
    "C06": {
        "text": "Proof: for all ports < 65536, all 4/16-byte addresses, all transaction ids, all codes, all lists: the "
                "setters hand Add exactly the RFC 5389 section 15 encodings (Spec/Attrs.lean, written from the RFC), the "
                "getters read every RFC-encoded value back, the RFC decoders invert the encoders, and add -> re-decode "
                "-> Get returns the value (via the C03 canonical-decode theorem). Correspondence incl. an independent "
                "RFC encoder in the generator.",
        "note": PROOF_NOTE + "IPv4-mapped IPv6 input is written as the 4-byte IPv4 form (addrFamily_mapped), see DESIGN §7.",
        "technique": "Lean 4 round-trip theorems against an RFC-derived spec + differential correspondence",
    },
    "C07": {
        "text": "Proof: getter models read through checked accessors (out-of-range = panic result); theorems: no getter "
                "and no fingerprint check can panic, for every message and value; each outcome is a function of the "
                "attribute's own value (+ transaction id for XOR types, + covered span for fingerprint). Getters are "
                "pure functions of the message in the model; MESSAGE-INTEGRITY's checker (which writes the header "
                "length temporarily) is covered by C04 check_no_panic/check_pure. Correspondence: exhaustive lengths "
                "0..40 x position x capacity x surroundings, both tags.",
        "note": PROOF_NOTE,
        "technique": "Lean 4 totality/locality theorems over checked-access models + exhaustive-length correspondence",
    },
})

META.update({
    "C04": {
        "text": "Proof: for EVERY decoded message and key, the transliterated Check (sizeReduced loop, uint32 arithmetic, "
                "checked slice, temporary length rewrite) never panics, leaves raw/length/attributes unchanged, and "
                "succeeds iff the first MESSAGE-INTEGRITY attribute is 20 bytes and equals mac(key, bytes before it "
                "with the header length rewritten to end at it) - independent of what follows; signing a canonical "
                "message and checking it after the receiver's decode succeeds (sign_then_check). MAC is a parameter "
                "(20-byte output); the driver uses an independent Lean HMAC-SHA1; MD5 long-term keys compared too.",
        "note": PROOF_NOTE + "HMAC/MD5 collision resistance is not provable; Spec.hmacSHA1/md5 are tied to Go's "
                "crypto packages by the correspondence and RFC vectors.",
        "technique": "Lean 4 theorems parametric in the MAC + differential correspondence with independent signer",
    },
    "C05": {
        "text": "Proof: the setter's value is CRC-32(all preceding bytes with the final header length) xor 0x5354554e; "
                "the checker accepts iff the first FINGERPRINT has a 4-byte value equal to that CRC over everything "
                "before the last 8 raw bytes; add-then-check succeeds at the receiver. CRC-32 is a bit-serial Lean "
                "spec tied to hash/crc32 by the correspondence. Burst detection is PROVED from first principles: the LFSR "
                "step is linear and injective, and two messages that differ only inside a window of <= 32 consecutive "
                "bits (CRC order; includes every single-bit flip) never have the same CRC-32 (crc32_burst); at message "
                "level a corruption confined to the covered bytes or to the value fails the check. The implementation-"
                "side predicate re-checks it on exhaustive single-bit flips and random bursts.",
        "note": PROOF_NOTE,
        "technique": "Lean 4 theorems over a bit-serial CRC-32 spec + exhaustive bit-flip correspondence",
    },
})

META.update({
    "C18": {
        "text": "Proof: pool.go/hmac.go are modelled parametrically in the hash; resetTo establishes the keyed invariant from "
                "EVERY previous object state (stale pads, stale absorbed data, stale marshaled flag); Write/Sum/Reset "
                "preserve it; hence every Sum in every operation sequence after an acquire returns in ++ RFC 2104 "
                "HMAC(key, data since last reset), for every chunking and key length (induction over the history). "
                "Correspondence: the driver instantiates the model with Lean SHA-1/SHA-256 written from the RFCs and "
                "compares digests with the real pooled objects over random histories; concurrent use under -race.",
        "note": PROOF_NOTE + "Assumed: sync.Pool exclusivity; marshal/unmarshal round trip of Go's hash states (modelled as "
                "capturing the absorbed bytes). Hook: build tag verif re-exports internal/hmac.",
        "technique": "Lean 4 invariant proof over all histories, parametric in the hash + differential correspondence",
    },
})

META.update({
    "C16": {
        "text": "Proof: ParseURI and the standard-library fragments it observes (url.Parse for rootless URLs, SplitHostPort, "
                "ParseQuery/QueryUnescape, Atoi) are modelled as total functions; the default-port retry is a well-founded "
                "recursion on a flag (depth <= 1), accepted by Lean without fuel; every result is ok or error. For the "
                "unrepaired code the non-termination witness is a theorem (missing_port_forever). Correspondence: "
                "exhaustive strings over the URI alphabet + random/mutated/long/non-ASCII inputs in a crash-observing "
                "worker; stdlib fragments compared one by one.",
        "note": PROOF_NOTE + "net/url, net, strconv are modelled, not verified. Stack depth is a runtime notion.",
        "technique": "Lean 4 termination (well-founded recursion) + exhaustive/random correspondence in a sandboxed worker",
    },
    "C17": {
        "text": "Proof: every URI the model accepts has a non-empty host, port 0..65535, UDP for stun / TCP for stuns, the "
                "?transport= value or the scheme default for turn/turns (parseProto_spec); DialURI's switch is modelled "
                "as a decision table: exact transport for the six producible pairs and never plaintext for secure "
                "schemes over all 5x3 hand-made values. Round trip: proved (roundtrip_accepted) for every URI the parser "
                "returns on any input, all host forms incl. bracketed IPv6 / zones, with the single exclusion of the "
                "F8 host shape (no ':' and a leading '/'), for which the statement is false (refuted in Lean, known "
                "finding); the implementation-side predicate checks the same on exhaustive + grammar inputs. DialURI "
                "is observed through an injected recording network.",
        "note": PROOF_NOTE + "DTLS with a host NAME cannot be exercised offline (DialURI resolves it first). tls/dtls "
                "libraries are not modelled beyond being invoked.",
        "technique": "Lean 4 theorems over the parser model + decision table + predicate-checked correspondence",
    },
})

CLIENT_NOTE = (PROOF_NOTE + "L1 = atomic-operation model: each event (Start, datagram, tick, Close) runs to completion. L2 "
               "(Model/ClientL2.lean) adds three suspension points (Start's first Write, a retransmission's "
               "ClientAgent.Start and its Write) with the same schedules driven on the real client; at most once / never "
               "unstarted (l2_handler_at_most_once, run2_spec) and <= n+1 writes per Start (l2_writes_at_most_n_plus_1) are "
               "proved for ALL L2 histories, the known findings F12/F14/F15 are concrete L2 theorems; "
               "the L1 theorems are the L2 theorems for connections and agents that do not block (run2_l1). Not carried: "
               "finer interleavings, the race detector's verdict, goroutine exit, the default ticker collector. ")
META.update({
    "C10": {
        "text": "Proof over the L1 model of client.go+agent.go, for histories of ANY length over ANY number of ids: THE FULL "
                "STATEMENT exactly_once_by_close (any history, a Start that returns nil, any continuation, Close: the "
                "handler has been invoked exactly once when Close returns), resting on the invariant that the client's "
                "table is a subset of the agent's; at most once; never if not started; any error of Start registers "
                "nothing. False on the pinned tree (F6, K1, K1b, F13, F16: repaired in /repo, each kept as corpus replay); the "
                "L2 exceptions F12 (a response overtaking a failing first Write) and F15 (the same, plus a second Start of the same "
                "id, whose registration the first Start's error path deletes) are known findings with theorems and replays. "
                "Correspondence: exhaustive + random histories, L2 schedules and Do against the real client.",
        "note": CLIENT_NOTE,
        "technique": "Lean 4 conservation invariant over all histories (L1) + history correspondence with predicates",
    },
    "C11": {
        "text": "Proof (L1): every transaction write in every history is byte-identical to the message of the Start that "
                "registered its handler; a retransmission needs a registered transaction with attempts left and an error "
                "event, which the agent emits only strictly after the deadline now+(attempt+1)*rto computed from the RTO "
                "captured at Start; SetRTO leaves the table alone; attempt limit 0 never retransmits; over whole histories a "
                "request is written at most n+1 times (writes_at_most_n_plus_1, potential argument). L2 exception F14 "
                "(one more write after completion when the response overtakes a retransmission inside ClientAgent.Start) is "
                "a known finding with a theorem.",
        "note": CLIENT_NOTE + "That Start copies the caller's message is decided by the correspondence (caller buffer "
                "overwritten after each Start).",
        "technique": "Lean 4 provenance invariant over all histories (L1) + history correspondence with predicates",
    },
    "C12": {
        "text": "Proof (L1): whenever handler h is invoked with an event for id, some Start of the history registered h for "
                "exactly that id (any number of in-flight transactions, any arrival order); the message seen is the "
                "received datagram (first 1024 bytes); unknown ids go to the fallback only; undecodable datagrams are "
                "no-ops. Recycling of pooled transaction objects is below L1: sequential reuse is exercised by the "
                "correspondence over thousands of transactions with fresh pools per case; the concurrent double Put (K1, K1b) "
                "was found by the L2 schedules and repaired.",
        "note": CLIENT_NOTE,
        "technique": "Lean 4 provenance invariant over all histories (L1) + history correspondence with predicates",
    },
    "C15": {
        "text": "Proof (L1): first Close succeeds (nil/CloseErr), closes the connection once iff owned, completes the "
                "transactions in flight with ErrAgentClosed (its only handler invocations), writes nothing; later Closes return ErrClientClosed; after Close every Start/Indicate returns ErrClientClosed "
                "without writing and no operation produces any output. Goroutine exit, deadlock and race freedom are "
                "observed (reader must have left Read when Close returns; concurrent Close/Start/Indicate/SetRTO; Close against "
                "the default ticker collector while transactions keep timing out; -race build), not proved.",
        "note": CLIENT_NOTE,
        "technique": "Lean 4 theorems over the L1 model + history correspondence incl. -race build",
    },
})

META.update({
    "C14": {
        "text": "Proof (partial by nature): for any object whose every method is ONE atomic critical section applying the "
                "sequential step (fixing return value and events), every concurrent execution is explained by the order "
                "of the critical sections and that order respects real time (single_crit_linearizable); with C13 exactly "
                "one concurrent terminator wins. The premise is tied to agent.go by lock facts regenerated on every run. "
                "Runtime half: 2..16 goroutines under -race, every history checked by a linearizability checker against "
                "the sequential spec, watchdog for deadlock, re-entrant handlers.",
        "note": PROOF_NOTE + "Go's memory model / mutex semantics / scheduler are not modelled; race and deadlock freedom are "
                "observations of the -race run, not theorems. porcupine's search is a validation aid, not a proof.",
        "technique": "Lean 4 linearizability theorem for single-critical-section objects + regenerated lock facts + -race linearizability checking",
    },
})

META.update({
    "C20": {
        "text": "Partial proof: Raw is modelled as backing array + length, so 'allocated for Raw' is 'the array had to grow'. "
                "Theorems (all inputs, all setter lists, any earlier state of the object): decoding through every copying "
                "entry point into an object that was used for a message at least as large never moves Raw (and does "
                "otherwise: the accounting is exact); ReadFrom never does; a Build whose result fits the capacity the "
                "object has never moves Raw at any step, including builds that stop at a failing setter; the integrity "
                "check allocates iff the attribute is present and fewer than 20 bytes are spare - so the full statement "
                "is FALSE there (known finding F9, witness theorem). Everything else the property names (Attributes "
                "slice, getter destinations, escape analysis, HMAC pool) is measured with testing.AllocsPerRun on every "
                "generated message and compared with the model's accounting.",
        "note": PROOF_NOTE + "Modelled, not verified: capacity of Attributes and getter destinations, Go escape analysis, "
                "interface boxing, sync.Pool. F10 (keys > 64 bytes allocated in resetTo) was repaired in /repo (ae2654f).",
        "technique": "Lean 4 capacity theorems (induction over setter lists) + AllocsPerRun correspondence on generated messages",
    },
})

NOT_APPLICABLE = {}
