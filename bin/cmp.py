#!/usr/bin/env python3
# dev helper: show first differences between impl and model outputs
import sys
st=sys.argv[1]; k=int(sys.argv[2]) if len(sys.argv)>2 else 5
ops=open(f'build/{st}.ops').read().split('\n'); impl=open(f'build/{st}.impl').read().split('\n'); model=open(f'build/{st}.model').read().split('\n')
c=0
print(len(ops),len(impl),len(model))
for i,(a,b) in enumerate(zip(impl,model)):
    if a!=b:
        print(i, ops[i][:200]); print('  impl ',a[:400]); print('  model',b[:400]); c+=1
        if c>=k: break
print("diffs:", sum(1 for a,b in zip(impl,model) if a!=b))
