"""
Per-property configuration of bin/check: Lean modules and theorem names (proof obligations), correspondence
streams, build-tag sets, evidence rules.
"""


def nt_decode(ops, impl):
    """non-trivial decode case: the input reaches the declared-size guard (>= 20 bytes and cookie) or is derived
    from a valid message (at least one successful or attribute-level result in the case)"""
    for o, r in zip(ops, impl):
        if o.startswith(("DEC", "RAWDEC", "READ", "CLONE")):
            if r.startswith("ok") or r.endswith(("attr-hdr", "attr-val", "msg-size")):
                return True
    return False


def nt_build(ops, impl):
    """non-trivial building sequence: at least two attribute-adding operations whose value lengths have different
    residues mod 4"""
    res = set()
    for o in ops:
        t = o.split()
        if t and t[0] == "ADD":
            v = t[3]
            res.add((0 if v == "-" else len(v) // 2) % 4)
        if t and t[0] in ("SET", "BUILD"):
            res.add("s" + str(len(o) % 4))
    return len(res) >= 2


def nt_any(ops, impl):
    return len([o for o in ops if o and not o.startswith("#")]) >= 2


STREAMS = {
    "msgtype": {"n": {"quick": 1, "thorough": 1}, "nontrivial": None},
    "decode": {"n": {"quick": 4000, "thorough": 150000}, "nontrivial": nt_decode},
    "decode-enum": {"n": {"quick": 11, "thorough": 16}, "nontrivial": nt_decode},
    "build": {"n": {"quick": 1200, "thorough": 20000}, "nontrivial": nt_build},
}

COMMON_TRUSTED = []

PROPS = {
    "C19": {
        "modules": ["Stun.Properties.C19"],
        "theorems": ["Stun.C19.value_eq_rfc", "Stun.C19.value_lt_2_14", "Stun.C19.read_value", "Stun.C19.value_read",
                     "Stun.C19.readValue_eq_rfc", "Stun.C19.readValue_range", "Stun.C19.value_injective",
                     "Stun.C19.value_surjective", "Stun.C19.typeValue_arith", "Stun.C19.readValue_arith"],
        "streams": ["msgtype"],
        "level": "proof",
        "rule": "the complete domain is enumerated: Value() for all 4096x4 (method,class) pairs and ReadValue() for all "
                "65536 wire values, implementation vs model; one case = the whole table (exhaustive)",
        "explanation": "theorems hold for all naturals (no enumeration in the proof); the correspondence stream "
                       "compares implementation and model on the entire finite domain",
    },
    "C01": {
        "modules": ["Stun.Properties.C01"],
        "theorems": ["Stun.C01.decode_no_panic", "Stun.C01.decode_attr_count", "Stun.C01.decode_views",
                     "Stun.C01.decode_isMessage", "Stun.C01.decodeFrom_no_panic", "Stun.C01.readFrom_no_panic",
                     "Stun.C01.setRaw_raw", "Stun.DecodeProofs.decodeRaw_char", "Stun.DecodeProofs.loop_char"],
        "streams": ["decode", "decode-enum"],
        "tagsets": [["verif"], ["verif", "debug"]],
        "level": "proof",
        "rule": "random / structure-aware / mutated inputs through all entry points (Decode, Write, UnmarshalBinary, "
                "GobDecode, ReadFrom, CloneTo, Message.Decode with exact and spare capacity), release and debug tags; "
                "a case is distinct by sha256 of its op text and non-trivial when an input reaches the declared-size "
                "guard or attribute loop",
        "assumptions": ["heap growth and hangs inside Go's append/copy are runtime behaviour, not modelled"],
    },
    "C02": {
        "modules": ["Stun.Properties.C02"],
        "theorems": ["Stun.C02.decode_ok_iff", "Stun.C02.decode_eq_rfcParse", "Stun.C02.msg_decode_eq_rfcParse",
                     "Stun.C02.accepts_iff", "Stun.C02.rfcParse_sound", "Stun.C02.rfcParse_complete",
                     "Stun.C02.get_first", "Stun.C02.get_none_iff", "Stun.C02.contains_iff_mem",
                     "Stun.C02.forEach_restores", "Stun.C02.forEach_visits"],
        "streams": ["decode-enum", "decode"],
        "level": "proof",
        "rule": "every length structure (buffer length x declared length x attribute length fields incl. 0xFFFF and "
                "+-1..3) up to the body bound is enumerated, plus random/mutated inputs with Get/Contains/ForEach "
                "queries; non-trivial = reaches the size guard or attribute loop",
    },
}
