"""
Per-property configuration of bin/check: Lean modules and theorem names (proof obligations), correspondence
streams, build-tag sets, evidence rules.
"""


def nt_decode(ops, impl):
    """non-trivial decode case: the input reaches the declared-size guard (>= 20 bytes and cookie) or is derived
    from a valid message (at least one successful or attribute-level result in the case)"""
    for o, r in zip(ops, impl):
        if o.startswith(("DEC", "RAWDEC", "READ", "CLONE")):
            if r.startswith("ok") or r.endswith(("attr-hdr", "attr-val", "msg-size")):
                return True
    return False


def nt_build(ops, impl):
    """non-trivial building sequence: at least two attribute-adding operations whose value lengths have different
    residues mod 4"""
    res = set()
    for o in ops:
        t = o.split()
        if t and t[0] == "ADD":
            v = t[3]
            res.add((0 if v == "-" else len(v) // 2) % 4)
        if t and t[0] in ("SET", "BUILD"):
            res.add("s" + str(len(o) % 4))
    return len(res) >= 2


def nt_any(ops, impl):
    return len([o for o in ops if o and not o.startswith("#")]) >= 2


def pred_expect_reject(ops, impl):
    """property predicate evaluated on the implementation's own answers: after a line `# expect-reject…`, the next
    decode + check pair must not both succeed (for FINGERPRINT: unless the corrupted message no longer has exactly
    one FINGERPRINT attribute)"""
    bad = []
    for i, o in enumerate(ops):
        if not o.startswith("# expect-reject"):
            continue
        if i + 2 >= len(impl):
            continue
        dec, chk = impl[i + 1], impl[i + 2]
        if dec.startswith("ok") and chk.startswith("ok"):
            if o.startswith("# expect-reject-fp"):
                views = dec.split(" V=", 1)[1].split(" ", 1)[0]
                nfp = sum(1 for v in views.split(";") if v.startswith("32808:"))
                if nfp != 1:
                    continue
            bad.append((i, "corrupted message accepted: " + ops[i + 1][:200]))
    return bad


def pred_roundtrip(ops, impl):
    """C17: formatting an accepted URI and parsing the result must give the same URI"""
    bad = []
    for i, (o, r) in enumerate(zip(ops, impl)):
        if o.startswith("URI roundtrip") and r.startswith("ok same=false"):
            raw = bytes.fromhex(o.split()[2]) if o.split()[2] != "-" else b""
            bad.append((i, "roundtrip differs for " + repr(raw.decode("latin1")) + " -> " + r))
    return bad


def pred_uri_wellformed(ops, impl):
    """C17: every accepted URI has a non-empty host and a port in 0..65535"""
    bad = []
    for i, (o, r) in enumerate(zip(ops, impl)):
        if o.startswith("URI parse") and r.startswith("ok "):
            f = dict(x.split("=", 1) for x in r.split(" || ")[0].split()[1:])
            if f["host"] == "-" or not (0 <= int(f["port"]) <= 65535) or f["scheme"] not in ("stun", "stuns", "turn", "turns"):
                bad.append((i, "accepted URI is not well-formed: " + r))
    return bad


def pred_uri(ops, impl):
    return pred_roundtrip(ops, impl) + pred_uri_wellformed(ops, impl)


CLIENT_RULE = ("real Client + real Agent driven through a scripted connection, manual collector and virtual clock, one "
               "event at a time (reader goroutine synchronised on 'next Read entered'); L2 family: the first "
               "retransmission's Connection.Write blocks on the collector goroutine while up to two other events "
               "(response for the same / another id, garbage, another Start, scripted write failure) run, then the "
               "Write returns with or without error (exhaustive over that alphabet x 3 configurations, and inside the "
               "random histories); fresh client pools per case (hook VerifResetClientPools); all histories to the depth bound "
               "over {Start(2 ids differing in one bit), Indicate, response, garbage, tick at / just after the deadline, "
               "scripted write failure, Close} for 3 configurations (exhaustive), plus long random histories (<= 125 "
               "events, <= 12 ids, attempts 0..8, RTO changes); Do with the response inside Write / after Do waits / inside a Write "
               "that then fails (dofail, dolate); two collector calls at once (ticks2); the default ticker collector with a "
               "clock of the client's own, standing still or running ahead (realclock); non-trivial = every case (each has "
               "a Start or a Close)")


def _client_case(ops, impl):
    """replays one client history from the implementation's answers; yields facts used by the C10/C11/C12/C15 predicates"""
    st = {"att": 7, "noclose": False, "closed": False, "started": {}, "calls": {}, "viol": [], "connclose": 0,
          "delivered": [], "pending_at_close": set()}
    for i, (o, r) in enumerate(zip(ops, impl)):
        t = o.split()
        if len(t) < 2 or t[0] != "CL":
            continue
        f = dict(x.split("=", 1) for x in r.split() if "=" in x)
        wr = [] if f.get("wr", "-") == "-" else f["wr"].split(",")
        cb = [] if f.get("cb", "-") == "-" else f["cb"].split(",")
        if t[1] == "new":
            st.update(att=int(t[3]), noclose=t[4] == "1", closed=False, started={}, calls={}, connclose=0, delivered=[],
                      pending_at_close=set())
            continue
        st["connclose"] += int(f.get("connclose", "0"))
        if st["closed"] and (wr or cb):
            st["viol"].append((i, "C15", "write or handler invocation after Close returned: " + r[:120]))
        if t[1] == "deliver":
            st["delivered"].append(t[2])
        if "reader" in f and f["reader"] != "exited":
            st["viol"].append((i, "C15", "Close returned while the reader goroutine was still inside Read: " + r[:120]))
        if t[1] == "conc":
            want = 0 if st["closed"] else 1
            if int(f.get("closes", -1)) != want:
                st["viol"].append((i, "C15", f"{f.get('closes')} of the concurrent Close calls succeeded, expected {want}"))
            if not st["closed"]:
                st["closed"] = True
                st["pending_at_close"] = {h for h, s_ in st["started"].items() if s_["ok"] and h not in st["calls"]}
                wantc = 0 if st["noclose"] else 1
                if st["connclose"] != wantc:
                    st["viol"].append((i, "C15", f"connection closed {st['connclose']} times, expected {wantc}"))
            # (the handler completions reported on this line are accounted below)
        if t[1] == "dolate":   # Do whose response arrives after Do has started waiting
            if f.get("do") == "returned-before-its-response-arrived":
                st["viol"].append((i, "C10", f"Do returned nil before its response had arrived (h{t[5]}): a wait handler left "
                                   "'already processed' in the pool by an earlier Do whose Start failed"))
            t = ["CL", "do"] + t[2:]
        if t[1] == "dofail":   # Do on the F12 schedule: response handled inside Start's first Write, which then fails
            st["delivered"].append(t[4])
            if f.get("ret") not in ("ok", None) and any(c_.split(":", 2)[0] == "h" + t[5] for c_ in cb):
                st["f12"] = st.get("f12", set()) | {t[5]}
                st["viol"].append((i, "C10", f"Start returned an error ({f['ret']}) after its handler h{t[5]} had already "
                                   "been invoked: the response arrived while Start was inside Connection.Write, "
                                   "which then failed"))
            t = ["CL", "start", t[2], t[3], t[5]]
        if t[1] == "do":
            st["delivered"].append(t[4])
            if f.get("do") == "before-callback":
                st["viol"].append((i, "C10", f"Do returned before its callback had finished (h{t[5]})"))
            if r.startswith("do-hang"):
                st["viol"].append((i, "C10", f"Do did not return although its response was delivered (h{t[5]})"))
            t = ["CL", "start", t[2], t[3], t[5]]
        if t[1] == "startb":   # L2: Start suspended in its first Write; it returns at the next `release`
            pend = f.get("ret") == "pending"
            st["started"][t[4]] = {"id": t[2], "raw": t[3], "ok": pend, "writes": len(wr), "at": i, "pending": pend}
            if any(w != t[3] for w in wr) or len(wr) > 1:
                st["viol"].append((i, "C11", "Start wrote something other than the message once"))
            wr = []
        if t[1] == "release" and "sret" in f:
            for h, s_ in st["started"].items():
                if s_.get("pending"):
                    s_["pending"] = False
                    if f["sret"] != "ok":
                        if h in st["calls"]:
                            st["viol"].append((i, "C10", f"Start returned an error ({f['sret']}) after its handler h{h} had already "
                                               "been invoked: the response arrived while Start was inside Connection.Write, "
                                               "which then failed"))
                        else:
                            s_["ok"] = False
                        # the error path of Start deletes by id: a transaction started meanwhile under the same id
                        # loses its registration (F15)
                        for h2, s2 in st["started"].items():
                            if h2 != h and s2["id"] == s_["id"] and s2["ok"] and h2 not in st["calls"] and s2["at"] > s_["at"]:
                                s2["lost_by"] = h
        if t[1] == "start":
            ok = f.get("ret") == "ok"
            if st["closed"] and (f.get("ret") != "client-closed" or wr):
                st["viol"].append((i, "C15", "Start after Close: " + r[:80]))
            if t[4] != "-":
                st["started"][t[4]] = {"id": t[2], "raw": t[3], "ok": ok, "writes": len(wr), "at": i}
            if any(w != t[3] for w in wr) or len(wr) > 1:
                st["viol"].append((i, "C11", "Start wrote something other than the message once"))
            wr = []   # the write of a Start / Indicate belongs to that call
        # L2: is the collector suspended inside ClientAgent.Start of a retransmission (op blockagent)?
        if t[1] == "blockagent":
            st["agent_block"] = t[2]
        if t[1] == "tick2":
            st["asusp"] = st.pop("agent_block", None) if int(f.get("blocked", "0")) > 0 else None
            st.pop("agent_block", None)
            st["asusp_done"] = False
        if st.get("asusp") and t[1] not in ("tick2", "release"):
            if any(c_.split(":", 2)[1] == st["asusp"] and not c_.startswith("fb:") for c_ in cb):
                st["asusp_done"] = True
        for w in wr:
            wid = w[16:40]
            if not any(s_["id"] == wid and s_["ok"] and h not in st["calls"] for h, s_ in st["started"].items()):
                late = [h for h, s_ in st["started"].items() if s_["id"] == wid and s_["ok"] and h in st["calls"] and s_["raw"] == w]
                if late:
                    if t[1] == "release" and st.get("asusp") == wid and st.get("asusp_done"):
                        st["viol"].append((i, "C11", f"request of h{late[-1]} written again after the transaction had completed: the "
                                           "response overtook a retransmission that was inside ClientAgent.Start"))
                    else:
                        st["viol"].append((i, "C11", f"request of h{late[-1]} written again after the transaction had completed"))
        if t[1] == "release":
            st["asusp"] = None
        for w in wr:
            wid = w[16:40]
            for h, s_ in st["started"].items():
                if s_["id"] == wid and s_["ok"] and h not in st["calls"]:
                    s_["writes"] += 1
                    if w != s_["raw"]:
                        st["viol"].append((i, "C11", f"write for handler h{h} differs from the message given to Start"))
                    if s_["writes"] > st["att"] + 1:
                        st["viol"].append((i, "C11", f"more than attempts+1 writes for h{h}"))
        for c in cb:
            name, cid, kind = c.split(":", 2)
            if name == "fb":
                continue
            h = name[1:]
            st["calls"][h] = st["calls"].get(h, 0) + 1
            s_ = st["started"].get(h)
            if st["calls"][h] > 1:
                st["viol"].append((i, "C10", f"handler h{h} invoked twice"))
            if h in st.get("f12", ()):
                pass   # reported above as the F12 schedule
            elif s_ is None or not s_["ok"]:
                st["viol"].append((i, "C10", f"handler h{h} invoked although Start returned an error"))
            elif s_["id"] != cid:
                st["viol"].append((i, "C12", f"handler h{h} (id {s_['id']}) received an event for id {cid}"))
            elif kind.startswith("msg:"):
                raw = kind[4:].split("/")[0]
                if not any(d[:2048] == raw for d in st["delivered"]):
                    st["viol"].append((i, "C12", f"handler h{h} saw a message that is not a delivered datagram"))
        if t[1] == "close" and f.get("ret") in ("ok", "close-err") and not st["closed"]:
            st["closed"] = True
            st["pending_at_close"] = {h for h, s_ in st["started"].items() if s_["ok"] and h not in st["calls"]}
            want = 0 if st["noclose"] else 1
            if st["connclose"] != want:
                st["viol"].append((i, "C15", f"connection closed {st['connclose']} times, expected {want}"))
        elif t[1] == "close" and st["closed"] and f.get("ret") != "client-closed":
            st["viol"].append((i, "C15", "second Close did not return ErrClientClosed"))
    # end of history: every successfully started handler must have been invoked exactly once
    if st["closed"]:
        for h, s_ in st["started"].items():
            if s_["ok"] and h not in st["calls"]:
                why = "pending-at-Close" if h in st["pending_at_close"] else "never completed"
                if s_.get("lost_by"):
                    st["viol"].append((s_["at"], "C10", f"handler h{h} never invoked although its Start returned nil: its "
                                       f"registration was deleted by the failing first Write of an earlier Start (h{s_['lost_by']}) "
                                       "of the same transaction id, whose response had arrived while that Write was in flight"))
                else:
                    st["viol"].append((s_["at"], "C10", f"handler h{h} never invoked ({why}) id={s_['id']}"))
    return st["viol"]


def pred_alloc(ops, impl):
    """C20: every measured operation on warm objects performs zero heap allocations"""
    bad = []
    for i, (o, r) in enumerate(zip(ops, impl)):
        if not o.startswith("ALLOC "):
            continue
        f = dict(x.split("=", 1) for x in r.split() if "=" in x)
        if "allocs" not in f:
            bad.append((i, "no allocation count reported for " + o[:60] + ": " + r[:80]))
        elif f["allocs"] != "0":
            t = o.split()
            if t[1] == "check" and t[3] == "mi" and f.get("spare20") == "false":
                bad.append((i, f"integrity check allocates ({f['allocs']}/run) with fewer than 20 spare bytes behind Raw"))
            elif t[1] == "build" and any(x.startswith("ua:") and x.count(",") >= 20 for x in t[3].split("+")):
                bad.append((i, f"Build with an UNKNOWN-ATTRIBUTES setter of more than 20 entries allocates ({f['allocs']}/run)"))
            else:
                bad.append((i, f"{f['allocs']} allocation(s) per run in steady state: {o[:80]}"))
    return bad


def pred_client(prop):
    def p(ops, impl):
        return [(i, why) for (i, pr, why) in _client_case(ops, impl) if pr == prop]
    return p


STREAMS = {
    "msgtype": {"n": {"quick": 1, "thorough": 1}, "nontrivial": None},
    "decode": {"n": {"quick": 4000, "thorough": 150000}, "nontrivial": nt_decode},
    "decode-enum": {"n": {"quick": 11, "thorough": 16}, "nontrivial": nt_decode},
    "build": {"n": {"quick": 500, "thorough": 1000}, "nontrivial": nt_build},
    "agent-seq": {"n": {"quick": 3, "thorough": 4}, "nontrivial": None},
    "attrs-valid": {"n": {"quick": 1500, "thorough": 60000}, "nontrivial": nt_any},
    "attrs-malformed": {"n": {"quick": 1, "thorough": 30}, "nontrivial": nt_any},
    "hmac-hist": {"n": {"quick": 400, "thorough": 20000}, "nontrivial": nt_any},
    "uri-exh": {"n": {"quick": 3, "thorough": 5}, "nontrivial": nt_any, "predicate": pred_uri, "predicate_props": ["C17"]},
    "uri-grammar": {"n": {"quick": 6000, "thorough": 400000}, "nontrivial": nt_any, "predicate": pred_uri,
                    "predicate_props": ["C17"]},
    "uri-std": {"n": {"quick": 3000, "thorough": 200000}, "nontrivial": nt_any},
    "uri-dial": {"n": {"quick": 1, "thorough": 1}, "nontrivial": None},
    "agent-conc": {"n": {"quick": 30, "thorough": 600}, "nontrivial": None},
    "client-hist": {"n": {"quick": 3, "thorough": 4}, "nontrivial": None, "timeout": 3000},
    "alloc": {"n": {"quick": 400, "thorough": 20000}, "nontrivial": nt_any, "predicate": pred_alloc, "timeout": 3000},
    "client-conc": {"n": {"quick": 60, "thorough": 2000}, "nontrivial": None, "timeout": 3000},
    "integrity": {"n": {"quick": 150, "thorough": 6000}, "nontrivial": nt_any, "predicate": pred_expect_reject},
    "fingerprint": {"n": {"quick": 100, "thorough": 5000}, "nontrivial": nt_any, "predicate": pred_expect_reject},
}


def nt_agent(ops, impl):
    """non-trivial agent history: at least one successful Start and one terminal event"""
    started = any(o.startswith("AG start") and r.startswith("ret=ok") for o, r in zip(ops, impl))
    term = any(("stopped" in r or "timeout" in r or ":closed" in r or ":msg" in r) for r in impl)
    return started and term


STREAMS["agent-seq"]["nontrivial"] = nt_agent

COMMON_TRUSTED = []

PROPS = {
    "C19": {
        "modules": ["Stun.Properties.C19"],
        "theorems": ["Stun.C19.value_eq_rfc", "Stun.C19.value_lt_2_14", "Stun.C19.read_value", "Stun.C19.value_read",
                     "Stun.C19.readValue_eq_rfc", "Stun.C19.readValue_range", "Stun.C19.value_injective",
                     "Stun.C19.value_surjective", "Stun.C19.typeValue_arith", "Stun.C19.readValue_arith",
                     "Stun.C19.value_out_of_domain", "Stun.C19.value_lt_2_14_any", "Stun.C19.read_value_any"],
        "streams": ["msgtype"],
        "level": "proof",
        "rule": "the complete domain is enumerated: Value() for all 4096x4 (method,class) pairs and ReadValue() for all "
                "65536 wire values, implementation vs model; one case = the whole table (exhaustive)",
        "explanation": "theorems hold for all naturals (no enumeration in the proof); the correspondence stream "
                       "compares implementation and model on the entire finite domain",
    },
    "C01": {
        "modules": ["Stun.Properties.C01"],
        "theorems": ["Stun.C01.decode_no_panic", "Stun.C01.decode_attr_count", "Stun.C01.decode_views",
                     "Stun.C01.decode_isMessage", "Stun.C01.decodeFrom_no_panic", "Stun.C01.readFrom_no_panic",
                     "Stun.C01.setRaw_raw", "Stun.DecodeProofs.decodeRaw_char", "Stun.DecodeProofs.loop_char"],
        "streams": ["decode", "decode-enum"],
        "tagsets": [["verif"], ["verif", "debug"]],
        "level": "proof",
        "rule": "random / structure-aware / mutated inputs through all entry points (Decode, Write, UnmarshalBinary, "
                "GobDecode, ReadFrom, CloneTo, Message.Decode with exact and spare capacity), release and debug tags; "
                "a case is distinct by sha256 of its op text and non-trivial when an input reaches the declared-size "
                "guard or attribute loop",
        "assumptions": ["heap growth and hangs inside Go's append/copy are runtime behaviour, not modelled"],
    },
    "C02": {
        "modules": ["Stun.Properties.C02"],
        "theorems": ["Stun.C02.decode_ok_iff", "Stun.C02.decode_eq_rfcParse", "Stun.C02.msg_decode_eq_rfcParse",
                     "Stun.C02.accepts_iff", "Stun.C02.rfcParse_sound", "Stun.C02.rfcParse_complete",
                     "Stun.C02.get_first", "Stun.C02.get_none_iff", "Stun.C02.contains_iff_mem",
                     "Stun.C02.forEach_restores", "Stun.C02.forEach_visits"],
        "streams": ["decode-enum", "decode"],
        "level": "proof",
        "rule": "every length structure (buffer length x declared length x attribute length fields incl. 0xFFFF and "
                "+-1..3) up to the body bound is enumerated, plus random/mutated inputs with Get/Contains/ForEach "
                "queries; non-trivial = reaches the size guard or attribute loop",
    },
    "C03": {
        "modules": ["Stun.Properties.C03"],
        "theorems": ["Stun.C03.build_canonical", "Stun.C03.op_preserves_canonical", "Stun.C03.writeHeader_preserves",
                     "Stun.C03.writeLength_preserves", "Stun.C03.ops_canonical", "Stun.C03.canonical_wellformed",
                     "Stun.C03.canonical_decode", "Stun.C03.equal_agrees", "Stun.C03.encode_canonical",
                     "Stun.C03.decode_then_encode", "Stun.BuildProofs.encode_of_canonical",
                     "Stun.BuildProofs.fold_add_canonical", "Stun.BuildProofs.add_spec",
                     "Stun.BuildProofs.canonical_add", "Stun.BuildProofs.integrity_canonical",
                     "Stun.BuildProofs.fingerprint_canonical", "Stun.BuildProofs.writeHeader_spec"],
        "streams": ["build"],
        "tagsets": [["verif"], ["verif", "debug"]],
        "level": "proof",
        "rule": "random building sequences (Build with typed/integrity/fingerprint setters, WriteHeader, Encode, Add, "
                "SetType, transaction-ID setters) from Build / WriteHeader / decoded starts, values of every residue "
                "mod 4 up to 3000 bytes; after the steps the raw bytes are re-decoded by the library (CloneTo) and "
                "compared with Equal in both directions; non-trivial = at least two attribute-adding operations of "
                "different shape",
        "explanation": "encode_canonical (Encode from a decoded, non-zero-padded message) is modelled and checked by "
                       "correspondence only; its theorem is not proved yet (see DESIGN)",
    },
    "C08": {
        "modules": ["Stun.Properties.C08"],
        "theorems": ["Stun.C08.add_independent_of_spare", "Stun.C08.decodeFrom_independent",
                     "Stun.C08.build_independent", "Stun.BuildProofs.setter_sameObs", "Stun.BuildProofs.add_spec"],
        "streams": ["build", "decode"],
        "level": "proof",
        "rule": "sequences (previous use, next use) of decodes and builds of different sizes on message objects whose "
                "buffers are pre-filled with a poison pattern; caller buffers are overwritten with 0xEE after every "
                "Add/Build/Decode/Write/UnmarshalBinary/ReadFrom; the value-semantic model must still agree",
        "assumptions": ["aliasing of caller memory cannot be stated in a value-semantic model: decided by the "
                        "correspondence only"],
    },
    "C09": {
        "modules": ["Stun.Properties.C09"],
        "theorems": ["Stun.C09.text_accept_iff", "Stun.C09.text_reject_kind", "Stun.C09.ip_accept_iff",
                     "Stun.C09.errorCode_reason_iff", "Stun.C09.errorCodeDefault_accept_iff",
                     "Stun.C09.integrity_after_fp_refused", "Stun.C09.integrity_accepted_without_fp",
                     "Stun.C09.setter_fail_atomic", "Stun.C09.build_first_error", "Stun.C09.checkOverflow_iff"],
        "streams": ["build"],
        "tagsets": [["verif"], ["verif", "debug"]],
        "level": "proof",
        "rule": "setters with values on both sides of every limit (text 0..limit+300, IP lengths 0..20, error codes "
                "0..999, integrity after fingerprint) inside random building sequences; the full message state is "
                "dumped after every call, failing or not",
    },
    "C13": {
        "modules": ["Stun.Properties.C13"],
        "theorems": ["Stun.C13.fresh_history", "Stun.C13.closed_forever", "Stun.C13.collect_twice", "Stun.C13.exactly_one_terminal", "Stun.C13.step_spec", "Stun.C13.inv_init", "Stun.C13.after_close",
                     "Stun.C13.start_ok_iff", "Stun.C13.stop_spec", "Stun.C13.process_spec", "Stun.C13.collect_spec",
                     "Stun.C13.close_spec"],
        "streams": ["agent-seq"],
        "level": "proof",
        "rule": "all call sequences to the depth bound over 3 ids (two differing in one bit), deadlines on both sides "
                "of 4 collect times, SetHandler and Close (exhaustive), plus long random sequences (<= 2000 calls, "
                "<= 64 ids); return value and sorted events per call; non-trivial = a successful Start and a "
                "terminal event",
    },
    "C06": {
        "modules": ["Stun.Properties.C06"],
        "theorems": ["Stun.C06.xor_add_eq_rfc", "Stun.C06.mapped_add_eq_rfc", "Stun.C06.errorCode_add_eq_rfc",
                     "Stun.C06.unknown_add_eq_rfc", "Stun.C06.text_add", "Stun.C06.addrFamily_mapped",
                     "Stun.C06.xorGet_rfc", "Stun.C06.mappedGet_rfc", "Stun.C06.errorCodeGet_rfc",
                     "Stun.C06.unknownGet_rfc", "Stun.C06.textGet", "Stun.C06.decXor_encXor",
                     "Stun.C06.decMapped_encMapped", "Stun.C06.decErrorCode_enc", "Stun.C06.decUnknown_enc",
                     "Stun.C06.get_after_add"],
        "streams": ["attrs-valid", "build"],
        "level": "proof",
        "rule": "every typed attribute with valid values (ports incl. 0/0x2112/65535, IPv4/IPv6/IPv4-mapped, random "
                "transaction ids, text up to the limits, codes 300..699, lists of 0..64 types): library setter -> "
                "wire -> library re-decode -> library getter, and an independent RFC encoder (in the generator) -> "
                "library getter; the model side is the Lean RFC spec",
    },
    "C07": {
        "modules": ["Stun.Properties.C07"],
        "theorems": ["Stun.C07.xorGet_no_panic", "Stun.C07.mappedGet_no_panic", "Stun.C07.textGet_no_panic",
                     "Stun.C07.errorCodeGet_no_panic", "Stun.C07.unknownGet_no_panic",
                     "Stun.C07.fingerprintCheck_no_panic", "Stun.C07.xorGet_local", "Stun.C07.mappedGet_local",
                     "Stun.C07.textGet_local", "Stun.C07.errorCodeGet_local", "Stun.C07.unknownGet_local",
                     "Stun.C07.fingerprintCheck_local", "Stun.C07.get_local"],
        "streams": ["attrs-malformed"],
        "tagsets": [["verif"], ["verif", "debug"]],
        "level": "proof",
        "rule": "every getter/checker x value length 0..40 (exhaustive) x position first/middle/last x capacity exact/"
                "+1/+2/+19/+20/+64 x surroundings zero/0xFF/random (three twin messages differing only outside the "
                "value); short values (<=5) with every position x capacity combination; message dumped after the call",
    },
    "C04": {
        "modules": ["Stun.Properties.C04", "Stun.Properties.C09"],
        "theorems": ["Stun.C04.check_spec", "Stun.C04.check_iff", "Stun.C04.check_no_panic", "Stun.C04.check_pure",
                     "Stun.C04.wrong_mac_rejected", "Stun.C04.check_ignores_suffix", "Stun.C04.sign_then_check",
                     "Stun.C04.sizeReduced_false", "Stun.C09.integrity_after_fp_refused"],
        "streams": ["integrity"],
        "tagsets": [["verif"], ["verif", "debug"]],
        "level": "proof",
        "rule": "signed messages built WITHOUT the library (crypto/hmac in the generator): 0..8 attributes before the MAC, "
                "0..4 after it (every residue), keys 0..200 bytes incl. > 64 and MD5 long-term keys; every single-bit "
                "flip of short messages, random flips of longer ones (predicate: a flip of a covered byte or of the MAC "
                "must not verify); wrong/short/long MAC attributes; library signing + re-decode + check; refusal "
                "after FINGERPRINT; the Lean side computes HMAC-SHA1 with its own RFC 2104/3174 implementation",
        "assumptions": ["HMAC collision resistance (tamper detection is proved as: rejected iff the MAC over the "
                        "covered span differs)"],
    },
    "C05": {
        "modules": ["Stun.Properties.C05", "Stun.Properties.C05Burst", "Stun.Properties.C07"],
        "theorems": ["Stun.C05.fp_addTo_value", "Stun.C05.fp_check_iff", "Stun.C05.fp_add_then_check",
                     "Stun.C07.fingerprintCheck_no_panic", "Stun.C05.crcStep_xor", "Stun.C05.crcStep_inj",
                     "Stun.C05.crcStep_back", "Stun.C05.diff_small", "Stun.C05.crcBits_burst", "Stun.C05.crc32_burst",
                     "Stun.C05.singleBit_burst", "Stun.C05.fp_detects_burst_in_covered",
                     "Stun.C05.fp_detects_value_change"],
        "streams": ["fingerprint"],
        "tagsets": [["verif"], ["verif", "debug"]],
        "level": "proof",
        "rule": "fingerprinted messages built without the library (hash/crc32 in the generator), with and without "
                "MESSAGE-INTEGRITY-like attributes before; every bit position of short messages, random single bits "
                "and bursts of <= 32 bits (CRC bit order) of longer ones (predicate: must be rejected while FINGERPRINT "
                "stays the only such attribute); FINGERPRINT attributes of any length/position; CRC-32 values against "
                "hash/crc32",
    },
    "C18": {
        "modules": ["Stun.Properties.C18"],
        "theorems": ["Stun.C18.resetTo_establishes", "Stun.C18.new_good", "Stun.C18.write_good", "Stun.C18.sum_good",
                     "Stun.C18.reset_good", "Stun.C18.sum_eq_spec", "Stun.C18.acquire_then_ops", "Stun.C18.write_append",
                     "Stun.C18.hmacSpec_eq_rfc"],
        "streams": ["hmac-hist"],
        "tagsets": [["verif"], ["verif", "race"]],
        "level": "proof",
        "rule": "histories of acquire(key)/write*/sum/reset/put on up to 3 live pooled objects, keys 0..300 bytes on both "
                "sides of the 64-byte block, messages 0..4096 bytes in random chunkings, SHA-1 and SHA-256, objects "
                "returned to the pool and re-acquired with other keys; digests compared byte for byte with the Lean "
                "RFC 2104 / SHA implementation; plus 8- and 2-goroutine concurrent pool use compared with crypto/hmac "
                "(also under -race)",
        "assumptions": ["sync.Pool hands one object to one taker at a time", "hash MarshalBinary/UnmarshalBinary "
                        "round-trips the absorbed state"],
    },
    "C16": {
        "modules": ["Stun.Properties.C16"],
        "theorems": ["Stun.C16.parseURI_total", "Stun.C16.no_second_retry", "Stun.C16.retry_once",
                     "Stun.C16.missing_port_forever", "Stun.C16.lastIndex_spec"],
        "streams": ["uri-exh", "uri-grammar", "uri-std"],
        "level": "proof",
        "rule": "all strings over a 20-symbol alphabet of URI-significant characters up to the length bound after each "
                "scheme prefix (exhaustive), random / grammar-mutated strings incl. non-ASCII, control characters and "
                "5000-byte inputs; the library runs in a worker process with a 64 MiB stack limit - a crash of the "
                "worker is the failing input; SplitHostPort / url.Parse / ParseQuery / Atoi compared function by function",
        "assumptions": ["Go stack depth as such is runtime; the model's recursion depth <= 1 is the logical content"],
    },
    "C17": {
        "modules": ["Stun.Properties.C17", "Stun.Proofs.URIRoundTrip", "Stun.Properties.C17RoundTrip"],
        "theorems": ["Stun.C17.accepted_wellformed", "Stun.C17.accepted_wellformed_aux", "Stun.C17.parseProto_spec",
                     "Stun.C17.dial_plan_table", "Stun.C17.secure_never_plain", "Stun.C17.roundtrip_fails_on_slash_host",
                     "Stun.C17.roundtrip_accepted", "Stun.C17.roundtrip", "Stun.C17.roundtrip_regname",
                     "Stun.C17.roundtrip_idempotent", "Stun.C17.accepted_host_chars", "Stun.C17.atoi_itoa",
                     "Stun.C17.splitHostPort_join", "Stun.C17.splitHostPort_join_bracket", "Stun.C17.splitHostPort_host",
                     "Stun.C17.urlParse_rootless", "Stun.C17.urlParse_opq_chars", "Stun.C17.parseProto_transport"],
        "streams": ["uri-grammar", "uri-exh", "uri-dial"],
        "level": "proof",
        "rule": "grammar-generated URIs (4 schemes x reg-name / IPv4 / bracketed IPv6 / zone hosts x absent / boundary / "
                "out-of-range / signed ports x absent / valid / invalid / repeated / extra / escaped query keys) and "
                "mutations, plus the exhaustive alphabet strings; predicates on the implementation: accepted URIs are "
                "well-formed and round-trip through String(); DialURI with an injected recording network for all 5x3 "
                "scheme/transport values x IPv4 / IPv6 / name hosts (first bytes written: STUN header vs TLS/DTLS "
                "ClientHello)",
        "explanation": "string round trip: roundtrip_accepted proves parseURI(String(u)) = u for EVERY u that parseURI "
                       "returns for any input string, except hosts of the F8 shape (no ':' and a leading '/'), for "
                       "which the statement is false (known finding F8, refuted on a concrete URI in Lean and reported "
                       "as KNOWN-FINDING by the predicate). Lemmas: atoi_itoa, splitHostPort_join(_bracket), "
                       "urlParse_rootless, parseProto_transport (format then parse), urlParse_opq_chars, "
                       "splitHostPort_host, accepted_host_chars (what an accepted host can contain). The theorem is "
                       "about the model of net/url, net and strconv; the correspondence ties that model to the "
                       "implementation function by function",
    },
    "C10": {
        "modules": ["Stun.Properties.C10", "Stun.Properties.C10L2", "Stun.Proofs.ClientSync", "Stun.Proofs.ClientL2Acct"],
        "theorems": ["Stun.C10.handler_at_most_once", "Stun.C10.never_started_never_invoked",
                     "Stun.C10.start_error_not_registered", "Stun.C10.start_error_never_registers",
                     "Stun.C10.invoked_xor_pending", "Stun.C10.closed_callback", "Stun.C10.exactly_once_by_close",
                     "Stun.C10.close_leaves_nothing_registered", "Stun.C10.tables_synchronised",
                     "Stun.ClientProofs.run_sinv", "Stun.ClientProofs.close_clears", "Stun.ClientProofs.callback_sync", "Stun.C10L2.step2_l1", "Stun.C10L2.run2_l1", "Stun.C10L2.k1_history",
                     "Stun.C10L2.k1_history_other_start_untouched", "Stun.C10L2.blocked_write_failure_alone",
                     "Stun.C10L2.f12_start_error_after_handler_ran", "Stun.C10L2.start_blocked_failure_alone",
                     "Stun.C10L2.f15_same_id_restart_loses_handler",
                     "Stun.C10L2.k1b_history", "Stun.C10L2.agent_start_failure_alone", "Stun.C10L2.agent_start_ok_alone",
                     "Stun.C10L2.l2_handler_at_most_once", "Stun.C10L2.l2_never_started_never_invoked",
                     "Stun.C10L2.l2_invocation_from_start", "Stun.ClientProofs.run2_spec", "Stun.ClientProofs.step2_spec",

                     "Stun.Client.retransmit_split", "Stun.Client.start_split", "Stun.ClientProofs.run_spec", "Stun.ClientProofs.run_eq",
                     "Stun.ClientProofs.callback_spec", "Stun.ClientProofs.retransmit_spec"],
        "streams": ["client-hist", "client-conc"], "level": "proof", "predicate": pred_client("C10"),
        "tagsets": [["verif"], ["verif", "race"]],
        "rule": CLIENT_RULE + "; Client.Do with the response handled while Start is still inside Write and a callback that "
                "takes 10 ms: Do must return, and only after the callback finished",
        "explanation": "the full statement is a theorem at L1 (exactly_once_by_close); at L2 the clause 'if Start returns an "
                       "error the handler is never invoked' fails on one schedule (known finding F12, theorem + replay)",
    },
    "C11": {
        "modules": ["Stun.Properties.C11", "Stun.Properties.C10L2", "Stun.Proofs.ClientL2Writes", "Stun.Properties.C11L2"],
        "theorems": ["Stun.C11.writes_bit_identical", "Stun.C11.retransmit_guard", "Stun.C11.no_retransmit_before_deadline",
                     "Stun.C11.nextTimeout_formula", "Stun.C11.setRTO_only_later", "Stun.C11.no_retransmit_when_disabled", "Stun.C11.writes_at_most_n_plus_1",
                     "Stun.ClientProofs.run_budget", "Stun.ClientProofs.retransmit_budget", "Stun.ClientProofs.start_budget",
                     "Stun.C10L2.run2_l1", "Stun.C10L2.f14_write_after_completion",
                     "Stun.C11L2.l2_writes_at_most_n_plus_1", "Stun.ClientProofs.run2_budget"],
        "streams": ["client-hist"], "level": "proof", "predicate": pred_client("C11"),
        "rule": CLIENT_RULE + "; message sizes 20..65535 incl. both sides of the former 2048-byte scratch buffer; the "
                "caller's message is overwritten after every Start",
    },
    "C12": {
        "modules": ["Stun.Properties.C12", "Stun.Properties.C10L2", "Stun.Proofs.ClientL2Msg", "Stun.Properties.C12L2"],
        "theorems": ["Stun.C12.delivery_by_id", "Stun.C12.message_is_datagram", "Stun.C12.unknown_to_fallback_only",
                     "Stun.C12.garbage_is_noop", "Stun.C12.reader_message_is_decode",
                     "Stun.C10L2.run2_l1", "Stun.C10L2.k1_history_other_start_untouched",
                     "Stun.C12L2.l2_message_is_datagram_of_same_id", "Stun.C10L2.l2_invocation_from_start",
                     "Stun.ClientProofs.run2_msg", "Stun.ClientProofs.step2_msg"],
        "streams": ["client-hist"], "level": "proof", "predicate": pred_client("C12"),
        "rule": CLIENT_RULE + "; ids differing in one bit, datagrams longer than the 1024-byte reader buffer, unknown ids "
                "and garbage interleaved",
    },
    "C15": {
        "modules": ["Stun.Properties.C15"],
        "theorems": ["Stun.C15.close_once", "Stun.C15.after_close_rejects", "Stun.C15.no_output_after_close",
                     "Stun.C15.close_establishes", "Stun.C15.closed_forever", "Stun.C15.nothing_after_close",
                     "Stun.C15.start_after_close_rejected", "Stun.C15.step_no_connClose",
                     "Stun.C15.conn_closed_at_most_once", "Stun.C15.step_closeConn", "Stun.C15.conn_close_ownership",
                     "Stun.C15.new_client_closes_once"],
        "streams": ["client-hist", "client-conc"], "level": "proof", "predicate": pred_client("C15"),
        "tagsets": [["verif"], ["verif", "race"]],
        "rule": CLIENT_RULE + "; option combinations default / WithNoConnClose / fallback handler / no-retransmit, agent and "
                "connection Close errors, several Close calls; under WithNoConnClose the scripted Read is interrupted "
                "only a moment after Close was called (a Close that returns earlier did not wait for the reader); "
                "stream client-conc: 2..16 goroutines race >= 2 Close calls with Start/Indicate/SetRTO (collector Close "
                "takes 2 ms so that the calls overlap), exactly one Close may succeed and the connection is closed once; "
                "also built with -race",
        "assumptions": ["goroutine exit, data races and deadlocks are runtime facts (harness: Close must return within "
                        "20 s; -race build), not theorems"],
    },
    "C20": {
        "modules": ["Stun.Properties.C20"],
        "theorems": ["Stun.C20.decode_warm", "Stun.C20.decode_cold", "Stun.C20.decode_cap", "Stun.C20.decode_steady",
                     "Stun.C20.readFrom_never", "Stun.C20.build_warm", "Stun.C20.integrityCheck_alloc_iff",
                     "Stun.C20.integrityCheck_warm", "Stun.C20.integrityCheck_allocates_without_spare",
                     "Stun.C20.setterExtra_iff", "Stun.C20.unknownAttrs_21_allocates",
                     "Stun.BuildProofs.build_cap", "Stun.BuildProofs.setter_cap", "Stun.BuildProofs.add_cap"],
        "streams": ["alloc"],
        "level": "proof",
        "rule": "generated well-formed messages with 0..16 attributes of every supported type and sizes up to the "
                "attribute limits, keys of 0..200 bytes, optional MESSAGE-INTEGRITY / FINGERPRINT; per message: "
                "testing.AllocsPerRun (GC off while measuring) of Build with pre-boxed setters into a warm builder, "
                "CloneTo / Write / Decode / UnmarshalBinary / GobDecode / ReadFrom into a warm object with 0..700 spare "
                "bytes, Get+Contains of every attribute, all 13 typed getters into warm (optionally dirty) "
                "destinations, integrity and fingerprint checks; the model's capacity accounting is compared line by "
                "line and the zero-allocation predicate is evaluated on the implementation's numbers; a case is "
                "non-trivial when it measured at least one operation",
        "assumptions": ["testing.AllocsPerRun counts mallocs of the whole process on one P; the collector is switched off "
                        "during a measurement so that sync.Pool refills after a GC are not counted",
                        "escape analysis, interface boxing and pool behaviour are properties of the Go toolchain in this "
                        "sandbox (go1.26), observed, not proved"],
        "explanation": "partial: the theorems cover the capacity logic of Raw (no growth once used for a message at least as "
                       "large, for all inputs and setter lists); the Attributes slice, getter destinations and the runtime "
                       "are only measured. The full statement is false for MessageIntegrity.Check with < 20 spare bytes "
                       "(known finding F9, proved as integrityCheck_allocates_without_spare and measured).",
    },
    "C14": {
        "modules": ["Stun.Properties.C14"],
        "theorems": ["Stun.C14.prefix_execution", "Stun.C14.fresh_concurrent_terminals", "Stun.C14.single_crit_linearizable", "Stun.C14.realtime_respected", "Stun.C14.seqExplains_run",
                     "Stun.C14.one_terminator_wins"],
        "streams": ["agent-conc", "agent-seq"],
        "tagsets": [["verif", "race"]],
        "level": "proof",
        "rule": "2..16 goroutines issue random overlapping Start/Stop/Process/Collect/Close calls on 1..4 shared ids, with "
                "handlers calling back into the agent (outside Close), under the race detector; every recorded history "
                "(call/return timestamps, return value, sorted events per call) is checked for linearizability against "
                "the sequential specification with porcupine; watchdog for stuck goroutines; the specification copy "
                "used by the checker is the one validated by the agent-seq stream",
        "assumptions": ["Go's mutex / memory model, the race detector's verdict and scheduling are runtime facts",
                        "the lock-structure premise of the theorem is tied to agent.go by the regenerated lock facts "
                        "(Tie/AgentLocks.lean)"],
        "explanation": "partial by nature: Lean proves linearizability for single-critical-section objects and the "
                       "one-terminator corollary; data-race and deadlock freedom are observed, not proved",
    },
}


# ---------------------------------------------------------------------------------------------------------------
# regenerated tie: theorems that the constants / straight-line functions / lock structure / dial table extracted from
# the repository on this run (lean/Stun/Gen/Generated.lean) equal what the hand-written model uses
_C = "Stun.Tie."
_CODEC_CONSTS = [_C + n for n in ("magicCookie", "attributeHeaderSize", "messageHeaderSize", "transactionIDSize", "padding",
                                  "nearestPaddedValueLength", "compatAttrType", "typeValue_translated")]
TIE = {
    "C20": (["Stun.Tie.Consts"], [_C + "messageIntegritySize", _C + "messageHeaderSize", _C + "attributeHeaderSize", _C + "padding"]),
    "C19": (["Stun.Tie.Funcs"], [_C + "typeValue", _C + "readValue", _C + "typeValue_translated"]),
    "C01": (["Stun.Tie.Consts", "Stun.Tie.Funcs"], _CODEC_CONSTS),
    "C02": (["Stun.Tie.Consts", "Stun.Tie.Funcs"], _CODEC_CONSTS),
    "C03": (["Stun.Tie.Consts", "Stun.Tie.Funcs"], _CODEC_CONSTS),
    "C04": (["Stun.Tie.Consts"], [_C + "messageIntegritySize", _C + "attrTypes", _C + "attributeHeaderSize"]),
    "C05": (["Stun.Tie.Consts"], [_C + "fingerprintXORValue", _C + "fingerprintSize", _C + "attrTypes"]),
    "C06": (["Stun.Tie.Consts"], [_C + "familyIPv4", _C + "familyIPv6", _C + "attrTypes", _C + "attrTypeSize"]),
    "C07": (["Stun.Tie.Consts"], [_C + "maxUsernameB", _C + "maxRealmB", _C + "maxNonceB", _C + "softwareRawMaxB",
                                  _C + "errorCodeReasonMaxB", _C + "attrTypes"]),
    "C08": (["Stun.Tie.Consts"], [_C + "attrTypes", _C + "attributeHeaderSize", _C + "padding"]),
    "C09": (["Stun.Tie.Consts"], [_C + "errorReasons", _C + "errorCodeReasonStart", _C + "errorCodeModulo",
                                  _C + "errorCodeBytes", _C + "errorCodeReasonMaxB"]),
    "C10": (["Stun.Tie.Consts", "Stun.Tie.Funcs", "Stun.Tie.Locks"], [_C + "clientDefaults", _C + "nextTimeout", _C + "clientLocks"]),
    "C11": (["Stun.Tie.Consts", "Stun.Tie.Funcs", "Stun.Tie.Locks"], [_C + "clientDefaults", _C + "nextTimeout", _C + "clientLocks"]),
    "C12": (["Stun.Tie.Consts", "Stun.Tie.Locks"], [_C + "clientDefaults", _C + "clientLocks", _C + "transactionIDSize"]),
    "C13": (["Stun.Tie.Locks"], [_C + "agentLocks"]),
    "C14": (["Stun.Tie.Locks"], [_C + "agentLocks"]),
    "C15": (["Stun.Tie.Locks"], [_C + "clientLocks"]),
    "C16": (["Stun.Tie.Consts"], [_C + "defaultPorts", _C + "schemeProtoCodes"]),
    "C17": (["Stun.Tie.Consts", "Stun.Tie.Locks"], [_C + "defaultPorts", _C + "schemeProtoCodes", _C + "dialTable"]),
}
for _pid, (_mods, _thms) in TIE.items():
    if _pid in PROPS:
        PROPS[_pid]["modules"] = PROPS[_pid]["modules"] + [m for m in _mods if m not in PROPS[_pid]["modules"]]
        PROPS[_pid]["theorems"] = PROPS[_pid]["theorems"] + [t for t in _thms if t not in PROPS[_pid]["theorems"]]
        PROPS[_pid]["tie_theorems"] = _thms

