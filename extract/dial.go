package main

import (
	"fmt"
	"go/ast"
	"go/constant"
	"go/token"
	"strings"
)

// evaluates a boolean condition over uri.Scheme / uri.Proto for concrete values
func evalCond(e ast.Expr, env map[string]int64) (bool, bool) {
	switch x := e.(type) {
	case *ast.ParenExpr:
		return evalCond(x.X, env)
	case *ast.BinaryExpr:
		switch x.Op {
		case token.LAND, token.LOR:
			l, ok1 := evalCond(x.X, env)
			r, ok2 := evalCond(x.Y, env)
			if !ok1 || !ok2 {
				return false, false
			}
			if x.Op == token.LAND {
				return l && r, true
			}
			return l || r, true
		case token.EQL, token.NEQ:
			l, ok1 := evalVal(x.X, env)
			r, ok2 := evalVal(x.Y, env)
			if !ok1 || !ok2 {
				return false, false
			}
			return (l == r) == (x.Op == token.EQL), true
		}
	}
	return false, false
}

func evalVal(e ast.Expr, env map[string]int64) (int64, bool) {
	switch x := e.(type) {
	case *ast.SelectorExpr:
		if id, ok := x.X.(*ast.Ident); ok && id.Name == "uri" {
			v, ok := env[x.Sel.Name]
			return v, ok
		}
	case *ast.Ident:
		if v, ok := consts[x.Name]; ok && v.Kind() == constant.Int {
			n, _ := constant.Int64Val(v)
			return n, true
		}
	}
	return 0, false
}

func containsCall(n ast.Node, pkg, fn string) bool {
	found := false
	ast.Inspect(n, func(m ast.Node) bool {
		if c, ok := m.(*ast.CallExpr); ok {
			if sel, ok := c.Fun.(*ast.SelectorExpr); ok && sel.Sel.Name == fn {
				if id, ok := sel.X.(*ast.Ident); ok && id.Name == pkg {
					found = true
				}
			}
		}
		return !found
	})
	return found
}

// setsServerNameToHost: `<cfg>.ServerName = uri.Host`
func setsServerName(n ast.Node) bool {
	found := false
	ast.Inspect(n, func(m ast.Node) bool {
		if a, ok := m.(*ast.AssignStmt); ok && len(a.Lhs) == 1 && len(a.Rhs) == 1 {
			if l, ok := a.Lhs[0].(*ast.SelectorExpr); ok && l.Sel.Name == "ServerName" {
				if r, ok := a.Rhs[0].(*ast.SelectorExpr); ok && r.Sel.Name == "Host" {
					found = true
				}
			}
		}
		return !found
	})
	return found
}

// network argument of the first nw.Dial(...) in a case body, evaluated for the given proto
func dialNetwork(body []ast.Stmt, env map[string]int64) string {
	vars := map[string]string{}
	res := ""
	var walk func(stmts []ast.Stmt)
	walk = func(stmts []ast.Stmt) {
		for _, s := range stmts {
			switch x := s.(type) {
			case *ast.AssignStmt:
				if len(x.Lhs) == 1 && len(x.Rhs) == 1 {
					if id, ok := x.Lhs[0].(*ast.Ident); ok {
						if lit, ok := x.Rhs[0].(*ast.BasicLit); ok && lit.Kind == token.STRING {
							vars[id.Name] = strings.Trim(lit.Value, "\"")
						}
					}
				}
			case *ast.IfStmt:
				if x.Init != nil {
					walk([]ast.Stmt{x.Init})
				}
				if c, ok := evalCond(x.Cond, env); ok && c {
					walk(x.Body.List)
				}
			}
			if res != "" {
				return
			}
			ast.Inspect(s, func(m ast.Node) bool {
				if _, isIf := m.(*ast.BlockStmt); isIf && m != s {
					return false // blocks are walked (conditionally) above
				}
				if c, ok := m.(*ast.CallExpr); ok && res == "" {
					if sel, ok := c.Fun.(*ast.SelectorExpr); ok && (sel.Sel.Name == "Dial" || sel.Sel.Name == "DialUDP") && len(c.Args) >= 1 {
						switch a := c.Args[0].(type) {
						case *ast.BasicLit:
							res = strings.Trim(a.Value, "\"")
						case *ast.Ident:
							res = vars[a.Name]
						}
					}
				}
				return true
			})
		}
	}
	walk(body)
	return res
}

func emitDialTable(b *strings.Builder) {
	fd := findFunc("client.go", "", "DialURI")
	b.WriteString("/-- DialURI's switch evaluated for every (scheme, proto) value: (scheme, proto, plan) -/\ndef dialTable : List (Nat × Nat × String) := [")
	var sw *ast.SwitchStmt
	if fd != nil {
		ast.Inspect(fd, func(n ast.Node) bool {
			if s, ok := n.(*ast.SwitchStmt); ok && sw == nil && s.Tag == nil {
				sw = s
			}
			return sw == nil
		})
	}
	first := true
	for s := int64(0); s <= 4; s++ {
		for p := int64(0); p <= 2; p++ {
			plan := "untranslated"
			if sw != nil {
				env := map[string]int64{"Scheme": s, "Proto": p}
				plan = "unsupported"
				for _, c := range sw.Body.List {
					cc := c.(*ast.CaseClause)
					if cc.List == nil { // default
						continue
					}
					ok, known := evalCond(cc.List[0], env)
					if !known {
						plan = "untranslated"
						break
					}
					if ok {
						switch {
						case containsCall(cc, "dtls", "Client"):
							plan = "dtls:" + dialNetwork(cc.Body, env)
							if setsServerName(cc) {
								plan += ":sni"
							}
						case containsCall(cc, "tls", "Client"):
							plan = "tls:" + dialNetwork(cc.Body, env)
							if setsServerName(cc) {
								plan += ":sni"
							}
						default:
							plan = "plain:" + dialNetwork(cc.Body, env)
						}
						break
					}
				}
			}
			if !first {
				b.WriteString(", ")
			}
			first = false
			fmt.Fprintf(b, "(%d, %d, %q)", s, p, plan)
		}
	}
	b.WriteString("]\n\n")
}
