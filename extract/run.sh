#!/bin/bash
# regenerate lean/Stun/Gen/Generated.lean from the repository (written only if it changed)
set -e
cd "$(dirname "$0")"
export GOFLAGS=-mod=mod GOPROXY=off GOSUMDB=off GOTOOLCHAIN=local
REPO=${1:-/repo}
mkdir -p bin ../lean/Stun/Gen
go build -o bin/stunfacts . 
./bin/stunfacts "$REPO" ../lean/Stun/Gen/Generated.lean
