package main

import (
	"fmt"
	"go/ast"
	"sort"
	"strings"
)

type lockFact struct {
	method         string
	locks          int      // number of Lock/RLock calls on the receiver's mutex
	unlockedAccess []string // guarded fields touched while the mutex is not held
	handlerLocked  bool     // a handler is invoked while the mutex is held
	handlerCalls   int
}

// linear walk of a method body tracking whether recv.mux is held
func lockFacts(fd *ast.FuncDecl, recv string, guarded map[string]bool, handlerNames map[string]bool) lockFact {
	lf := lockFact{method: fd.Name.Name}
	locked := false
	deferred := false
	isMux := func(c *ast.CallExpr, names ...string) bool {
		sel, ok := c.Fun.(*ast.SelectorExpr)
		if !ok {
			return false
		}
		in, ok := sel.X.(*ast.SelectorExpr)
		if !ok || in.Sel.Name != "mux" {
			return false
		}
		if id, ok := in.X.(*ast.Ident); !ok || id.Name != recv {
			return false
		}
		for _, n := range names {
			if sel.Sel.Name == n {
				return true
			}
		}
		return false
	}
	var walkStmts func(stmts []ast.Stmt)
	var visit func(n ast.Node)
	visit = func(n ast.Node) {
		ast.Inspect(n, func(m ast.Node) bool {
			switch x := m.(type) {
			case *ast.BlockStmt:
				walkStmts(x.List)
				return false
			case *ast.FuncLit:
				return false // closures run later
			case *ast.CallExpr:
				if isMux(x, "Lock", "RLock") {
					lf.locks++
					locked = true
					return false
				}
				if isMux(x, "Unlock", "RUnlock") {
					if !deferred {
						locked = false
					}
					return false
				}
				// handler invocation: h(...), a.handler(...), t.h(...), transaction.handle(...)
				name := ""
				switch f := x.Fun.(type) {
				case *ast.Ident:
					name = f.Name
				case *ast.SelectorExpr:
					name = f.Sel.Name
				}
				if handlerNames[name] {
					lf.handlerCalls++
					if locked {
						lf.handlerLocked = true
					}
				}
			case *ast.SelectorExpr:
				if id, ok := x.X.(*ast.Ident); ok && id.Name == recv && guarded[x.Sel.Name] && !locked {
					lf.unlockedAccess = append(lf.unlockedAccess, x.Sel.Name)
				}
			}
			return true
		})
	}
	walkStmts = func(stmts []ast.Stmt) {
		before := locked
		endsWithReturn := false
		for _, s := range stmts {
			if d, ok := s.(*ast.DeferStmt); ok {
				if isMux(d.Call, "Unlock", "RUnlock") {
					deferred = true
					continue
				}
			}
			if _, ok := s.(*ast.ReturnStmt); ok {
				endsWithReturn = true
			}
			visit(s)
		}
		if endsWithReturn { // control does not fall out of this block: the lock state after it is the one before it
			locked = before
		}
	}
	walkStmts(fd.Body.List)
	sort.Strings(lf.unlockedAccess)
	return lf
}

func emitLockFacts(b *strings.Builder) {
	b.WriteString("structure LockFact where\n  method : String\n  locks : Nat\n  unlockedAccess : List String\n  handlerLocked : Bool\n  handlerCalls : Nat\nderiving DecidableEq, Repr\n\n")
	emit := func(defName, file, recvType string, guarded map[string]bool, handlers map[string]bool) {
		fmt.Fprintf(b, "def %s : List LockFact := [", defName)
		f := files[file]
		first := true
		if f != nil {
			for _, d := range f.Decls {
				fd, ok := d.(*ast.FuncDecl)
				if !ok || fd.Recv == nil || len(fd.Recv.List) != 1 || len(fd.Recv.List[0].Names) != 1 || fd.Body == nil {
					continue
				}
				r := ""
				if st, ok := fd.Recv.List[0].Type.(*ast.StarExpr); ok {
					if id, ok := st.X.(*ast.Ident); ok {
						r = id.Name
					}
				}
				if r != recvType {
					continue
				}
				lf := lockFacts(fd, fd.Recv.List[0].Names[0].Name, guarded, handlers)
				if !first {
					b.WriteString(",\n  ")
				}
				first = false
				acc := make([]string, len(lf.unlockedAccess))
				for i, a := range lf.unlockedAccess {
					acc[i] = fmt.Sprintf("%q", a)
				}
				fmt.Fprintf(b, "⟨%q, %d, [%s], %v, %d⟩", lf.method, lf.locks, strings.Join(acc, ", "), lf.handlerLocked, lf.handlerCalls)
			}
		}
		b.WriteString("]\n\n")
	}
	emit("agentLockFacts", "agent.go", "Agent", map[string]bool{"transactions": true, "closed": true, "handler": true},
		map[string]bool{"h": true, "handler": true})
	emit("clientLockFacts", "client.go", "Client", map[string]bool{"closed": true, "t": true},
		map[string]bool{"handle": true})
}
