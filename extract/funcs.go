package main

import (
	"fmt"
	"go/ast"
	"go/constant"
	"go/token"
	"strings"
)

var leanKeywords = map[string]bool{"class": true, "end": true, "from": true, "at": true, "fun": true, "let": true, "in": true, "do": true, "then": true, "else": true, "if": true, "open": true, "instance": true, "structure": true, "def": true}

func lname(s string) string {
	if leanKeywords[s] {
		return s + "_"
	}
	return s
}

func findFunc(file, recv, name string) *ast.FuncDecl {
	f := files[file]
	if f == nil {
		return nil
	}
	for _, d := range f.Decls {
		fd, ok := d.(*ast.FuncDecl)
		if !ok || fd.Name.Name != name {
			continue
		}
		r := ""
		if fd.Recv != nil && len(fd.Recv.List) == 1 {
			switch t := fd.Recv.List[0].Type.(type) {
			case *ast.Ident:
				r = t.Name
			case *ast.StarExpr:
				if id, ok := t.X.(*ast.Ident); ok {
					r = id.Name
				}
			}
		}
		if r == recv {
			return fd
		}
	}
	return nil
}

type tr struct {
	wrap   string            // "w16" for uint16 arithmetic, "" for int
	fields map[string]string // receiver field -> lean name
	recv   string
	bad    []string
}

var wrapOps = map[token.Token]bool{token.ADD: true, token.SHL: true, token.MUL: true, token.SUB: true}

func (t *tr) expr(e ast.Expr) string {
	switch x := e.(type) {
	case *ast.BasicLit:
		if v, ok := evalConst(x, 0); ok && v.Kind() == constant.Int {
			return v.ExactString()
		}
	case *ast.Ident:
		if v, ok := consts[x.Name]; ok && v.Kind() == constant.Int {
			return v.ExactString()
		}
		return lname(x.Name)
	case *ast.ParenExpr:
		return t.expr(x.X)
	case *ast.SelectorExpr:
		if id, ok := x.X.(*ast.Ident); ok && id.Name == t.recv {
			if n, ok := t.fields[x.Sel.Name]; ok {
				return n
			}
		}
	case *ast.CallExpr:
		if id, ok := x.Fun.(*ast.Ident); ok && len(x.Args) == 1 {
			a := t.expr(x.Args[0])
			switch id.Name {
			case "uint16", "Method":
				return "(w16 " + a + ")"
			case "MessageClass", "byte":
				return "(" + a + " % 256)"
			case "AttrType", "int", "uint32":
				return a
			}
		}
	case *ast.BinaryExpr:
		l, r := t.expr(x.X), t.expr(x.Y)
		op := map[token.Token]string{token.ADD: "+", token.SUB: "-", token.MUL: "*", token.QUO: "/", token.REM: "%",
			token.AND: "&&&", token.OR: "|||", token.XOR: "^^^", token.SHL: "<<<", token.SHR: ">>>",
			token.LSS: "<", token.LEQ: "≤", token.EQL: "==", token.GTR: ">", token.GEQ: "≥"}[x.Op]
		if op != "" {
			s := "(" + l + " " + op + " " + r + ")"
			if t.wrap != "" && wrapOps[x.Op] {
				return "(" + t.wrap + " " + s + ")"
			}
			return s
		}
	}
	t.bad = append(t.bad, fmt.Sprintf("%T", e))
	return "(unsupported \"expr\")"
}

// straight-line body: assignments, `if c { x op= e }`, `if c { return e }`, return
func (t *tr) body(stmts []ast.Stmt, outs map[string]string, final func(ret string) string) string {
	var b strings.Builder
	for i, s := range stmts {
		switch x := s.(type) {
		case *ast.AssignStmt:
			if len(x.Lhs) != 1 || len(x.Rhs) != 1 {
				t.bad = append(t.bad, "multi-assign")
				continue
			}
			rhs := t.expr(x.Rhs[0])
			switch l := x.Lhs[0].(type) {
			case *ast.Ident:
				name := lname(l.Name)
				switch x.Tok {
				case token.DEFINE, token.ASSIGN:
				case token.ADD_ASSIGN:
					rhs = "(" + name + " + " + rhs + ")"
				default:
					t.bad = append(t.bad, "assign-op")
				}
				fmt.Fprintf(&b, "  let %s := %s\n", name, rhs)
			case *ast.SelectorExpr: // t.Class = ..., t.Method = ...
				outs[l.Sel.Name] = rhs
				fmt.Fprintf(&b, "  let out_%s := %s\n", l.Sel.Name, rhs)
			default:
				t.bad = append(t.bad, "lhs")
			}
		case *ast.IfStmt:
			cond := t.expr(x.Cond)
			if len(x.Body.List) == 1 {
				switch y := x.Body.List[0].(type) {
				case *ast.AssignStmt:
					if id, ok := y.Lhs[0].(*ast.Ident); ok && len(y.Rhs) == 1 {
						name := lname(id.Name)
						rhs := t.expr(y.Rhs[0])
						if y.Tok == token.ADD_ASSIGN {
							rhs = "(" + name + " + " + rhs + ")"
						}
						fmt.Fprintf(&b, "  let %s := if %s then %s else %s\n", name, cond, rhs, name)
						continue
					}
				case *ast.ReturnStmt:
					if len(y.Results) == 1 {
						rest := t.body(stmts[i+1:], outs, final)
						fmt.Fprintf(&b, "  if %s then %s else\n%s", cond, final(t.expr(y.Results[0])), rest)
						return b.String()
					}
				}
			}
			t.bad = append(t.bad, "if-shape")
		case *ast.ReturnStmt:
			if len(x.Results) == 1 {
				fmt.Fprintf(&b, "  %s\n", final(t.expr(x.Results[0])))
				return b.String()
			}
			t.bad = append(t.bad, "return-shape")
		default:
			t.bad = append(t.bad, fmt.Sprintf("stmt %T", s))
		}
	}
	fmt.Fprintf(&b, "  %s\n", final(""))
	return b.String()
}

func emitFuncs(b *strings.Builder) {
	id := func(s string) string { return s }
	// MessageType.Value
	if fd := findFunc("message.go", "MessageType", "Value"); fd != nil {
		t := &tr{wrap: "w16", recv: fd.Recv.List[0].Names[0].Name, fields: map[string]string{"Method": "method", "Class": "cls"}}
		body := t.body(fd.Body.List, map[string]string{}, id)
		fmt.Fprintf(b, "def typeValue (method cls : Nat) : Nat :=\n%s\n", body)
		emitBad(b, "typeValue", t)
	} else {
		b.WriteString("def typeValue (method cls : Nat) : Nat := unsupported \"MessageType.Value not found\"\n\n")
	}
	// MessageType.ReadValue
	if fd := findFunc("message.go", "MessageType", "ReadValue"); fd != nil {
		t := &tr{wrap: "w16", recv: fd.Recv.List[0].Names[0].Name, fields: map[string]string{}}
		outs := map[string]string{}
		body := t.body(fd.Body.List, outs, func(string) string { return "(out_Method, out_Class)" })
		param := fd.Type.Params.List[0].Names[0].Name
		if outs["Method"] == "" || outs["Class"] == "" {
			t.bad = append(t.bad, "outputs")
		}
		fmt.Fprintf(b, "def readValue (%s : Nat) : Nat × Nat :=\n%s\n", lname(param), body)
		emitBad(b, "readValue", t)
	}
	if fd := findFunc("attributes.go", "", "nearestPaddedValueLength"); fd != nil {
		t := &tr{recv: "", fields: map[string]string{}}
		body := t.body(fd.Body.List, map[string]string{}, id)
		fmt.Fprintf(b, "def nearestPaddedValueLength (%s : Nat) : Nat :=\n%s\n", lname(fd.Type.Params.List[0].Names[0].Name), body)
		emitBad(b, "nearestPaddedValueLength", t)
	}
	if fd := findFunc("attributes.go", "", "compatAttrType"); fd != nil {
		t := &tr{recv: "", fields: map[string]string{}}
		body := t.body(fd.Body.List, map[string]string{}, id)
		fmt.Fprintf(b, "def compatAttrType (%s : Nat) : Nat :=\n%s\n", lname(fd.Type.Params.List[0].Names[0].Name), body)
		emitBad(b, "compatAttrType", t)
	}
	// nextTimeout: now.Add(time.Duration(t.attempt+1) * t.rto)
	if fd := findFunc("client.go", "clientTransaction", "nextTimeout"); fd != nil {
		t := &tr{recv: fd.Recv.List[0].Names[0].Name, fields: map[string]string{"attempt": "attempt", "rto": "rto"}}
		ok := false
		if len(fd.Body.List) == 1 {
			if rs, isRet := fd.Body.List[0].(*ast.ReturnStmt); isRet && len(rs.Results) == 1 {
				if call, isCall := rs.Results[0].(*ast.CallExpr); isCall && len(call.Args) == 1 {
					if sel, isSel := call.Fun.(*ast.SelectorExpr); isSel && sel.Sel.Name == "Add" {
						e := stripDuration(call.Args[0])
						fmt.Fprintf(b, "def nextTimeout (attempt rto now : Nat) : Nat := now + %s\n\n", t.expr(e))
						ok = len(t.bad) == 0
					}
				}
			}
		}
		if !ok {
			b.WriteString("def nextTimeout (attempt rto now : Nat) : Nat := unsupported \"nextTimeout\"\n\n")
		}
	}
}

// time.Duration(x) -> x, recursively through binary expressions
func stripDuration(e ast.Expr) ast.Expr {
	switch x := e.(type) {
	case *ast.CallExpr:
		if sel, ok := x.Fun.(*ast.SelectorExpr); ok && sel.Sel.Name == "Duration" && len(x.Args) == 1 {
			return stripDuration(x.Args[0])
		}
	case *ast.BinaryExpr:
		return &ast.BinaryExpr{X: stripDuration(x.X), Op: x.Op, Y: stripDuration(x.Y)}
	case *ast.ParenExpr:
		return stripDuration(x.X)
	}
	return e
}

func emitBad(b *strings.Builder, name string, t *tr) {
	if len(t.bad) > 0 {
		fmt.Fprintf(b, "def %s_untranslated : Nat := unsupported %q\n\n", name, strings.Join(t.bad, ","))
	} else {
		fmt.Fprintf(b, "def %s_untranslated : Nat := 1\n\n", name)
	}
}
