module stunfacts

go 1.20
